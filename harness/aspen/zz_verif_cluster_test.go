package aspen_test

// Injected by /verif via `go test -overlay`; never part of the repository.
// aspen-cluster engine (C06, C13): whole aspen nodes (cluster membership with pledge and
// gossip, the complete kv pipeline with its goroutines, recovery at start-up) run inside
// a synctest bubble over the repository's in-memory transport and in-memory pebble
// engines. The simulator owns the clock (gossip intervals, pledge timeouts), the network
// (a fault middleware on every node's transport: loss, duplication, delay, partitions)
// and node restarts (close, then reopen over the same engine: committed batches survive).

import (
	"context"
	"fmt"
	"math/rand"
	"os"
	"sort"
	"strconv"
	"strings"
	"sync"
	"testing"
	"testing/synctest"
	"time"

	"github.com/google/uuid"
	"go/types"

	"github.com/synnaxlabs/aspen"
	cgossip "github.com/synnaxlabs/aspen/internal/cluster/gossip"
	"github.com/synnaxlabs/aspen/internal/cluster/pledge"
	ikv "github.com/synnaxlabs/aspen/internal/kv"
	"github.com/synnaxlabs/aspen/transport/mock"
	"github.com/synnaxlabs/freighter"
	"github.com/synnaxlabs/x/address"
	"github.com/synnaxlabs/x/change"
	"github.com/synnaxlabs/x/encoding/msgpack"
	"github.com/synnaxlabs/x/errors"
	xkv "github.com/synnaxlabs/x/kv"
	"github.com/synnaxlabs/x/kv/memkv"
	"pgregory.net/rapid"
	"verifsim/drv"
	"verifsim/sim"
	"verifsim/simrt"
)

func TestVerif(t *testing.T) {
	drv.Main(t,
		drv.Wrap(drv.Engine[acCase]{Property: "C06", Name: "cluster", Gen: genAC, Run: func(t *testing.T, c acCase, st *drv.Stats) *drv.Failure { return runAC(t, c, st, "C06") }, BatchChecks: 4, GCEvery: 1}),
		drv.Wrap(drv.Engine[acCase]{Property: "C11", Name: "cluster", Gen: genAC, Run: func(t *testing.T, c acCase, st *drv.Stats) *drv.Failure { return runAC(t, c, st, "C11") }, BatchChecks: 4, GCEvery: 1}),
		drv.Wrap(drv.Engine[acCase]{Property: "C13", Name: "cluster", Gen: genAC, Run: func(t *testing.T, c acCase, st *drv.Stats) *drv.Failure { return runAC(t, c, st, "C13") }, BatchChecks: 4, GCEvery: 1}),
	)
}

var acTraceN int

type acEvent struct {
	K    string   `json:"k"` // set, del, sleep, part, heal, restart, faults
	Node int      `json:"node,omitempty"`
	Key  string   `json:"key,omitempty"`
	MS   int      `json:"ms,omitempty"`
	Keys []string `json:"keys,omitempty"` // tx: keys set in one transaction
	N    int      `json:"n,omitempty"`    // burst: number of consecutive sets
	A    int      `json:"a,omitempty"`
	B    int      `json:"b,omitempty"`
}

type acCase struct {
	Nodes    int       `json:"nodes"`
	Events   []acEvent `json:"events"`
	DropPct  int       `json:"drop_pct"`
	DupPct   int       `json:"dup_pct"`
	DelayMS  int       `json:"delay_ms"`
	NetSeed  int64     `json:"net_seed"`
	Recovery int       `json:"recovery_threshold"`
	GossipMS int       `json:"gossip_ms"`
	// Stall: node with an extra subscriber that never returns from its first
	// notification (0 = none); StallFirst registers it before the other subscribers
	Stall       int  `json:"stall,omitempty"`
	StallFirst  bool `json:"stall_first,omitempty"`
	ShuffleMaps bool `json:"shuffle_maps,omitempty"`
}

func genAC(t *rapid.T) acCase {
	c := acCase{Nodes: rapid.IntRange(2, 4).Draw(t, "nodes"), NetSeed: int64(rapid.Uint64().Draw(t, "netseed") >> 1),
		GossipMS: rapid.SampledFrom([]int{20, 50, 50, 100}).Draw(t, "gossip")}
	if rapid.IntRange(0, 2).Draw(t, "faulty") > 0 {
		c.DropPct = rapid.SampledFrom([]int{0, 5, 20, 40}).Draw(t, "drop")
		c.DupPct = rapid.SampledFrom([]int{0, 10, 30}).Draw(t, "dup")
		c.DelayMS = rapid.SampledFrom([]int{0, 1, 20, 100}).Draw(t, "delay")
	}
	keys := []string{"a", "b", "c"}[:rapid.IntRange(1, 3).Draw(t, "nkeys")]
	restarts, joins := 0, 0
	if rapid.IntRange(0, 3).Draw(t, "stall") == 0 {
		// a stalled co-subscriber and enough changes to fill its buffer
		c.Stall = rapid.IntRange(1, c.Nodes).Draw(t, "stallnode")
		c.StallFirst = rapid.Bool().Draw(t, "stallfirst")
		c.ShuffleMaps = rapid.Bool().Draw(t, "shufflemaps")
		c.Events = append(c.Events, acEvent{K: "burst", Node: rapid.IntRange(1, c.Nodes).Draw(t, "bnode"), Key: keys[0], N: rapid.IntRange(66, 80).Draw(t, "burstn")})
	}
	for n := rapid.IntRange(2, 25).Draw(t, "n"); n > 0; n-- {
		switch k := rapid.IntRange(0, 14).Draw(t, "k"); {
		case k < 6:
			c.Events = append(c.Events, acEvent{K: "set", Node: rapid.IntRange(1, c.Nodes).Draw(t, "node"), Key: keys[rapid.IntRange(0, len(keys)-1).Draw(t, "key")]})
		case k < 7 && len(keys) > 1 && rapid.IntRange(0, 1).Draw(t, "astx") == 0:
			ev := acEvent{K: "tx", Node: rapid.IntRange(1, c.Nodes).Draw(t, "node")}
			for j := rapid.IntRange(2, 4).Draw(t, "ntx"); j > 0; j-- {
				ev.Keys = append(ev.Keys, keys[rapid.IntRange(0, len(keys)-1).Draw(t, "txkey")])
			}
			c.Events = append(c.Events, ev)
		case k < 7:
			c.Events = append(c.Events, acEvent{K: "del", Node: rapid.IntRange(1, c.Nodes).Draw(t, "node"), Key: keys[rapid.IntRange(0, len(keys)-1).Draw(t, "key")]})
		case k < 11:
			c.Events = append(c.Events, acEvent{K: "sleep", MS: rapid.SampledFrom([]int{1, 5, 20, 100, 300}).Draw(t, "ms")})
		case k < 12 && c.Nodes > 2:
			a := rapid.IntRange(1, c.Nodes).Draw(t, "pa")
			b := rapid.IntRange(1, c.Nodes).Draw(t, "pb")
			if a != b {
				c.Events = append(c.Events, acEvent{K: "part", A: a, B: b})
			}
		case k < 13:
			c.Events = append(c.Events, acEvent{K: "heal"})
		case k == 13 && joins < 2:
			// a new node joins through one member (possibly one that was restarted)
			c.Events = append(c.Events, acEvent{K: "join", Node: rapid.IntRange(1, c.Nodes).Draw(t, "jvia")})
			joins++
		case restarts < 2:
			c.Events = append(c.Events, acEvent{K: "restart", Node: rapid.IntRange(1, c.Nodes).Draw(t, "rnode")})
			restarts++
		}
	}
	return c
}

// acNet is the fault-injecting, recording network shared by the nodes' transports.
// Every client of a node's transport is wrapped, so faults are decided per message
// kind from the case's PRNG and the payloads of the kv messages are visible to the
// oracle (which node was ever offered which version of which key, how many feedback
// messages each holder received).
type acNet struct {
	mu      sync.Mutex
	rng     *rand.Rand
	c       acCase
	enabled bool
	blocked map[[2]string]bool
	fired   map[string]int
	addrOf  map[int]address.Address
	idOf    map[address.Address]int
	log     *[]string
	t0      time.Time
	// offered[node][key] = highest version of key carried by a kv message that was
	// delivered to the node (as a request or as the reply to its own request)
	offered map[int]map[string]int64
	// feedback[node][key@version] = feedback messages delivered to the node for it
	feedback map[int]map[string]int
	// sent[node][key] = highest version of key the node itself put into a kv gossip
	// message (request or reply): it propagated that version
	sent map[int]map[string]int64
	msgs map[string]int
	// down: nodes that are closing, closed or reopening; what reaches them meanwhile
	// (the transport still accepts, the pipeline no longer applies) does not count as
	// having been offered. epoch[node] changes with every stop.
	down  map[int]bool
	epoch map[int]int
}

type acFault struct {
	blocked, drop, dropReply, dup bool
	delay                         time.Duration
}

func (n *acNet) decide(src, dst address.Address, kind string) acFault {
	n.mu.Lock()
	defer n.mu.Unlock()
	n.msgs[kind]++
	var f acFault
	f.blocked = n.blocked[[2]string{string(src), string(dst)}] || n.blocked[[2]string{string(dst), string(src)}]
	if n.enabled && !f.blocked {
		f.drop = n.rng.Intn(100) < n.c.DropPct
		f.dropReply = !f.drop && n.rng.Intn(100) < n.c.DropPct/2
		// only the gossip exchanges are duplicated: they are at-least-once by design,
		// whereas a forwarded client write (lease) or a pledge is a unary RPC that the
		// transport does not repeat, and repeating it is a second write
		f.dup = !f.drop && n.rng.Intn(100) < n.c.DupPct && (kind == "kv_gossip" || kind == "kv_feedback" || kind == "cluster_gossip")
		if n.c.DelayMS > 0 {
			f.delay = time.Duration(n.rng.Intn(n.c.DelayMS*1000)) * time.Microsecond
		}
	}
	switch {
	case f.blocked:
		n.fired["partitioned:"+kind]++
	case f.drop:
		n.fired["drop:"+kind]++
	case f.dropReply:
		n.fired["reply_lost:"+kind]++
	}
	if f.dup {
		n.fired["duplicate:"+kind]++
	}
	if f.delay > 0 {
		n.fired["delay"]++
	}
	return f
}

func (n *acNet) note(format string, args ...any) {
	n.mu.Lock()
	defer n.mu.Unlock()
	if n.log != nil {
		*n.log = append(*n.log, fmt.Sprintf("t=%d ", time.Since(n.t0).Microseconds())+fmt.Sprintf(format, args...))
	}
}

func (n *acNet) epochOf(node int) int {
	n.mu.Lock()
	defer n.mu.Unlock()
	if n.down[node] {
		return -1
	}
	return n.epoch[node]
}

func (n *acNet) offer(node int, epoch int, ops []ikv.Operation) {
	n.mu.Lock()
	defer n.mu.Unlock()
	if epoch < 0 || n.down[node] || n.epoch[node] != epoch {
		return
	}
	m := n.offered[node]
	if m == nil {
		m = map[string]int64{}
		n.offered[node] = m
	}
	for _, op := range ops {
		if v := int64(op.Version); v > m[string(op.Key)] {
			m[string(op.Key)] = v
		}
	}
}

func (n *acNet) sentBy(node int, ops []ikv.Operation) {
	n.mu.Lock()
	defer n.mu.Unlock()
	m := n.sent[node]
	if m == nil {
		m = map[string]int64{}
		n.sent[node] = m
	}
	for _, op := range ops {
		if v := int64(op.Version); v > m[string(op.Key)] {
			m[string(op.Key)] = v
		}
	}
}

func acOps(ops []ikv.Operation) string {
	var b strings.Builder
	for _, op := range ops {
		fmt.Fprintf(&b, " %s@%d/%d", op.Key, op.Version, op.Leaseholder)
	}
	return b.String()
}

// acClient wraps one unary client of a node's transport.
type acClient[RQ, RS freighter.Payload] struct {
	freighter.UnaryClient[RQ, RS]
	net  *acNet
	src  address.Address
	kind string
	req  func(dst address.Address, rq RQ, dstEpoch int)
	res  func(dst address.Address, rs RS, srcEpoch int)
}

func (c *acClient[RQ, RS]) Send(ctx context.Context, target address.Address, req RQ) (res RS, err error) {
	f := c.net.decide(c.src, target, c.kind)
	if f.blocked || f.drop {
		return res, errors.New("simnet: message lost")
	}
	if f.delay > 0 {
		time.Sleep(simrt.UniqueDur(f.delay))
	}
	dstEpoch, srcEpoch := c.net.epochOf(c.net.idOf[target]), c.net.epochOf(c.net.idOf[c.src])
	if f.dup {
		if _, derr := c.UnaryClient.Send(ctx, target, req); derr == nil && c.req != nil {
			c.req(target, req, dstEpoch)
		}
	}
	res, err = c.UnaryClient.Send(ctx, target, req)
	if err != nil {
		return res, err
	}
	if c.req != nil {
		c.req(target, req, dstEpoch)
	}
	if f.dropReply {
		var zero RS
		return zero, errors.New("simnet: reply lost")
	}
	if c.res != nil {
		c.res(target, res, srcEpoch)
	}
	return res, nil
}

// acTransport is a node's transport with every outgoing client wrapped.
type acTransport struct {
	aspen.Transport
	net *acNet
	src address.Address
}

func (t *acTransport) PledgeClient() pledge.TransportClient {
	return &acClient[pledge.Request, pledge.Response]{UnaryClient: t.Transport.PledgeClient(), net: t.net, src: t.src, kind: "pledge"}
}

func (t *acTransport) GossipClient() cgossip.TransportClient {
	return &acClient[cgossip.Message, cgossip.Message]{UnaryClient: t.Transport.GossipClient(), net: t.net, src: t.src, kind: "cluster_gossip"}
}

func (t *acTransport) TxClient() ikv.TxTransportClient {
	me := t.net.idOf[t.src]
	return &acClient[ikv.TxRequest, ikv.TxRequest]{UnaryClient: t.Transport.TxClient(), net: t.net, src: t.src, kind: "kv_gossip",
		req: func(dst address.Address, rq ikv.TxRequest, ep int) {
			t.net.sentBy(me, rq.Operations)
			t.net.offer(t.net.idOf[dst], ep, rq.Operations)
			t.net.note("ops %d->%d:%s", me, t.net.idOf[dst], acOps(rq.Operations))
		},
		res: func(dst address.Address, rs ikv.TxRequest, ep int) {
			t.net.sentBy(t.net.idOf[dst], rs.Operations)
			t.net.offer(me, ep, rs.Operations)
			t.net.note("ops-reply %d->%d:%s", t.net.idOf[dst], me, acOps(rs.Operations))
		}}
}

func (t *acTransport) LeaseClient() ikv.LeaseTransportClient {
	me := t.net.idOf[t.src]
	return &acClient[ikv.TxRequest, types.Nil]{UnaryClient: t.Transport.LeaseClient(), net: t.net, src: t.src, kind: "kv_lease",
		req: func(dst address.Address, rq ikv.TxRequest, _ int) {
			t.net.note("lease %d->%d:%s", me, t.net.idOf[dst], acOps(rq.Operations))
		}}
}

func (t *acTransport) FeedbackClient() ikv.FeedbackTransportClient {
	me := t.net.idOf[t.src]
	return &acClient[ikv.FeedbackMessage, types.Nil]{UnaryClient: t.Transport.FeedbackClient(), net: t.net, src: t.src, kind: "kv_feedback",
		req: func(dst address.Address, rq ikv.FeedbackMessage, _ int) {
			d := t.net.idOf[dst]
			t.net.mu.Lock()
			m := t.net.feedback[d]
			if m == nil {
				m = map[string]int{}
				t.net.feedback[d] = m
			}
			var b strings.Builder
			for _, dg := range rq.Digests {
				m[string(dg.Key)+"@"+strconv.FormatInt(int64(dg.Version), 10)]++
				fmt.Fprintf(&b, " %s@%d", dg.Key, dg.Version)
			}
			t.net.mu.Unlock()
			t.net.note("feedback %d->%d:%s", me, d, b.String())
		}}
}

// acClassifyStall names the way gossip stopped short. Every key on which the nodes still
// disagree is classified on its own: which nodes hold the newest stored version, whether
// the lagging node was ever offered it, whether the key's leaseholder or another holder
// was restarted after an acknowledged write of the key, and whether the holders had the
// documented grounds to stop propagating it (RecoveryThreshold redundant sends, i.e.
// that many feedback messages). The signature of the first key that is NOT explained by
// a recorded finding wins; otherwise the first key's.
func acClassifyStall(c acCase, net *acNet, nodes []*acNode, keySet map[string]bool, writes []acWrite, digestOf func(*acNode, string) (acDigest, bool)) string {
	keys := make([]string, 0, len(keySet))
	for k := range keySet {
		keys = append(keys, k)
	}
	sort.Strings(keys)
	net.mu.Lock()
	defer net.mu.Unlock()
	first, firstUnexplained := "", ""
	for _, key := range keys {
		var vmax int64 = -1
		vers := map[int]int64{}
		lh := 0
		for _, nd := range nodes[1:] {
			d, ok := digestOf(nd, key)
			v := int64(-1)
			if ok {
				v = d.Version
				lh = int(d.Leaseholder)
			}
			vers[nd.id] = v
			if v > vmax {
				vmax = v
			}
		}
		var laggards, holders []int
		for _, nd := range nodes[1:] {
			if vers[nd.id] < vmax {
				laggards = append(laggards, nd.id)
			} else {
				holders = append(holders, nd.id)
			}
		}
		if len(laggards) == 0 {
			continue
		}
		restartedAfterWrite := func(n int) bool {
			for _, w := range writes {
				if w.key != key {
					continue
				}
				for ei, ev := range c.Events {
					if ev.K == "restart" && ev.Node == n && ei > w.ev {
						return true
					}
				}
			}
			return false
		}
		sig, explained := "", false
		offered := false
		for _, x := range laggards {
			if net.offered[x][key] >= vmax {
				offered = true
			}
		}
		// start-up recovery pulls every operation at or above the node's high-water mark
		// from every peer: a lagging node that came back while a peer already held the
		// newest version, at or above its mark, was handed it then
		recoverable := false
		for _, x := range laggards {
			for _, nd := range nodes[1:] {
				if nd.id != x || len(nd.recov) == 0 {
					continue
				}
				r := nd.recov[len(nd.recov)-1]
				if r.peerHeld[key] >= vmax && vmax >= r.hw {
					recoverable = true
				}
			}
		}
		switch {
		case offered:
			sig = "newest-version-was-delivered-to-the-lagging-node-but-not-applied"
		case recoverable:
			sig = "start-up-recovery-did-not-deliver-an-operation-at-or-above-the-high-water-mark"
		case lh != 0 && restartedAfterWrite(lh):
			sig, explained = "leaseholder-restarted-before-its-write-was-gossiped", true
		default:
			early, restarted := false, true
			for _, h := range holders {
				if net.feedback[h][key+"@"+strconv.FormatInt(vmax, 10)] >= ikv.DefaultConfig.RecoveryThreshold {
					continue
				}
				// a holder that never put the version into a gossip message of its own
				// never propagated it (it pulled it at start-up, or had it already when it
				// was offered): it had nothing to stop
				if net.sent[h][key] < vmax {
					continue
				}
				early = true
				if !restartedAfterWrite(h) {
					restarted = false
				}
			}
			switch {
			case !early:
				sig, explained = "rumor-died-out:every-holder-received-the-recovery-threshold-of-feedback-before-any-of-them-picked-the-lagging-node", true
			case restarted:
				sig, explained = "holder-restarted-while-its-copy-was-still-infected", true
			default:
				sig = "holders-stopped-propagating-before-the-recovery-threshold-of-feedback"
			}
		}
		if first == "" {
			first = sig
		}
		if !explained && firstUnexplained == "" {
			firstUnexplained = sig
		}
	}
	switch {
	case firstUnexplained != "":
		return firstUnexplained
	case first != "":
		return first
	}
	return "after-faults-stopped"
}

type acDigest struct {
	Key         []byte
	Version     int64
	Leaseholder uint32
	Variant     uint8
}

type acNode struct {
	id     int
	addr   address.Address
	eng    xkv.DB
	db     *aspen.DB
	notes  []acNote // unfiltered subscriber
	fnotes []acNote // host-leaseholder-filtered subscriber
	mu     sync.Mutex
	maxVer map[string]int64
	// stored: key=value pairs this node was seen to hold (polled after every event)
	stored    map[string]bool
	restarted bool
	stall     chan struct{}
	// recov: one entry per restart whose Open succeeded (start-up recovery pulled from
	// every peer): the node's high-water mark when it came back, and for every key the
	// newest version some running peer held at that moment
	recov []acRecovery
	// joinedAt: index of the join event that admitted the node (0 for initial members)
	joinedAt int
}

type acRecovery struct {
	hw       int64
	peerHeld map[string]int64
}

func (nd *acNode) release() {
	if nd.stall != nil {
		close(nd.stall)
		nd.stall = nil
	}
}

type acNote struct {
	key string
	val string
	del bool
}

type acWrite struct {
	ev   int // index of the script event that issued it
	key  string
	val  string
	del  bool
	node int
	ok   bool
}

type acDetReader struct {
	mu sync.Mutex
	x  uint64
}

func (d *acDetReader) Read(p []byte) (int, error) {
	d.mu.Lock()
	defer d.mu.Unlock()
	for i := range p {
		d.x ^= d.x << 13
		d.x ^= d.x >> 7
		d.x ^= d.x << 17
		p[i] = byte(d.x >> 24)
	}
	return len(p), nil
}

func runAC(t *testing.T, c acCase, st *drv.Stats, prop string) (fail *drv.Failure) {
	// process-wide randomness the nodes reach: math/rand (gossip peer choice, pledge
	// jitter) and google/uuid (cluster key); workers run with GODEBUG=randseednop=0
	rand.Seed(c.NetSeed + 7)
	uuid.SetRand(&acDetReader{x: uint64(c.NetSeed)*2654435761 + 99})
	var virtual time.Duration
	defer func() {
		if p := recover(); p != nil {
			if fail == nil {
				fail = drv.Failf("panic", fmt.Sprint(p), "panic: %v", p)
			}
		}
		st.AddVirtual(virtual)
	}()
	synctest.Test(t, func(t *testing.T) {
		// Every goroutine of the nodes runs under the seeded scheduler (overlay-
		// instrumented lock, atomic and channel points), so that at most one goroutine
		// is runnable between two decisions and the run replays exactly; the script
		// itself is one more task. Virtual time only advances when nothing is runnable.
		sc := sim.New(sim.Config{Strategy: sim.StratSticky, SwitchInv: 3, Classes: sim.ClassAll, MaxSteps: 5_000_000, HorizonNS: int64(120 * time.Second), ShuffleMaps: c.ShuffleMaps}, sim.NewChoices(uint64(c.NetSeed)))
		if p := os.Getenv("VERIF_SCHEDLOG"); p != "" {
			sc.KeepLog = 1 << 22
			defer func() { _ = os.WriteFile(p, []byte(strings.Join(sc.Trace, "\n")), 0o644) }()
		}
		sim.Install(sc)
		defer sim.Uninstall()
		tasks := sc.NewTasks()
		tasks.Go("driver", func() error {
			runACBody(t, c, st, prop, &fail, &virtual)
			return nil
		})
		if err := sc.Run(tasks.Done); err != nil && fail == nil {
			switch e := err.(type) {
			case *sim.ErrDeadlock:
				fail = drv.Failf("deadlock", "aspen-cluster", "the cluster stopped making progress (quiescent, script unfinished, no timer helps)\n%s", e.Stacks)
			default:
				st.Inconcl("step_budget_exceeded")
			}
			sc.Abort()
		}
		st.AddSteps(sc.Steps)
		for _, e := range tasks.Errors {
			if fail == nil {
				fail = drv.Failf("panic", "driver", "%s", e)
			}
		}
	})
	return fail
}

func runACBody(t *testing.T, c acCase, st *drv.Stats, prop string, failp **drv.Failure, virtual *time.Duration) {
	var fail *drv.Failure
	defer func() { *failp = fail }()
	settle := func() { time.Sleep(time.Millisecond) }
	{
		ctx := context.Background()
		start := time.Now()
		defer func() { *virtual = time.Since(start) }()
		net := &acNet{rng: rand.New(rand.NewSource(c.NetSeed)), c: c, blocked: map[[2]string]bool{}, fired: map[string]int{}, addrOf: map[int]address.Address{},
			idOf: map[address.Address]int{}, offered: map[int]map[string]int64{}, feedback: map[int]map[string]int{}, msgs: map[string]int{}, down: map[int]bool{}, epoch: map[int]int{}, sent: map[int]map[string]int64{}}
		mnet := mock.NewNetwork()
		nodes := make([]*acNode, c.Nodes+1)
		var peers []address.Address
		openNode := func(nd *acNode, bootstrap bool) error {
			tr := &acTransport{Transport: mnet.NewTransport(), net: net, src: nd.addr}
			opts := []aspen.Option{aspen.WithEngine(nd.eng), aspen.WithTransport(tr),
				aspen.WithPropagationConfig(aspen.PropagationConfig{
					PledgeRetryInterval: 10 * time.Millisecond, PledgeRetryScale: 1, PledgeRequestTimeout: 200 * time.Millisecond,
					ClusterGossipInterval: time.Duration(c.GossipMS) * time.Millisecond, KVGossipInterval: time.Duration(c.GossipMS) * time.Millisecond})}
			if bootstrap {
				opts = append(opts, aspen.Bootstrap())
			}
			octx, cancel := context.WithTimeout(ctx, 30*time.Second)
			defer cancel()
			db, err := aspen.Open(octx, "", nd.addr, peers, opts...)
			if err != nil {
				return err
			}
			nd.db = db
			stalled := func() {
				if c.Stall == nd.id {
					// the handler never returns while the node runs; it is released
					// just before the node is closed (Close waits for handlers)
					ch := make(chan struct{})
					nd.stall = ch
					nd.db.OnChange(func(context.Context, xkv.TxReader) { <-ch })
				}
			}
			if c.StallFirst {
				stalled()
			}
			nd.db.OnChange(func(_ context.Context, r xkv.TxReader) {
				nd.mu.Lock()
				defer nd.mu.Unlock()
				for ch := range r {
					nd.notes = append(nd.notes, acNote{key: string(ch.Key), val: string(ch.Value), del: ch.Variant == change.VariantDelete})
				}
			})
			nd.db.NewObservable(aspen.IgnoreHostLeaseholder).OnChange(func(_ context.Context, r xkv.TxReader) {
				nd.mu.Lock()
				defer nd.mu.Unlock()
				for ch := range r {
					nd.fnotes = append(nd.fnotes, acNote{key: string(ch.Key), val: string(ch.Value), del: ch.Variant == change.VariantDelete})
				}
			})
			if !c.StallFirst {
				stalled()
			}
			return nil
		}
		defer func() {
			for _, nd := range nodes {
				if nd != nil && nd.db != nil {
					nd.release()
					_ = nd.db.Close()
				}
			}
			settle()
			for _, nd := range nodes {
				if nd != nil {
					_ = nd.eng.Close()
				}
			}
		}()
		// bring the cluster up without faults
		for i := 1; i <= c.Nodes; i++ {
			nd := &acNode{id: i, addr: address.Newf("localhost:%d", 10000+i), eng: memkv.New(), maxVer: map[string]int64{}, stored: map[string]bool{}}
			nodes[i] = nd
			net.addrOf[i] = nd.addr
			net.idOf[nd.addr] = i
			if err := openNode(nd, i == 1); err != nil {
				fail = drv.Failf("unexpected-error", "open", "open node %d: %v", i, err)
				return
			}
			peers = append(peers, nd.addr)
		}
		time.Sleep(simrt.UniqueDur(500 * time.Millisecond))
		net.mu.Lock()
		net.enabled = true
		net.mu.Unlock()

		digestOf := func(nd *acNode, key string) (acDigest, bool) {
			dk, _ := xkv.CompositeKey("--dig/", []byte(key))
			b, closer, err := nd.eng.Get(ctx, dk)
			if err != nil {
				return acDigest{}, false
			}
			defer func() { _ = closer.Close() }()
			var d acDigest
			if err := msgpack.Codec.Decode(ctx, b, &d); err != nil {
				return acDigest{}, false
			}
			return d, true
		}
		keySet := map[string]bool{}
		// recoverySnapshot is taken just before a stopped node is opened again
		recoverySnapshot := func(nd *acNode) acRecovery {
			r := acRecovery{peerHeld: map[string]int64{}}
			if it, err := nd.eng.OpenIterator(xkv.IterPrefix([]byte("--dig/"))); err == nil {
				for it.First(); it.Valid(); it.Next() {
					var d acDigest
					if msgpack.Codec.Decode(ctx, it.Value(), &d) == nil && d.Version > r.hw {
						r.hw = d.Version
					}
				}
				_ = it.Close()
			}
			for _, p := range nodes[1:] {
				if p == nil || p == nd || p.db == nil {
					continue
				}
				for key := range keySet {
					if d, ok := digestOf(p, key); ok && d.Version > r.peerHeld[key] {
						r.peerHeld[key] = d.Version
					}
				}
			}
			if os.Getenv("VERIF_AC_DEBUG") != "" {
				fmt.Fprintf(os.Stderr, "AC_DEBUG snapshot node %d hw=%d peerHeld=%v\n", nd.id, r.hw, r.peerHeld)
			}
			return r
		}
		var trace []string
		var netlog []string
		defer func() {
			if d := os.Getenv("VERIF_TRACEDIR"); d != "" && fail != nil {
				_ = os.WriteFile(d+"/fail.trace", []byte(strings.Join(trace, "\n")+"\n"+strings.Join(netlog, "\n")), 0o644)
			}
		}()
		net.mu.Lock()
		net.log, net.t0 = &netlog, start
		net.mu.Unlock()
		checkMonotone := func(what string) *drv.Failure {
			keysSorted := make([]string, 0, len(keySet))
			for k := range keySet {
				keysSorted = append(keysSorted, k)
			}
			sort.Strings(keysSorted)
			for _, nd := range nodes[1:] {
				for _, key := range keysSorted {
					d, ok := digestOf(nd, key)
					trace = append(trace, fmt.Sprintf("%d:%s:%d:%v", nd.id, key, d.Version, ok))
					if !ok {
						continue
					}
					if nd.db != nil {
						if b, closer, err := nd.db.Get(ctx, []byte(key)); err == nil {
							nd.stored[key+"="+string(b)] = true
							_ = closer.Close()
						}
					}
					if d.Version < nd.maxVer[key] {
						return drv.Failf("kv-regression", "version-went-back", "%s: node %d key %q stored version %d after having stored version %d", what, nd.id, key, d.Version, nd.maxVer[key])
					}
					nd.maxVer[key] = d.Version
				}
			}
			return nil
		}
		var writes []acWrite
		last := map[string]int{} // key -> index of the last successful write
		seq := 0
		for ei, ev := range c.Events {
			what := fmt.Sprintf("event %d %+v", ei, ev)
			switch ev.K {
			case "set", "del":
				nd := nodes[ev.Node]
				if nd.db == nil {
					continue
				}
				// Leases are not transferable and versions are assigned only by the
				// key's leaseholder: a node that has not yet heard of an existing key
				// would make itself a second leaseholder. A legal client therefore
				// writes through a node only once that node knows the key (bounded wait;
				// under faults the write is skipped instead).
				if keySet[ev.Key] {
					knows := false
					for wait := 0; wait < 50 && !knows; wait++ {
						if _, ok := digestOf(nd, ev.Key); ok {
							knows = true
							break
						}
						time.Sleep(simrt.UniqueDur(100 * time.Millisecond))
					}
					if !knows {
						st.Probe("write_skipped_key_unknown_at_gateway")
						continue
					}
				}
				seq++
				w := acWrite{ev: ei, key: ev.Key, val: "v" + strconv.Itoa(seq), del: ev.K == "del", node: ev.Node}
				octx, cancel := context.WithTimeout(ctx, 2*time.Second)
				var err error
				if w.del {
					err = nd.db.Delete(octx, []byte(ev.Key))
				} else {
					err = nd.db.Set(octx, []byte(ev.Key), []byte(w.val))
				}
				cancel()
				w.ok = err == nil
				writes = append(writes, w)
				keySet[ev.Key] = true
				if w.ok {
					last[ev.Key] = len(writes) - 1
					st.Probe("write_ok")
				} else {
					// a write that failed (lost on its way to the leaseholder, or timed
					// out) may or may not have been applied by the leaseholder
					st.Probe("write_failed_under_faults")
				}
			case "tx":
				nd := nodes[ev.Node]
				if nd.db == nil {
					continue
				}
				knowsAll := true
				for _, key := range ev.Keys {
					if keySet[key] {
						if _, ok := digestOf(nd, key); !ok {
							knowsAll = false
						}
					}
				}
				if !knowsAll {
					st.Probe("write_skipped_key_unknown_at_gateway")
					continue
				}
				octx, cancel := context.WithTimeout(ctx, 2*time.Second)
				tx := nd.db.OpenTx()
				var txw []acWrite
				var err error
				// a key set twice in one transaction is two operations that both carry the
				// final value (tx.toRequests reads the value back from the transaction), so
				// observers would see one value under two versions: keep the keys of a
				// transaction distinct, writes are told apart by their value here
				var distinct []string
				for _, key := range ev.Keys {
					dup := false
					for _, k2 := range distinct {
						dup = dup || k2 == key
					}
					if !dup {
						distinct = append(distinct, key)
					}
				}
				for _, key := range distinct {
					seq++
					w := acWrite{ev: ei, key: key, val: "v" + strconv.Itoa(seq), node: ev.Node}
					if err == nil {
						err = tx.Set(octx, []byte(key), []byte(w.val))
					}
					txw = append(txw, w)
				}
				if err == nil {
					err = tx.Commit(octx)
				}
				_ = tx.Close()
				cancel()
				for _, w := range txw {
					w.ok = err == nil
					writes = append(writes, w)
					keySet[w.key] = true
					if w.ok {
						last[w.key] = len(writes) - 1
					}
				}
				if err == nil {
					st.Probe("tx_ok")
				} else {
					st.Probe("write_failed_under_faults")
				}
			case "burst":
				nd := nodes[ev.Node]
				if nd.db == nil {
					continue
				}
				if keySet[ev.Key] {
					if _, ok := digestOf(nd, ev.Key); !ok {
						st.Probe("write_skipped_key_unknown_at_gateway")
						continue
					}
				}
				for n := 0; n < ev.N; n++ {
					seq++
					w := acWrite{ev: ei, key: ev.Key, val: "v" + strconv.Itoa(seq), node: ev.Node}
					octx, cancel := context.WithTimeout(ctx, 2*time.Second)
					err := nd.db.Set(octx, []byte(ev.Key), []byte(w.val))
					cancel()
					w.ok = err == nil
					writes = append(writes, w)
					keySet[ev.Key] = true
					if w.ok {
						last[ev.Key] = len(writes) - 1
					}
				}
				st.Probe("burst_of_writes")
			case "sleep":
				time.Sleep(simrt.UniqueDur(time.Duration(ev.MS) * time.Millisecond))
			case "part":
				net.mu.Lock()
				net.blocked[[2]string{string(net.addrOf[ev.A]), string(net.addrOf[ev.B])}] = true
				net.mu.Unlock()
				st.Fault("partition")
			case "heal":
				net.mu.Lock()
				net.blocked = map[[2]string]bool{}
				net.mu.Unlock()
			case "join":
				via := nodes[ev.Node]
				if via.db == nil || len(nodes) > 5 {
					continue
				}
				id := len(nodes)
				nd := &acNode{id: id, addr: address.Newf("localhost:%d", 10000+id), eng: memkv.New(), maxVer: map[string]int64{}, stored: map[string]bool{}}
				net.mu.Lock()
				net.addrOf[id] = nd.addr
				net.idOf[nd.addr] = id
				net.mu.Unlock()
				all := peers
				peers = []address.Address{via.addr}
				err := openNode(nd, false)
				peers = all
				if err != nil {
					_ = nd.eng.Close()
					st.Probe("join_failed_under_faults")
					continue
				}
				peers = append(peers, nd.addr)
				nd.joinedAt = ei
				nodes = append(nodes, nd)
				// it attached its subscribers after start-up recovery, like a restarted node
				nd.restarted = true
				st.Probe("node_joined_during_run")
				if via.restarted {
					st.Probe("node_joined_through_restarted_member")
				}
			case "restart":
				nd := nodes[ev.Node]
				if nd.db == nil {
					continue
				}
				// what is delivered to the node from now until it is back may not be
				// applied (gossip is acknowledged before the pipeline persists it)
				net.mu.Lock()
				net.down[nd.id] = true
				nd.restarted = true
				net.epoch[nd.id]++
				delete(net.offered, nd.id)
				net.mu.Unlock()
				nd.release()
				if err := nd.db.Close(); err != nil {
					fail = drv.Failf("unexpected-error", "close", "%s: close node: %v", what, err)
					return
				}
				nd.db = nil
				settle()
				time.Sleep(simrt.UniqueDur(time.Duration(c.GossipMS) * time.Millisecond))
				snap := recoverySnapshot(nd)
				lacked := false
				for key, v := range snap.peerHeld {
					if d, ok := digestOf(nd, key); v >= snap.hw && (!ok || d.Version < v) {
						lacked = true
					}
				}
				if err := openNode(nd, false); err != nil {
					// under faults the rejoin may fail to reach anyone: retried at the end
					st.Probe("restart_open_failed_under_faults")
					continue
				}
				nd.recov = append(nd.recov, snap)
				if lacked {
					st.Probe("restarted_node_lacked_an_operation_at_or_above_its_high_water_mark")
				}
				net.mu.Lock()
				net.down[nd.id] = false
				net.mu.Unlock()
				st.Fault("restart")
			}
			settle()
			if f := checkMonotone(what); f != nil {
				fail = f
				return
			}
		}
		// faults stop; partitions heal; stopped nodes come back
		net.mu.Lock()
		net.enabled = false
		net.blocked = map[[2]string]bool{}
		for k, v := range net.fired {
			st.FaultN(k, v)
		}
		net.mu.Unlock()
		for _, nd := range nodes[1:] {
			if nd.db == nil {
				snap := recoverySnapshot(nd)
				if err := openNode(nd, false); err != nil {
					fail = drv.Failf("liveness", "reopen-after-faults", "node %d cannot rejoin after faults stopped: %v", nd.id, err)
					return
				}
				nd.recov = append(nd.recov, snap)
				net.mu.Lock()
				net.down[nd.id] = false
				net.mu.Unlock()
			}
		}
		// C11 at the level of whole nodes: every node has its own key and the cluster's key
		{
			seenKey := map[aspen.NodeKey]int{}
			ck := nodes[1].db.Cluster.Key()
			for _, nd := range nodes[1:] {
				hk := nd.db.Cluster.HostKey()
				if prev, dup := seenKey[hk]; dup {
					// did a member restart between the two admissions? A juror keeps its
					// approvals in memory only: after a restart it approves the same key again
					sig := "whole-nodes"
					lo, hi := nodes[prev].joinedAt, nd.joinedAt
					if lo > hi {
						lo, hi = hi, lo
					}
					for xi, xev := range c.Events {
						if xev.K == "restart" && xi > lo && xi < hi {
							sig = "whole-nodes:member-restarted-between-the-two-admissions"
						}
					}
					fail = drv.Failf("duplicate-node-key", sig, "nodes #%d and #%d both hold node key %d (admitted by events %d and %d)", prev, nd.id, hk, nodes[prev].joinedAt, nd.joinedAt)
					return
				}
				seenKey[hk] = nd.id
				if got := nd.db.Cluster.Key(); got != ck || got.String() == "00000000-0000-0000-0000-000000000000" {
					fail = drv.Failf("wrong-cluster-key", "whole-nodes", "node #%d (key %d) holds cluster key %v, node #1 holds %v", nd.id, hk, got, ck)
					return
				}
			}
		}
		if prop == "C11" {
			// the key-value oracles belong to C06/C13
			var sh []string
			for _, ev := range c.Events {
				sh = append(sh, ev.K[:2]+strconv.Itoa(ev.Node))
			}
			st.Case(drv.Hash64(strconv.Itoa(c.Nodes), strconv.Itoa(c.DropPct), strings.Join(sh, ",")), len(nodes)-1 > c.Nodes)
			return
		}
		// bounded convergence: once faults stop every node holds the leaseholder's latest
		// write for each key within the budget
		budget := 20 * time.Second
		deadline := time.Now().Add(budget)
		converged := func() (bool, string) {
			for key := range keySet {
				var ref string
				for i, nd := range nodes[1:] {
					b, closer, err := nd.db.Get(ctx, []byte(key))
					cur := "<absent>"
					if err == nil {
						cur = string(b)
						_ = closer.Close()
					}
					if i == 0 {
						ref = cur
					} else if cur != ref {
						return false, fmt.Sprintf("key %q: node 1 holds %s, node %d holds %s", key, ref, nd.id, cur)
					}
				}
			}
			return true, ""
		}
		var why string
		ok := false
		for time.Now().Before(deadline) {
			time.Sleep(simrt.UniqueDur(100 * time.Millisecond))
			if ok, why = converged(); ok {
				break
			}
		}
		if f := checkMonotone("after convergence phase"); f != nil {
			fail = f
			return
		}
		if !ok {
			// structural signature: does some key's leaseholder (the node of the key's
			// first acknowledged write) hold a write of its own that it acknowledged
			// before it was restarted, while a peer lacks it? The restarted node's
			// in-memory gossip store no longer carries that operation and start-up
			// recovery only pulls from peers (recorded known finding).
			sig := acClassifyStall(c, net, nodes, keySet, writes, digestOf)
			for key := range keySet {
				for _, nd := range nodes[1:] {
					d, ok := digestOf(nd, key)
					b, closer, gerr := nd.db.Get(ctx, []byte(key))
					val := "<absent>"
					if gerr == nil {
						val = string(b)
						_ = closer.Close()
					}
					why += fmt.Sprintf("; node %d key %s: value %s digest(present=%v version=%d leaseholder=%d variant=%d)", nd.id, key, val, ok, d.Version, d.Leaseholder, d.Variant)
				}
			}
			for _, nd := range nodes[1:] {
				var ks []int
				for k := range nd.db.Cluster.Nodes() {
					ks = append(ks, int(k))
				}
				sort.Ints(ks)
				why += fmt.Sprintf("; node #%d (key %d) knows members %v", nd.id, nd.db.Cluster.HostKey(), ks)
			}
			fail = drv.Failf("kv-no-convergence", sig, "%v of virtual time after faults stopped and partitions healed the nodes still disagree: %s", budget, why)
			return
		}
		// the agreed value must be the latest successful write of the key, unless a later
		// failed write (outcome unknown) explains it
		for key := range keySet {
			li, had := last[key]
			b, closer, err := nodes[1].db.Get(ctx, []byte(key))
			cur, present := "", false
			if err == nil {
				cur, present = string(b), true
				_ = closer.Close()
			}
			explain := func(w acWrite) bool {
				if w.del {
					return !present
				}
				return present && cur == w.val
			}
			okv := !had && !present
			if had && explain(writes[li]) {
				okv = true
			}
			// later writes whose outcome is unknown
			start := 0
			if had {
				start = li + 1
			}
			for _, w := range writes[start:] {
				if w.key == key && !w.ok && explain(w) {
					okv = true
				}
			}
			if !okv {
				want := "<nothing>"
				if had {
					want = fmt.Sprintf("%+v", writes[li])
				}
				fail = drv.Failf("kv-wrong-final-value", "latest-write-lost", "key %q converged to %q (present=%v) but the latest acknowledged write is %s", key, cur, present, want)
				return
			}
		}
		if prop == "C13" {
			// observers: per node and key, notifications follow write order without
			// repeats, and the last one corresponds to the node's final state
			order := map[string]int{}
			for i, w := range writes {
				if !w.del {
					order[w.key+"="+w.val] = i
				}
			}
			for _, nd := range nodes[1:] {
				nd.mu.Lock()
				notes, fnotes := append([]acNote(nil), nd.notes...), append([]acNote(nil), nd.fnotes...)
				nd.mu.Unlock()
				lastIdx := map[string]int{}
				seen := map[string]bool{}
				for _, n := range notes {
					if n.del {
						continue
					}
					id := n.key + "=" + n.val
					idx, known := order[id]
					if !known {
						fail = drv.Failf("observer-unknown-value", "notified-value-never-written", "node %d observer was notified of %s which was never written", nd.id, id)
						return
					}
					if seen[id] {
						fail = drv.Failf("observer-stale-or-duplicate-notification", "same-write-twice", "node %d observer was notified of write %s twice", nd.id, id)
						return
					}
					seen[id] = true
					if li, ok := lastIdx[n.key]; ok && idx < li {
						fail = drv.Failf("observer-stale-or-duplicate-notification", "older-after-newer", "node %d observer was notified of %s after a newer write of the same key", nd.id, id)
						return
					}
					lastIdx[n.key] = idx
				}
				// filtered subscriber = unfiltered minus host-led changes: it must be a
				// subsequence of the unfiltered one
				j := 0
				for _, fn := range fnotes {
					for j < len(notes) && notes[j] != fn {
						j++
					}
					if j == len(notes) {
						fail = drv.Failf("observer-filter", "filtered-not-subset", "node %d: the host-leaseholder-filtered observer saw %+v which the unfiltered observer did not see in that order", nd.id, fn)
						return
					}
					j++
				}
			}
			// completeness and exactness on nodes that ran without interruption (a
			// restarted node applies what start-up recovery pulls before any subscriber
			// can be attached): every value the node was seen to hold was notified to the
			// subscriber that keeps up, whatever a stalled co-subscriber does, and the
			// filtered stream is exactly the unfiltered one minus the changes led by the
			// host
			time.Sleep(simrt.UniqueDur(200 * time.Millisecond))
			for _, nd := range nodes[1:] {
				if nd.restarted {
					continue
				}
				nd.mu.Lock()
				notes, fnotes := append([]acNote(nil), nd.notes...), append([]acNote(nil), nd.fnotes...)
				nd.mu.Unlock()
				have := map[string]bool{}
				for _, n := range notes {
					if !n.del {
						have[n.key+"="+n.val] = true
					}
				}
				storedKeys := make([]string, 0, len(nd.stored))
				for kv := range nd.stored {
					storedKeys = append(storedKeys, kv)
				}
				sort.Strings(storedKeys)
				for _, kv := range storedKeys {
					if !have[kv] {
						sig := "stored-change-never-notified"
						if c.Stall == nd.id {
							sig += ":next-to-stalled-subscriber"
						}
						fail = drv.Failf("observer-incomplete", sig, "node %d was seen to hold %s but its unfiltered subscriber, which keeps up, was never notified of it (%d notifications)", nd.id, kv, len(notes))
						return
					}
				}
				var want []acNote
				for _, n := range notes {
					if d, ok := digestOf(nd, n.key); ok && int(d.Leaseholder) != nd.id {
						want = append(want, n)
					}
				}
				same := len(want) == len(fnotes)
				for i := 0; same && i < len(want); i++ {
					same = want[i] == fnotes[i]
				}
				if !same {
					fail = drv.Failf("observer-filter", "filtered-not-exactly-unfiltered-minus-host-led", "node %d: the host-leaseholder-filtered subscriber saw %d changes %+v, the unfiltered one minus the changes led by the host amounts to %d %+v", nd.id, len(fnotes), fnotes, len(want), want)
					return
				}
				st.Probe("observer_completeness_checked")
			}
			st.Probe("observers_checked")
		}
		parts := []string{strconv.Itoa(c.Nodes), strconv.Itoa(c.DropPct), strconv.Itoa(c.DupPct)}
		for _, ev := range c.Events {
			parts = append(parts, ev.K[:2]+strconv.Itoa(ev.Node)+ev.Key)
		}
		sort.Strings(parts[3:3])
		for _, nd := range nodes[1:] {
			nd.mu.Lock()
			trace = append(trace, fmt.Sprintf("notes%d:%d:%d", nd.id, len(nd.notes), len(nd.fnotes)))
			nd.mu.Unlock()
		}
		for _, w := range writes {
			trace = append(trace, fmt.Sprintf("w:%s:%v", w.val, w.ok))
		}
		if d := os.Getenv("VERIF_TRACEDIR"); d != "" {
			acTraceN++
			_ = os.WriteFile(d+"/"+strconv.Itoa(acTraceN)+".trace", []byte(strings.Join(parts, ",")+"\n"+strings.Join(trace, "\n")+"\n"+strings.Join(netlog, "\n")), 0o644)
		}
		st.Case(drv.Hash64(strings.Join(parts, ","), strings.Join(trace, ";")), len(writes) >= 2)
	}
}
