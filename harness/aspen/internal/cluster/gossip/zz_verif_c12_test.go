package gossip

// Injected by /verif via `go test -overlay`; never part of the repository.
// aspen-gossip engines (C12): the real membership gossip (sync/ack/ack2 over the real
// cluster store) of 2-4 nodes wired through freighter's in-memory unary network.
//   - c12-seq: seeded sequences of pairwise exchanges (initiator, peer), heartbeat ticks,
//     host state changes, restarts from a persisted copy and exchanges that lose the ack2
//     message, from initial views that may be disjoint. After every operation every
//     node's view is compared with its previous view (no heartbeat regresses, no record
//     changes without a heartbeat advance, every record is one the member really
//     published, bystanders untouched); after the script every unordered pair exchanges
//     once (seeded order and direction) and all views must be identical and complete.
//   - c12-conc: the same operations issued by one task per node under the seeded
//     scheduler (handlers run in the initiator's goroutine, so two initiators and the
//     peer's own ticker interleave at every instrumented lock); monotonicity is sampled
//     after every step of every task.

import (
	"context"
	"fmt"
	"math/rand"
	"sort"
	"strconv"
	"strings"
	"sync"
	"testing"
	"testing/synctest"
	"time"

	"github.com/synnaxlabs/aspen/internal/cluster/store"
	"github.com/synnaxlabs/aspen/internal/node"
	"github.com/synnaxlabs/freighter"
	"github.com/synnaxlabs/freighter/mock"
	"github.com/synnaxlabs/x/address"
	"github.com/synnaxlabs/x/errors"
	"github.com/synnaxlabs/x/version"
	"pgregory.net/rapid"
	"verifsim/drv"
	"verifsim/sim"
)

func TestVerif(t *testing.T) {
	drv.Main(t,
		drv.Wrap(drv.Engine[c12Case]{Property: "C12", Name: "c12-seq", Gen: genC12Seq, Run: runC12Seq, BatchChecks: 200, Weight: 2}),
		drv.Wrap(drv.Engine[c12Case]{Property: "C12", Name: "c12-conc", Gen: genC12Conc, Run: runC12Conc, BatchChecks: 50, Weight: 2}),
	)
}

type c12Op struct {
	K string `json:"k"` // exch, tick, change, restart, lossy, once, late, deliver
	I int    `json:"i"`
	J int    `json:"j,omitempty"`
	// change: the state the member publishes for itself, plus one (1 healthy, 2 suspect,
	// 3 dead, 4 left); 0 = toggle healthy/suspect
	To int `json:"to,omitempty"`
}

type c12Case struct {
	Nodes int `json:"nodes"`
	// Knows[i] = bitmask of the members node i+1 knows at the start (always itself)
	Knows []int `json:"knows"`
	// Ghost: an extra member (key Nodes+1) that is not a running node; GhostAt = the
	// node that knows it, GhostHB its heartbeat version (0 = the zero heartbeat a
	// freshly admitted member has before its first tick)
	GhostAt int     `json:"ghost_at,omitempty"`
	GhostHB int     `json:"ghost_hb,omitempty"`
	Ops     []c12Op `json:"ops"`
	// Tasks: c12-conc only, per node the operations of its task
	Tasks    [][]c12Op `json:"tasks,omitempty"`
	Seed     int64     `json:"seed"`
	Strategy int       `json:"strategy,omitempty"`
}

func genC12Ops(t *rapid.T, n, count int, self int) []c12Op {
	var ops []c12Op
	for ; count > 0; count-- {
		i := self
		if i == 0 {
			i = rapid.IntRange(1, n).Draw(t, "i")
		}
		j := rapid.IntRange(1, n-1).Draw(t, "j")
		if j >= i {
			j++
		}
		if self == 0 {
			// the sequential engine also delays the third message of an exchange and
			// delivers it later, after other exchanges
			switch rapid.IntRange(0, 9).Draw(t, "kd") {
			case 0:
				ops = append(ops, c12Op{K: "late", I: i, J: j})
				continue
			case 1:
				ops = append(ops, c12Op{K: "deliver", I: i})
				continue
			}
		}
		switch k := rapid.IntRange(0, 11).Draw(t, "k"); {
		case k < 5:
			ops = append(ops, c12Op{K: "exch", I: i, J: j})
		case k < 7:
			ops = append(ops, c12Op{K: "tick", I: i})
		case k < 8:
			ops = append(ops, c12Op{K: "change", I: i, To: rapid.IntRange(0, 4).Draw(t, "to")})
		case k < 9:
			ops = append(ops, c12Op{K: "once", I: i})
		case k < 10:
			ops = append(ops, c12Op{K: "lossy", I: i, J: j})
		case k < 11 && self == 0:
			ops = append(ops, c12Op{K: "restart", I: i})
		default:
			ops = append(ops, c12Op{K: "exch", I: j, J: i})
		}
	}
	return ops
}

func genC12Views(t *rapid.T, c *c12Case) {
	n := c.Nodes
	c.Knows = make([]int, n)
	switch rapid.IntRange(0, 3).Draw(t, "views") {
	case 0: // everyone knows everyone
		for i := range c.Knows {
			c.Knows[i] = 1<<n - 1
		}
	case 1: // disjoint: only itself
		for i := range c.Knows {
			c.Knows[i] = 1 << i
		}
	case 2: // chain: i knows i and i-1
		for i := range c.Knows {
			c.Knows[i] = 1 << i
			if i > 0 {
				c.Knows[i] |= 1 << (i - 1)
			}
		}
	default:
		for i := range c.Knows {
			c.Knows[i] = rapid.IntRange(0, 1<<n-1).Draw(t, "mask") | 1<<i
		}
	}
	if rapid.IntRange(0, 2).Draw(t, "ghost") == 0 {
		c.GhostAt = rapid.IntRange(1, n).Draw(t, "ghost_at")
		c.GhostHB = rapid.IntRange(0, 2).Draw(t, "ghost_hb")
	}
}

func genC12Seq(t *rapid.T) c12Case {
	c := c12Case{Nodes: rapid.IntRange(2, 4).Draw(t, "nodes"), Seed: int64(rapid.Uint32().Draw(t, "seed"))}
	genC12Views(t, &c)
	c.Ops = genC12Ops(t, c.Nodes, rapid.IntRange(0, 14).Draw(t, "n"), 0)
	return c
}

func genC12Conc(t *rapid.T) c12Case {
	c := c12Case{Nodes: rapid.IntRange(2, 4).Draw(t, "nodes"), Seed: int64(rapid.Uint32().Draw(t, "seed")), Strategy: rapid.IntRange(0, 2).Draw(t, "strategy")}
	genC12Views(t, &c)
	for i := 1; i <= c.Nodes; i++ {
		c.Tasks = append(c.Tasks, genC12Ops(t, c.Nodes, rapid.IntRange(1, 5).Draw(t, "tn"), i))
	}
	return c
}

// c12Lossy wraps a node's client so that the second message of an exchange (ack2) can
// be lost.
type c12Lossy struct {
	freighter.UnaryClient[Message, Message]
	mu       sync.Mutex
	loseAck2 bool
	// holdAck2: the ack2 is kept by the network (the sender sees a timeout) and reaches
	// the peer later, when the harness delivers it
	holdAck2 bool
	held     []c12Held
}

type c12Held struct {
	target address.Address
	msg    Message
}

func (l *c12Lossy) Send(ctx context.Context, target address.Address, req Message) (Message, error) {
	l.mu.Lock()
	lose := l.loseAck2 && req.variant() == messageVariantAck2
	hold := l.holdAck2 && req.variant() == messageVariantAck2
	if hold {
		l.held = append(l.held, c12Held{target: target, msg: req})
	}
	l.mu.Unlock()
	if lose {
		return Message{}, errors.New("simnet: ack2 lost")
	}
	if hold {
		return Message{}, errors.New("simnet: ack2 timed out (delivered later)")
	}
	return l.UnaryClient.Send(ctx, target, req)
}

type c12Node struct {
	id     int
	addr   address.Address
	st     store.Store
	g      *Gossip
	client *c12Lossy
	server *mock.UnaryServer[Message, Message]
	// persisted is what a restart finds: the store is flushed when the member set or a
	// member's non-heartbeat fields change (cluster.goFlushStore), not on heartbeats
	persisted store.State
}

type c12World struct {
	ctx   context.Context
	c     c12Case
	net   *mock.Network[Message, Message]
	nodes []*c12Node // 1-based
	mu    sync.Mutex
	// truth[member][heartbeat] = the record the member published at that heartbeat
	truth map[node.Key]map[version.Heartbeat]node.Node
	// last[viewer][member] = newest record of member seen in viewer's view
	last map[int]map[node.Key]node.Node
}

func newC12World(c c12Case) (*c12World, error) {
	w := &c12World{ctx: context.Background(), c: c, net: mock.NewNetwork[Message, Message](), nodes: make([]*c12Node, c.Nodes+1),
		truth: map[node.Key]map[version.Heartbeat]node.Node{}, last: map[int]map[node.Key]node.Node{}}
	recs := map[int]node.Node{}
	for i := 1; i <= c.Nodes; i++ {
		nd := &c12Node{id: i, addr: address.Newf("localhost:%d", 20000+i)}
		w.nodes[i] = nd
		recs[i] = node.Node{Key: node.Key(i), Address: nd.addr}
		_ = w.publish(recs[i])
	}
	ghost := node.Node{}
	if c.GhostAt > 0 {
		ghost = node.Node{Key: node.Key(c.Nodes + 1), Address: address.Newf("localhost:%d", 20000+c.Nodes+1), Heartbeat: version.Heartbeat{Version: uint32(c.GhostHB)}, State: node.StateDead}
		_ = w.publish(ghost)
	}
	for i := 1; i <= c.Nodes; i++ {
		nd := w.nodes[i]
		grp := node.Group{}
		for j := 1; j <= c.Nodes; j++ {
			if c.Knows[i-1]&(1<<(j-1)) != 0 || j == i {
				grp[node.Key(j)] = recs[j]
			}
		}
		if c.GhostAt == i {
			grp[ghost.Key] = ghost
		}
		nd.st = store.New(w.ctx)
		nd.st.SetState(w.ctx, store.State{Nodes: grp, HostKey: node.Key(i)})
		nd.persisted = nd.st.CopyState()
		if err := w.open(nd); err != nil {
			return nil, err
		}
	}
	return w, nil
}

func (w *c12World) open(nd *c12Node) error {
	nd.server = w.net.UnaryServer(nd.addr)
	nd.client = &c12Lossy{UnaryClient: w.net.UnaryClient()}
	g, err := New(Config{Store: nd.st, TransportClient: nd.client, TransportServer: nd.server, Interval: time.Second})
	nd.g = g
	return err
}

func (w *c12World) publish(n node.Node) *drv.Failure {
	w.mu.Lock()
	defer w.mu.Unlock()
	m := w.truth[n.Key]
	if m == nil {
		m = map[version.Heartbeat]node.Node{}
		w.truth[n.Key] = m
	}
	if old, ok := m[n.Heartbeat]; ok && old != n {
		return drv.Failf("gossip-heartbeat-reused", "own-record", "member %d publishes %+v at a heartbeat at which it had already published %+v (its own heartbeat went back)", n.Key, n, old)
	}
	m[n.Heartbeat] = n
	return nil
}

// observe compares every node's current view with the newest records seen so far.
// only: when non-nil, nodes outside it must not have changed at all.
func (w *c12World) observe(what string, only map[int]bool) *drv.Failure {
	// the snapshot is taken without scheduler decisions and compared before the next
	// one, so concurrent observers cannot compare stale snapshots
	views := map[int]node.Group{}
	sim.Quiet(func() {
		for _, nd := range w.nodes[1:] {
			views[nd.id] = nd.st.CopyState().Nodes
		}
	})
	w.mu.Lock()
	defer w.mu.Unlock()
	for _, nd := range w.nodes[1:] {
		view := views[nd.id]
		seen := w.last[nd.id]
		if seen == nil {
			seen = map[node.Key]node.Node{}
			w.last[nd.id] = seen
		}
		keys := make([]int, 0, len(view))
		for k := range view {
			keys = append(keys, int(k))
		}
		sort.Ints(keys)
		for _, ki := range keys {
			k := node.Key(ki)
			cur := view[k]
			if tr, ok := w.truth[k][cur.Heartbeat]; !ok || tr != cur {
				return drv.Failf("gossip-fabricated-record", "record-never-published", "%s: node %d holds member %d as %+v, which member %d never published at that heartbeat", what, nd.id, k, cur, k)
			}
			prev, had := seen[k]
			if had {
				if cur.Heartbeat.YoungerThan(prev.Heartbeat) {
					who := "peer"
					if int(k) == nd.id {
						who = "own"
					}
					return drv.Failf("gossip-heartbeat-regressed", who+"-record", "%s: node %d's view of member %d went from heartbeat %+v back to %+v", what, nd.id, k, prev.Heartbeat, cur.Heartbeat)
				}
				if only != nil && !only[nd.id] && cur != prev {
					return drv.Failf("gossip-bystander-changed", "bystander", "%s: node %d took no part but its view of member %d changed from %+v to %+v", what, nd.id, k, prev, cur)
				}
			}
			seen[k] = cur
		}
		// cluster.goFlushStore persists the state whenever the member set or a
		// non-heartbeat field of a member changes
		flush := len(view) != len(nd.persisted.Nodes)
		for k, cur := range view {
			if old, ok := nd.persisted.Nodes[k]; !ok || !node.BasicallyEqual(old, cur) {
				flush = true
			}
		}
		if flush {
			nd.persisted = store.State{Nodes: view.Copy(), HostKey: node.Key(nd.id)}
		}
		for k := range seen {
			if _, ok := view[k]; !ok {
				return drv.Failf("gossip-member-forgotten", "member-dropped", "%s: node %d no longer holds member %d", what, nd.id, k)
			}
		}
	}
	return nil
}

func (w *c12World) apply(op c12Op, st *drv.Stats) *drv.Failure {
	nd := w.nodes[op.I]
	var next node.Node
	sim.Quiet(func() { next = nd.st.GetHost() })
	next.Heartbeat = next.Heartbeat.Increment()
	switch op.K {
	case "exch":
		_ = nd.g.GossipOnceWith(w.ctx, w.nodes[op.J].addr)
		st.Probe("exchange")
	case "lossy":
		nd.client.mu.Lock()
		nd.client.loseAck2 = true
		nd.client.mu.Unlock()
		if err := nd.g.GossipOnceWith(w.ctx, w.nodes[op.J].addr); err != nil {
			st.Fault("ack2_lost")
		}
		nd.client.mu.Lock()
		nd.client.loseAck2 = false
		nd.client.mu.Unlock()
	case "late":
		nd.client.mu.Lock()
		nd.client.holdAck2 = true
		nd.client.mu.Unlock()
		if err := nd.g.GossipOnceWith(w.ctx, w.nodes[op.J].addr); err != nil {
			st.Fault("ack2_delayed")
		}
		nd.client.mu.Lock()
		nd.client.holdAck2 = false
		nd.client.mu.Unlock()
	case "deliver":
		// the delayed ack2 messages of node I reach their peers now, in order
		nd.client.mu.Lock()
		held := nd.client.held
		nd.client.held = nil
		nd.client.mu.Unlock()
		for _, h := range held {
			_, _ = nd.client.UnaryClient.Send(w.ctx, h.target, h.msg)
			st.Fault("ack2_delivered_late")
		}
	case "tick":
		if f := w.publish(next); f != nil {
			return f
		}
		nd.g.incrementHostHeartbeat(w.ctx)
		st.Probe("tick")
	case "once":
		// the production step: pick a random healthy peer, tick, exchange
		if f := w.publish(next); f != nil {
			return f
		}
		_ = nd.g.GossipOnce(w.ctx)
		st.Probe("gossip_once")
	case "change":
		// a member publishes a change of its own record together with a heartbeat advance
		switch {
		case op.To > 0:
			next.State = node.State(op.To - 1)
			st.Probe("state_change_to_" + []string{"healthy", "suspect", "dead", "left"}[(op.To-1)%4])
		case next.State == node.StateHealthy:
			next.State = node.StateSuspect
		default:
			next.State = node.StateHealthy
		}
		if f := w.publish(next); f != nil {
			return f
		}
		nd.st.SetNode(w.ctx, next)
		sim.Quiet(func() { nd.persisted = nd.st.CopyState() })
		st.Probe("state_change")
	}
	return nil
}

func (w *c12World) restart(op c12Op, st *drv.Stats) error {
	nd := w.nodes[op.I]
	// cluster.Open on an existing store: load the persisted state, bump the host's
	// generation, flush
	state := store.State{Nodes: nd.persisted.Nodes.Copy(), HostKey: nd.persisted.HostKey}
	nd.st = store.New(w.ctx)
	nd.st.SetState(w.ctx, state)
	host := nd.st.GetHost()
	// the generation that was persisted is the one of the previous run
	if cur := w.lastOwn(nd.id); cur.Heartbeat.Generation > host.Heartbeat.Generation {
		host.Heartbeat.Generation = cur.Heartbeat.Generation
	}
	host.Heartbeat = host.Heartbeat.Restart()
	if f := w.publish(host); f != nil {
		return errors.New(f.Msg)
	}
	nd.st.SetNode(w.ctx, host)
	nd.persisted = nd.st.CopyState()
	// a restart legitimately loses what the node had learnt about others since the
	// last flush: its monotonicity baseline for other members starts over
	w.mu.Lock()
	w.last[nd.id] = map[node.Key]node.Node{}
	w.mu.Unlock()
	st.Fault("restart")
	return w.open(nd)
}

func (w *c12World) lastOwn(id int) node.Node {
	w.mu.Lock()
	defer w.mu.Unlock()
	return w.last[id][node.Key(id)]
}

// settle: every unordered pair exchanges once, in seeded order and direction; then all
// views must be identical and contain every member anyone knows.
func (w *c12World) settle(st *drv.Stats) *drv.Failure {
	rng := rand.New(rand.NewSource(w.c.Seed))
	var pairs [][2]int
	for i := 1; i <= w.c.Nodes; i++ {
		for j := i + 1; j <= w.c.Nodes; j++ {
			if rng.Intn(2) == 0 {
				pairs = append(pairs, [2]int{i, j})
			} else {
				pairs = append(pairs, [2]int{j, i})
			}
		}
	}
	rng.Shuffle(len(pairs), func(a, b int) { pairs[a], pairs[b] = pairs[b], pairs[a] })
	var order []string
	for _, p := range pairs {
		if err := w.nodes[p[0]].g.GossipOnceWith(w.ctx, w.nodes[p[1]].addr); err != nil {
			return drv.Failf("unexpected-error", "settle-exchange", "final exchange %d->%d failed: %v", p[0], p[1], err)
		}
		order = append(order, fmt.Sprintf("%d->%d", p[0], p[1]))
		if f := w.observe(fmt.Sprintf("final exchange %d->%d", p[0], p[1]), map[int]bool{p[0]: true, p[1]: true}); f != nil {
			return f
		}
	}
	members := map[node.Key]bool{}
	for _, nd := range w.nodes[1:] {
		for k := range nd.st.CopyState().Nodes {
			members[k] = true
		}
	}
	ref := w.nodes[1].st.CopyState().Nodes
	// every disagreement, in a fixed order (nodes, then member keys); a disagreement that
	// the recorded zero-heartbeat finding does not explain is reported before one it does
	memberKeys := make([]node.Key, 0, len(members))
	for k := range members {
		memberKeys = append(memberKeys, k)
	}
	sort.Slice(memberKeys, func(i, j int) bool { return memberKeys[i] < memberKeys[j] })
	var explained, unexplained *drv.Failure
	for _, nd := range w.nodes[1:] {
		view := nd.st.CopyState().Nodes
		for _, k := range memberKeys {
			n, ok := view[k]
			if !ok {
				zero := ""
				if r := ref[k]; r.Heartbeat == (version.Heartbeat{}) {
					zero = ":zero-heartbeat-member"
				} else {
					for _, o := range w.nodes[1:] {
						if m, ok := o.st.CopyState().Nodes[k]; ok && m.Heartbeat == (version.Heartbeat{}) {
							zero = ":zero-heartbeat-member"
						}
					}
				}
				f := drv.Failf("gossip-no-convergence", "member-missing"+zero, "after every pair exchanged gossip (%s) node %d does not know member %d", strings.Join(order, " "), nd.id, k)
				if zero != "" && explained == nil {
					explained = f
				} else if zero == "" && unexplained == nil {
					unexplained = f
				}
				continue
			}
			if r, ok := ref[k]; ok && r != n && unexplained == nil {
				unexplained = drv.Failf("gossip-no-convergence", "views-differ", "after every pair exchanged gossip (%s) node 1 holds member %d as %+v, node %d as %+v", strings.Join(order, " "), k, r, nd.id, n)
			}
		}
	}
	if unexplained != nil {
		return unexplained
	}
	if explained != nil {
		return explained
	}
	st.Probe("converged")
	return nil
}

func c12Shape(c c12Case) string {
	var b strings.Builder
	fmt.Fprintf(&b, "%d|%v|%d|%d|", c.Nodes, c.Knows, c.GhostAt, c.GhostHB)
	for _, o := range c.Ops {
		b.WriteString(o.K[:2] + strconv.Itoa(o.I) + strconv.Itoa(o.J) + ",")
	}
	for _, t := range c.Tasks {
		b.WriteString("/")
		for _, o := range t {
			b.WriteString(o.K[:2] + strconv.Itoa(o.I) + strconv.Itoa(o.J) + ",")
		}
	}
	return b.String()
}

// runC12Seq runs inside a bubble only so that the goroutines the observable store
// spawns for its notifications have all exited when the case returns (a straggler that
// reaches a lock after the next case has installed its scheduler would join that
// schedule).
func runC12Seq(t *testing.T, c c12Case, st *drv.Stats) (fail *drv.Failure) {
	synctest.Test(t, func(t *testing.T) { fail = runC12SeqBody(t, c, st) })
	return fail
}

func runC12SeqBody(t *testing.T, c c12Case, st *drv.Stats) (fail *drv.Failure) {
	rand.Seed(c.Seed + 3)
	w, err := newC12World(c)
	if err != nil {
		return drv.Failf("unexpected-error", "open", "open: %v", err)
	}
	if f := w.observe("initial", nil); f != nil {
		return f
	}
	disjoint := false
	for i, m := range c.Knows {
		if m == 1<<i {
			disjoint = true
		}
	}
	if disjoint {
		st.Probe("disjoint_initial_views")
	}
	if c.GhostAt > 0 && c.GhostHB == 0 {
		st.Probe("zero_heartbeat_member")
	}
	for oi, op := range c.Ops {
		what := fmt.Sprintf("op %d %+v", oi, op)
		var only map[int]bool
		switch op.K {
		case "restart":
			if err := w.restart(op, st); err != nil {
				return drv.Failf("unexpected-error", "reopen", "%s: %v", what, err)
			}
			only = map[int]bool{op.I: true}
		case "exch", "lossy", "late":
			if f := w.apply(op, st); f != nil {
				return f
			}
			only = map[int]bool{op.I: true, op.J: true}
		case "deliver":
			// the peers the delayed messages go to take part
			only = map[int]bool{op.I: true}
			w.nodes[op.I].client.mu.Lock()
			for _, h := range w.nodes[op.I].client.held {
				for _, nd := range w.nodes[1:] {
					if nd.addr == h.target {
						only[nd.id] = true
					}
				}
			}
			w.nodes[op.I].client.mu.Unlock()
			if f := w.apply(op, st); f != nil {
				return f
			}
		case "once":
			if f := w.apply(op, st); f != nil {
				return f
			}
		default:
			if f := w.apply(op, st); f != nil {
				return f
			}
			only = map[int]bool{op.I: true}
		}
		if f := w.observe(what, only); f != nil {
			return f
		}
	}
	if f := w.settle(st); f != nil {
		return f
	}
	st.Case(drv.Hash64(c12Shape(c)), len(c.Ops) >= 2)
	return nil
}

func runC12Conc(t *testing.T, c c12Case, st *drv.Stats) (fail *drv.Failure) {
	rand.Seed(c.Seed + 3)
	defer func() {
		if p := recover(); p != nil && fail == nil {
			fail = drv.Failf("panic", fmt.Sprint(p), "panic: %v", p)
		}
	}()
	synctest.Test(t, func(t *testing.T) {
		w, err := newC12World(c)
		if err != nil {
			fail = drv.Failf("unexpected-error", "open", "open: %v", err)
			return
		}
		if f := w.observe("initial", nil); f != nil {
			fail = f
			return
		}
		// notification goroutines spawned while the world was built must be gone before
		// the scheduler is installed, or they join the schedule depending on timing
		synctest.Wait()
		strat := []sim.Strategy{sim.StratRandom, sim.StratSticky, sim.StratPCT}[c.Strategy%3]
		sc := sim.New(sim.Config{Strategy: strat, SwitchInv: 3, PCTDepth: 3, PCTSteps: 400, Classes: sim.ClassAll, MaxSteps: 200_000, HorizonNS: int64(10 * time.Second)}, sim.NewChoices(uint64(c.Seed)))
		sim.Install(sc)
		defer sim.Uninstall()
		tasks := sc.NewTasks()
		var fmu sync.Mutex
		for ti, ops := range c.Tasks {
			ti, ops := ti, ops
			tasks.Go("node"+strconv.Itoa(ti+1), func() error {
				for oi, op := range ops {
					f := w.apply(op, st)
					if f == nil {
						f = w.observe(fmt.Sprintf("task %d op %d %+v", ti+1, oi, op), nil)
					}
					if f != nil {
						// seen while exchanges run concurrently (the sequential engine
						// judges the same invariants without this prefix)
						f.Sig = "concurrent-exchanges:" + f.Sig
						fmu.Lock()
						if fail == nil {
							fail = f
						}
						fmu.Unlock()
						return nil
					}
				}
				return nil
			})
		}
		if err := sc.Run(tasks.Done); err != nil && fail == nil {
			switch e := err.(type) {
			case *sim.ErrDeadlock:
				fail = drv.Failf("deadlock", "gossip", "gossip exchanges stopped making progress\n%s", e.Stacks)
			default:
				st.Inconcl("step_budget_exceeded")
			}
			sc.Abort()
		}
		st.AddSteps(sc.Steps)
		for _, e := range tasks.Errors {
			if fail == nil {
				fail = drv.Failf("panic", "task", "%s", e)
			}
		}
		sim.Uninstall()
		if fail == nil {
			fail = w.settle(st)
		}
		if fail == nil {
			n := 0
			for _, tk := range c.Tasks {
				n += len(tk)
			}
			st.Probe("concurrent_case")
			st.Case(drv.Hash64(c12Shape(c), strconv.FormatUint(sc.Hash(), 16)), n >= 3)
		}
	})
	return fail
}
