package pledge

// Injected by /verif via `go test -overlay`; never part of the repository.
// aspen-pledge engine (C11): the real pledge protocol (Pledge on the joining side,
// responsible.propose and juror.verdict on every member) over freighter's in-memory
// unary network inside a synctest bubble, every goroutine under the seeded scheduler.
// The simulator owns the clock (retry tickers, request timeouts, jitter), the network
// (per-request loss, delay, late delivery after the caller gave up), the membership views
// every member reports through Config.Candidates (stale by construction: admitted members
// become known to the others one by one at seeded times) and the interleaving of k
// concurrent pledges through different members. Oracles: no two admissions share a key and
// no admission reuses a member's key; a key is handed out only after a majority quorum of
// the coordinator's view approved that key; the response carries the cluster key; every
// pledge completes within a bound once faults stop.

import (
	"context"
	"fmt"
	"math/rand"
	"os"
	"sort"
	"strconv"
	"strings"
	"sync"
	"testing"
	"testing/synctest"
	"time"

	"github.com/google/uuid"
	"github.com/synnaxlabs/aspen/internal/node"
	"github.com/synnaxlabs/freighter"
	"github.com/synnaxlabs/freighter/mock"
	"github.com/synnaxlabs/x/address"
	"github.com/synnaxlabs/x/errors"
	"pgregory.net/rapid"
	"verifsim/drv"
	"verifsim/sim"
	"verifsim/simrt"
)

var c11LogN int

func TestVerif(t *testing.T) {
	drv.Main(t,
		drv.Wrap(drv.Engine[c11Case]{Property: "C11", Name: "c11", Gen: genC11, Run: runC11, BatchChecks: 20, GCEvery: 8}),
	)
}

type c11Pledge struct {
	Peers   []int `json:"peers"` // ordinals of initial members to contact, in order
	StartMS int   `json:"start_ms"`
}

type c11Learn struct {
	AtMS   int `json:"at_ms"`
	Node   int `json:"node"`   // ordinal (mod the number of running nodes at that time)
	Member int `json:"member"` // ordinal (mod the number of running nodes at that time)
}

type c11Case struct {
	Members int `json:"members"`
	// Knows[i]: bitmask of the initial members that initial member i+1 knows (itself always)
	Knows   []int       `json:"knows"`
	Pledges []c11Pledge `json:"pledges"`
	Learn   []c11Learn  `json:"learn"`
	// PeerLearns: whether the member a pledge joined through learns of it at once
	PeerLearns   bool  `json:"peer_learns"`
	DropPct      int   `json:"drop_pct"`
	LatePct      int   `json:"late_pct"`
	DelayMS      int   `json:"delay_ms"`
	FaultUntilMS int   `json:"fault_until_ms"`
	Seed         int64 `json:"seed"`
	Strategy     int   `json:"strategy"`
}

func genC11(t *rapid.T) c11Case {
	c := c11Case{Members: rapid.IntRange(1, 4).Draw(t, "members"), Seed: int64(rapid.Uint32().Draw(t, "seed")), Strategy: rapid.IntRange(0, 2).Draw(t, "strategy"),
		PeerLearns: rapid.Bool().Draw(t, "peer_learns")}
	stale := rapid.IntRange(0, 2).Draw(t, "stale")
	for i := 0; i < c.Members; i++ {
		// The members present at the start know each other (a settled cluster): a member
		// that did not know an older one while no juror remembers having approved its
		// key is a state no history of this protocol produces. Staleness comes from the
		// admissions of the run itself.
		m := 1<<c.Members - 1
		c.Knows = append(c.Knows, m|1<<i)
	}
	for k := rapid.IntRange(1, 4).Draw(t, "pledges"); k > 0; k-- {
		p := c11Pledge{StartMS: rapid.SampledFrom([]int{0, 0, 0, 1, 5, 30, 100}).Draw(t, "start")}
		for j := rapid.IntRange(1, 3).Draw(t, "npeers"); j > 0; j-- {
			p.Peers = append(p.Peers, rapid.IntRange(1, c.Members).Draw(t, "peer"))
		}
		c.Pledges = append(c.Pledges, p)
	}
	if stale > 0 {
		for k := rapid.IntRange(0, 10).Draw(t, "learns"); k > 0; k-- {
			c.Learn = append(c.Learn, c11Learn{AtMS: rapid.IntRange(0, 400).Draw(t, "at"), Node: rapid.IntRange(0, 7).Draw(t, "ln"), Member: rapid.IntRange(0, 7).Draw(t, "lm")})
		}
		sort.Slice(c.Learn, func(i, j int) bool { return c.Learn[i].AtMS < c.Learn[j].AtMS })
	}
	if rapid.IntRange(0, 2).Draw(t, "faulty") == 0 {
		c.DropPct = rapid.SampledFrom([]int{0, 10, 30}).Draw(t, "drop")
		c.LatePct = rapid.SampledFrom([]int{0, 10, 30}).Draw(t, "late")
		c.DelayMS = rapid.SampledFrom([]int{0, 5, 40, 80}).Draw(t, "delay")
		c.FaultUntilMS = rapid.SampledFrom([]int{50, 200, 400}).Draw(t, "until")
	}
	return c
}

// c11Node is one running node: an initial member or an admitted pledge.
type c11Node struct {
	ord  int
	key  node.Key
	addr address.Address
	view map[node.Key]address.Address
	// via: ordinal of the member the pledge joined through (0 for initial members)
	via int
}

type c11Admission struct {
	pledge    int
	key       node.Key
	via       int // ordinal of the coordinator
	viaView   int // size of the coordinator's view when the request reached it
	at        time.Duration
	approvers []int
	// view: the coordinator's view (member keys) when the admission was recorded
	view string
}

type c11World struct {
	mu      sync.Mutex
	c       c11Case
	t0      time.Time
	rng     *rand.Rand
	net     *mock.Network[Request, Response]
	cluster uuid.UUID
	nodes   []*c11Node // by ordinal-1
	byAddr  map[address.Address]*c11Node
	// approvals[coordinator ordinal][key] = ordinals of the jurors that approved
	approvals map[int]map[node.Key]map[int]bool
	// jurorApproved[juror][key] = how many proposals of that key the juror approved (a
	// juror approves a key at most once; approvals are recorded per coordinator and key,
	// so two rounds of ONE coordinator for one key pool their approvers)
	jurorApproved map[int]map[node.Key]int
	// reqView[coordinator ordinal] = view sizes when a pledge request (Key 0) arrived
	admitted []c11Admission
	fired    map[string]int
	log      []string
	late     sync.WaitGroup // requests still on their way after their caller gave up
}

func (w *c11World) now() time.Duration { return time.Since(w.t0) }

func (w *c11World) faulty() bool {
	return w.now() < time.Duration(w.c.FaultUntilMS)*time.Millisecond
}

func (w *c11World) candidates(n *c11Node) func() node.Group {
	return func() node.Group {
		w.mu.Lock()
		defer w.mu.Unlock()
		g := node.Group{}
		for k, a := range n.view {
			g[k] = node.Node{Key: k, Address: a}
		}
		return g
	}
}

// c11Client wraps the client of one node (member or pledge).
type c11Client struct {
	freighter.UnaryClient[Request, Response]
	w   *c11World
	src *c11Node // nil for a pledge that has not been admitted yet
	// lastOK: address of the last peer that answered a pledge request successfully
	lastOK address.Address
}

func (cl *c11Client) Send(ctx context.Context, target address.Address, req Request) (Response, error) {
	w := cl.w
	var drop, late bool
	var delay time.Duration
	w.mu.Lock()
	if w.faulty() {
		drop = w.rng.Intn(100) < w.c.DropPct
		late = !drop && w.rng.Intn(100) < w.c.LatePct
		if w.c.DelayMS > 0 {
			delay = time.Duration(w.rng.Intn(w.c.DelayMS*1000)) * time.Microsecond
		}
	}
	switch {
	case drop:
		w.fired["request_lost"]++
	case late:
		w.fired["delivered_after_caller_gave_up"]++
	}
	if delay > 0 {
		w.fired["delay"]++
	}
	w.mu.Unlock()
	if drop {
		return Response{}, errors.New("simnet: request lost")
	}
	if late {
		// the request reaches the peer only after the caller has stopped waiting; the
		// peer handles it with a context of its own, as a real server would
		w.late.Add(1)
		go func() {
			defer w.late.Done()
			time.Sleep(simrt.UniqueDur(delay + 60*time.Millisecond))
			res, err := cl.UnaryClient.Send(context.Background(), target, req)
			cl.record(target, req, res, err, true)
		}()
		<-ctx.Done()
		return Response{}, ctx.Err()
	}
	if delay > 0 {
		select {
		case <-time.After(simrt.UniqueDur(delay)):
		case <-ctx.Done():
			return Response{}, ctx.Err()
		}
	}
	if os.Getenv("VERIF_SCHEDLOG") != "" {
		dl, _ := ctx.Deadline()
		w.mu.Lock()
		w.log = append(w.log, fmt.Sprintf("t=%v SEND key=%d deadline=%v ctxerr=%v", w.now(), req.Key, dl.Sub(w.t0), ctx.Err()))
		w.mu.Unlock()
	}
	res, err := cl.UnaryClient.Send(ctx, target, req)
	cl.record(target, req, res, err, false)
	return res, err
}

func (cl *c11Client) record(target address.Address, req Request, res Response, err error, late bool) {
	w := cl.w
	w.mu.Lock()
	defer w.mu.Unlock()
	dst := w.byAddr[target]
	src := 0
	if cl.src != nil {
		src = cl.src.ord
	}
	w.log = append(w.log, fmt.Sprintf("t=%v %d->%d key=%d late=%v err=%v reskey=%d", w.now(), src, dst.ord, req.Key, late, err != nil, res.Key))
	if req.Key != 0 && err == nil && cl.src != nil {
		m := w.approvals[cl.src.ord]
		if m == nil {
			m = map[node.Key]map[int]bool{}
			w.approvals[cl.src.ord] = m
		}
		if m[req.Key] == nil {
			m[req.Key] = map[int]bool{}
		}
		m[req.Key][dst.ord] = true
		if w.jurorApproved == nil {
			w.jurorApproved = map[int]map[node.Key]int{}
		}
		if w.jurorApproved[dst.ord] == nil {
			w.jurorApproved[dst.ord] = map[node.Key]int{}
		}
		w.jurorApproved[dst.ord][req.Key]++
	}
	if req.Key == 0 && err == nil && !late {
		cl.lastOK = target
	}
}

func (w *c11World) addNode(key node.Key, via int) *c11Node {
	n := &c11Node{ord: len(w.nodes) + 1, key: key, via: via, view: map[node.Key]address.Address{}}
	n.addr = address.Newf("localhost:%d", 30000+n.ord)
	n.view[key] = n.addr
	w.nodes = append(w.nodes, n)
	w.byAddr[n.addr] = n
	return n
}

func runC11(t *testing.T, c c11Case, st *drv.Stats) (fail *drv.Failure) {
	rand.Seed(c.Seed + 11)
	defer func() {
		if p := recover(); p != nil && fail == nil {
			fail = drv.Failf("panic", fmt.Sprint(p), "panic: %v", p)
		}
	}()
	var virtual time.Duration
	synctest.Test(t, func(t *testing.T) {
		w := &c11World{c: c, t0: time.Now(), rng: rand.New(rand.NewSource(c.Seed)), net: mock.NewNetwork[Request, Response](),
			cluster: uuid.MustParse("11111111-2222-3333-4444-555555555555"), byAddr: map[address.Address]*c11Node{}, approvals: map[int]map[node.Key]map[int]bool{}, fired: map[string]int{}}
		base := Config{RequestTimeout: 50 * time.Millisecond, RetryInterval: 10 * time.Millisecond, RetryScale: 1.125, MaxProposals: 10, ClusterKey: w.cluster}
		// initial members with their (possibly incomplete) views
		for i := 1; i <= c.Members; i++ {
			w.addNode(node.Key(i), 0)
		}
		for i, n := range w.nodes {
			for j, m := range w.nodes {
				if c.Knows[i]&(1<<j) != 0 {
					n.view[m.key] = m.addr
				}
			}
			cfg := base
			cfg.Candidates = w.candidates(n)
			cfg.TransportServer = w.net.UnaryServer(n.addr)
			cfg.TransportClient = &c11Client{UnaryClient: w.net.UnaryClient(), w: w, src: n}
			if err := Arbitrate(cfg); err != nil {
				fail = drv.Failf("unexpected-error", "arbitrate", "arbitrate member %d: %v", i+1, err)
				return
			}
		}
		strat := []sim.Strategy{sim.StratRandom, sim.StratSticky, sim.StratPCT}[c.Strategy%3]
		sc := sim.New(sim.Config{Strategy: strat, SwitchInv: 3, PCTDepth: 3, PCTSteps: 2000, Classes: sim.ClassAll, MaxSteps: 2_000_000, HorizonNS: int64(60 * time.Second), TickNS: 1, QuantumNS: 1_000_003}, sim.NewChoices(uint64(c.Seed)))
		if p := os.Getenv("VERIF_SCHEDLOG"); p != "" {
			sc.KeepLog = 1 << 22
			c11LogN++
			n := c11LogN
			defer func() { _ = os.WriteFile(p+"."+strconv.Itoa(n), []byte(strings.Join(sc.Trace, "\n")), 0o644) }()
		}
		sim.Install(sc)
		defer sim.Uninstall()
		tasks := sc.NewTasks()
		type outcome struct {
			res  Response
			err  error
			node *c11Node
			took time.Duration
		}
		outcomes := make([]outcome, len(c.Pledges))
		for pi, p := range c.Pledges {
			pi, p := pi, p
			tasks.Go("pledge"+strconv.Itoa(pi), func() error {
				if p.StartMS > 0 {
					time.Sleep(simrt.UniqueDur(time.Duration(p.StartMS) * time.Millisecond))
				}
				// the joining node: its own server address is fixed before it has a key
				w.mu.Lock()
				self := &c11Node{ord: -1 - pi, view: map[node.Key]address.Address{}}
				self.addr = address.Newf("localhost:%d", 31000+pi)
				w.mu.Unlock()
				cl := &c11Client{UnaryClient: w.net.UnaryClient(), w: w}
				cfg := base
				cfg.Candidates = w.candidates(self)
				cfg.TransportServer = w.net.UnaryServer(self.addr)
				cfg.TransportClient = cl
				for _, ord := range p.Peers {
					cfg.Peers = append(cfg.Peers, w.nodes[ord-1].addr)
				}
				ctx, cancel := context.WithTimeout(context.Background(), simrt.UniqueDur(time.Duration(c.FaultUntilMS)*time.Millisecond+8*time.Second))
				start := time.Now()
				res, err := Pledge(ctx, cfg)
				cancel()
				outcomes[pi] = outcome{res: res, err: err, took: time.Since(start)}
				if err != nil {
					return nil
				}
				w.mu.Lock()
				via := w.byAddr[cl.lastOK]
				self.ord = len(w.nodes) + 1
				self.key = res.Key
				self.via = via.ord
				// the new node builds its first view from the member it joined through
				for k, a := range via.view {
					self.view[k] = a
				}
				self.view[res.Key] = self.addr
				w.nodes = append(w.nodes, self)
				w.byAddr[self.addr] = self
				cl.src = self
				if c.PeerLearns {
					via.view[res.Key] = self.addr
				}
				adm := c11Admission{pledge: pi, key: res.Key, via: via.ord, at: w.now()}
				{
					ks := make([]int, 0, len(via.view))
					for k := range via.view {
						if k != res.Key {
							ks = append(ks, int(k))
						}
					}
					sort.Ints(ks)
					adm.view = fmt.Sprint(ks)
				}
				for j := range w.approvals[via.ord][res.Key] {
					adm.approvers = append(adm.approvers, j)
				}
				sort.Ints(adm.approvers)
				w.admitted = append(w.admitted, adm)
				outcomes[pi].node = self
				w.mu.Unlock()
				return nil
			})
		}
		if len(c.Learn) > 0 {
			tasks.Go("gossip", func() error {
				for _, l := range c.Learn {
					if d := time.Duration(l.AtMS)*time.Millisecond - w.now(); d > 0 {
						time.Sleep(simrt.UniqueDur(d))
					}
					w.mu.Lock()
					n, m := w.nodes[l.Node%len(w.nodes)], w.nodes[l.Member%len(w.nodes)]
					n.view[m.key] = m.addr
					w.mu.Unlock()
				}
				return nil
			})
		}
		err := sc.Run(tasks.Done)
		virtual = w.now()
		st.AddSteps(sc.Steps)
		for cl, n := range sc.ByClass {
			st.ProbeN("yield_"+cl.String(), n)
		}
		for k, v := range w.fired {
			st.FaultN(k, v)
		}
		if err != nil {
			switch e := err.(type) {
			case *sim.ErrDeadlock:
				fail = drv.Failf("deadlock", "pledge", "pledging stopped making progress\n%s", e.Stacks)
			default:
				st.Inconcl("step_budget_exceeded")
			}
			sc.Abort()
			w.late.Wait()
			return
		}
		for _, e := range tasks.Errors {
			fail = drv.Failf("panic", "task", "%s", e)
			return
		}
		sim.Uninstall()
		w.late.Wait()
		if os.Getenv("VERIF_DEBUG") != "" {
			fmt.Println("DEBUG unordered map ranges so far:", simrt.Unordered)
		}
		if p := os.Getenv("VERIF_SCHEDLOG"); p != "" {
			_ = os.WriteFile(p+"."+strconv.Itoa(c11LogN)+".msgs", []byte(strings.Join(w.log, "\n")), 0o644)
		}
		// ---- oracles ----------------------------------------------------------------
		views := func() string {
			var b strings.Builder
			for _, n := range w.nodes {
				ks := make([]int, 0, len(n.view))
				for k := range n.view {
					ks = append(ks, int(k))
				}
				sort.Ints(ks)
				fmt.Fprintf(&b, " node#%d(key %d via #%d) knows %v;", n.ord, n.key, n.via, ks)
			}
			return b.String()
		}
		seen := map[node.Key]int{}
		for i := 1; i <= c.Members; i++ {
			seen[node.Key(i)] = -1
		}
		for _, a := range w.admitted {
			if prev, dup := seen[a.key]; dup {
				who := "an initial member"
				sig := "reuses-member-key"
				if prev >= 0 {
					who = "pledge " + strconv.Itoa(prev)
					sig = "two-admissions"
				}
				// structural signature: did the two coordinators' quorums for this key
				// have a juror in common?
				common := "n/a"
				if prev >= 0 {
					common = "disjoint-quorums"
					for _, b := range w.admitted {
						if b.pledge == prev {
							if b.view == a.view {
								common = "disjoint-quorums-of-one-view"
							} else {
								common = "disjoint-quorums:coordinators-views-differ"
							}
							// the two quorums share a juror exactly when some juror approved
							// this key twice
							for _, keys := range w.jurorApproved {
								if keys[a.key] > 1 {
									common = "shared-juror"
								}
							}
						}
					}
				}
				fail = drv.Failf("duplicate-node-key", sig+":"+common, "pledge %d was admitted with key %d, which %s already holds (admissions %+v; views:%s)\n%s", a.pledge, a.key, who, w.admitted, views(), strings.Join(w.log, "\n"))
				return
			}
			seen[a.key] = a.pledge
		}
		for _, a := range w.admitted {
			if outcomes[a.pledge].res.ClusterKey != w.cluster {
				fail = drv.Failf("wrong-cluster-key", "response", "pledge %d received cluster key %v, the cluster's key is %v", a.pledge, outcomes[a.pledge].res.ClusterKey, w.cluster)
				return
			}
			// every member of a majority quorum of the coordinator's view approved this
			// key; the view only grows, so its size when the admission was recorded
			// bounds the quorum size from above and the initial knowledge from below
			via := w.nodes[a.via-1]
			known := 0
			for _, ord := range a.approvers {
				if _, ok := via.view[w.nodes[ord-1].key]; ok {
					known++
				}
			}
			minView := 1
			if a.via <= c.Members {
				minView = 0
				for j := 0; j < c.Members; j++ {
					if c.Knows[a.via-1]&(1<<j) != 0 {
						minView++
					}
				}
			}
			if known < minView/2+1 {
				fail = drv.Failf("admitted-without-quorum", "approvals-below-majority", "pledge %d was given key %d by node #%d, whose view never had fewer than %d members, after only %d of them approved that key (approvers %v)", a.pledge, a.key, a.via, minView, known, a.approvers)
				return
			}
		}
		// The statement makes no progress claim, so a pledge that is still not admitted
		// when its context expires is counted, not reported (observed cause: every key
		// in [highest known + 1, + MaxProposals] has been approved by some juror during
		// earlier, failed rounds, and each new request starts from the same key again).
		for _, o := range outcomes {
			if o.err != nil {
				st.Probe("pledge_not_admitted_within_budget")
			}
		}
		if len(w.admitted) >= 2 {
			st.Probe("concurrent_admissions")
		}
		stale := false
		for _, n := range w.nodes {
			if len(n.view) < len(w.nodes) {
				stale = true
			}
		}
		if stale {
			st.Probe("stale_view_at_end")
		}
		retried := 0
		for _, m := range w.approvals {
			if len(m) > 1 {
				retried++
			}
		}
		if retried > 0 {
			st.Probe("proposal_retried_with_higher_key")
		}
		st.Probe("pledges_admitted")
		var shape strings.Builder
		fmt.Fprintf(&shape, "%d|%v|%v|%d|%d|%d", c.Members, c.Knows, c.PeerLearns, c.DropPct, c.LatePct, c.DelayMS)
		for _, p := range c.Pledges {
			fmt.Fprintf(&shape, "|%v@%d", p.Peers, p.StartMS)
		}
		st.Case(drv.Hash64(shape.String(), strconv.FormatUint(sc.Hash(), 16)), len(c.Pledges) >= 2)
		if os.Getenv("VERIF_DEBUG") != "" {
			time.Sleep(10 * time.Second)
			synctest.Wait()
			fmt.Println("DEBUG STACKS AT END\n" + sim.AllStacks())
		}
	})
	st.AddVirtual(virtual)
	return fail
}

func tailLines(l []string, n int) string {
	if len(l) > n {
		l = l[len(l)-n:]
	}
	return strings.Join(l, "\n")
}
