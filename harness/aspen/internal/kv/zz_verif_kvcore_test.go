package kv

// Injected by /verif via `go test -overlay`; never part of the repository.
// aspen-kvcore engine (C06, C13): the real ingress segment (filterPersist with
// supersedes), the real version assigner and persist segment are driven in-package, one
// set per simulated node over its own in-memory engine; the simulator decides which
// operations are created where and in which order, batching and duplication they are
// delivered to every node. Oracles: last-writer-wins reference (higher version, then
// higher leaseholder), per-key monotonicity after every delivery, strong eventual
// consistency (same set => same state), and for C13 the accepted-operations output of
// the ingress segment (what observers are notified of) equals exactly the deliveries
// that changed the stored state, each (key, version) at most once.

import (
	"context"
	"fmt"
	"sort"
	"strconv"
	"strings"
	"testing"

	"github.com/synnaxlabs/aspen/internal/node"
	"github.com/synnaxlabs/x/address"
	"github.com/synnaxlabs/x/change"
	"github.com/synnaxlabs/x/errors"
	xkv "github.com/synnaxlabs/x/kv"
	"github.com/synnaxlabs/x/kv/memkv"
	"github.com/synnaxlabs/x/query"
	"github.com/synnaxlabs/x/version"
	"pgregory.net/rapid"
	"verifsim/drv"
)

func TestVerif(t *testing.T) {
	drv.Main(t,
		drv.Wrap(drv.Engine[kcCase]{Property: "C06", Name: "kvcore", Gen: genKC, Run: func(t *testing.T, c kcCase, st *drv.Stats) *drv.Failure { return runKC(t, c, st, "C06") }, BatchChecks: 200}),
		drv.Wrap(drv.Engine[kcCase]{Property: "C13", Name: "kvcore", Gen: genKC, Run: func(t *testing.T, c kcCase, st *drv.Stats) *drv.Failure { return runKC(t, c, st, "C13") }, BatchChecks: 200}),
	)
}

// kcEvent kinds: "local" (a set/delete issued at the key's leaseholder: real version
// assigner + persist), "inject" (an operation with an explicit version and leaseholder
// enters the system, adversarial mode), "deliver" (a batch of already created operations
// reaches a node's ingress segment).
type kcEvent struct {
	K     string `json:"k"`
	Node  int    `json:"node"`
	Key   string `json:"key,omitempty"`
	Del   bool   `json:"del,omitempty"`
	Ver   int64  `json:"ver,omitempty"`
	Lease int    `json:"lease,omitempty"`
	Batch []int  `json:"batch,omitempty"` // indices into the list of operations created so far
	// More: further keys (same leaseholder) set in the same local transaction
	More []string `json:"more,omitempty"`
}

type kcCase struct {
	Nodes  int       `json:"nodes"`
	Events []kcEvent `json:"events"`
	// Final: after the script every node is delivered every operation it has not seen yet
	// (the "same set of operations" premise), in this per-node order seed
	FinalSeed uint64 `json:"final_seed"`
}

func genKC(t *rapid.T) kcCase {
	c := kcCase{Nodes: rapid.IntRange(2, 4).Draw(t, "nodes"), FinalSeed: rapid.Uint64().Draw(t, "final")}
	keys := []string{"a", "b", "c", "ab"}[:rapid.IntRange(1, 4).Draw(t, "nkeys")]
	adversarial := rapid.IntRange(0, 2).Draw(t, "adversarial") == 0
	nops := 0
	n := rapid.IntRange(2, 40).Draw(t, "n")
	for i := 0; i < n; i++ {
		switch k := rapid.IntRange(0, 9).Draw(t, "k"); {
		case k < 3 || nops == 0:
			key := keys[rapid.IntRange(0, len(keys)-1).Draw(t, "key")]
			if adversarial {
				// adversarial cases consist of injected operations only, so that no
				// locally assigned version can coincide with an injected one
				c.Events = append(c.Events, kcEvent{K: "inject", Key: key, Del: rapid.IntRange(0, 3).Draw(t, "del") == 0,
					Ver: int64(rapid.IntRange(1, 5).Draw(t, "ver")), Lease: rapid.IntRange(1, c.Nodes).Draw(t, "lease")})
			} else {
				// the key's leaseholder is fixed (leases are not transferable)
				lease := 1 + int(key[0]-'a'+byte(len(key)))%c.Nodes
				ev := kcEvent{K: "local", Node: lease, Key: key, Del: rapid.IntRange(0, 3).Draw(t, "del") == 0}
				if rapid.IntRange(0, 2).Draw(t, "multi") == 0 {
					// a transaction with several operations for this leaseholder
					var same []string
					for _, k2 := range keys {
						if 1+int(k2[0]-'a'+byte(len(k2)))%c.Nodes == lease {
							same = append(same, k2)
						}
					}
					for j := rapid.IntRange(1, 3).Draw(t, "nmore"); j > 0; j-- {
						ev.More = append(ev.More, same[rapid.IntRange(0, len(same)-1).Draw(t, "mkey")])
					}
				}
				c.Events = append(c.Events, ev)
				nops += len(ev.More)
			}
			nops++
		default:
			var batch []int
			for j := rapid.IntRange(1, 4).Draw(t, "bsz"); j > 0; j-- {
				batch = append(batch, rapid.IntRange(0, nops-1).Draw(t, "op"))
			}
			c.Events = append(c.Events, kcEvent{K: "deliver", Node: rapid.IntRange(1, c.Nodes).Draw(t, "to"), Batch: batch})
		}
	}
	return c
}

type kcNode struct {
	eng xkv.DB
	fp  *filterPersist
	va  *versionAssigner
	ps  *persist
	// observed
	seen       map[int]bool        // ops delivered or created here
	notified   map[string]int      // key|ver|lease -> times accepted (C13)
	lastDig    map[string][2]int64 // key -> (ver, lease) after the previous step
	lastIssued int64               // highest version this node's assigner has issued
}

type kcOp struct {
	op  Operation
	val string
}

func digOf(ctx context.Context, eng xkv.DB, key string) (ver int64, lease int64, variant change.Variant, ok bool, err error) {
	d, err := getDigestFromKV(ctx, eng, []byte(key))
	if err != nil {
		if errors.Is(err, query.ErrNotFound) {
			return 0, 0, 0, false, nil
		}
		return 0, 0, 0, false, err
	}
	return int64(d.Version), int64(d.Leaseholder), d.Variant, true, nil
}

func better(av, al, bv, bl int64) bool { return av > bv || (av == bv && al > bl) }

func runKC(t *testing.T, c kcCase, st *drv.Stats, prop string) (fail *drv.Failure) {
	ctx := context.Background()
	nodes := make([]*kcNode, c.Nodes+1)
	defer func() {
		for _, n := range nodes {
			if n != nil {
				_ = n.eng.Close()
			}
		}
	}()
	for i := 1; i <= c.Nodes; i++ {
		eng := memkv.New()
		cfg := Config{Engine: eng}
		vaSeg, err := newVersionAssigner(ctx, cfg)
		if err != nil {
			return drv.Failf("harness", "va", "%v", err)
		}
		nodes[i] = &kcNode{eng: eng, fp: newFilterPersist(cfg, "accepted", "rejected").(*filterPersist), va: vaSeg.(*versionAssigner),
			ps: newPersist(eng).(*persist), seen: map[int]bool{}, notified: map[string]int{}, lastDig: map[string][2]int64{}}
	}
	var ops []kcOp
	keysSeen := map[string]bool{}
	dups, stale, ties := 0, 0, 0
	opID := func(o Operation) string {
		return string(o.Key) + "|" + strconv.FormatInt(int64(o.Version), 10) + "|" + strconv.FormatInt(int64(o.Leaseholder), 10)
	}
	// monotonic: the stored (version, leaseholder) of every key never decreases
	checkMonotone := func(n int, what string) *drv.Failure {
		nd := nodes[n]
		for key := range keysSeen {
			v, l, _, ok, err := digOf(ctx, nd.eng, key)
			if err != nil {
				return drv.Failf("unexpected-error", "digest", "%s: %v", what, err)
			}
			prev, had := nd.lastDig[key]
			if had && (!ok || better(prev[0], prev[1], v, l)) {
				return drv.Failf("kv-regression", "digest-went-back", "%s: node %d key %q stored (version %d, leaseholder %d) after having stored (version %d, leaseholder %d): an applied operation was replaced by an older one", what, n, key, v, l, prev[0], prev[1])
			}
			if ok {
				nd.lastDig[key] = [2]int64{v, l}
			}
		}
		return nil
	}
	deliver := func(n int, batch []int, what string) *drv.Failure {
		nd := nodes[n]
		req := TxRequest{Context: ctx, Sender: node.Key(99)}
		// what the ingress must accept: walk the batch against the stored digests
		type dg struct {
			v, l int64
			ok   bool
		}
		cur := map[string]dg{}
		var wantAccepted []string
		for _, idx := range batch {
			o := ops[idx].op
			req.Operations = append(req.Operations, o)
			key := string(o.Key)
			d, have := cur[key]
			if !have {
				v, l, _, ok, err := digOf(ctx, nd.eng, key)
				if err != nil {
					return drv.Failf("unexpected-error", "digest", "%s: %v", what, err)
				}
				d = dg{v, l, ok}
			}
			if nd.seen[idx] {
				dups++
			}
			if !d.ok || better(int64(o.Version), int64(o.Leaseholder), d.v, d.l) {
				wantAccepted = append(wantAccepted, opID(o))
				cur[key] = dg{int64(o.Version), int64(o.Leaseholder), true}
			} else {
				if d.ok && int64(o.Version) == d.v && int64(o.Leaseholder) != d.l {
					ties++
				}
				stale++
				cur[key] = d
			}
			nd.seen[idx] = true
		}
		out := map[address.Address]TxRequest{}
		if err := nd.fp._switch(ctx, req, out); err != nil {
			return drv.Failf("unexpected-error", "ingress", "%s: %v", what, err)
		}
		var gotAccepted []string
		for _, o := range out["accepted"].Operations {
			gotAccepted = append(gotAccepted, opID(o))
		}
		if prop == "C13" {
			if strings.Join(gotAccepted, ",") != strings.Join(wantAccepted, ",") {
				cls := "missing-notification"
				if len(gotAccepted) > len(wantAccepted) {
					cls = "stale-or-duplicate-notification"
				}
				return drv.Failf("observer-"+cls, "ingress-accepted-set", "%s: node %d forwarded %v to observers, but the deliveries that change its stored state are %v", what, n, gotAccepted, wantAccepted)
			}
			for _, id := range gotAccepted {
				nd.notified[id]++
				if nd.notified[id] > 1 {
					return drv.Failf("observer-stale-or-duplicate-notification", "same-key-version-twice", "%s: node %d notified observers of %s twice", what, n, id)
				}
			}
		}
		// rejected + accepted partition the batch
		if got := len(out["accepted"].Operations) + len(out["rejected"].Operations); got != len(batch) {
			return drv.Failf("ingress-lost-operation", "partition", "%s: %d operations in, %d out (accepted+rejected)", what, len(batch), got)
		}
		return checkMonotone(n, what)
	}
	for ei, ev := range c.Events {
		what := fmt.Sprintf("event %d %+v", ei, ev)
		switch ev.K {
		case "local":
			nd := nodes[ev.Node]
			var txOps []Operation
			var vals []string
			for i, key := range append([]string{ev.Key}, ev.More...) {
				val := "v" + strconv.Itoa(len(ops)+i)
				o := Operation{Change: xkv.Change{Key: []byte(key), Value: []byte(val), Variant: change.VariantSet}, Leaseholder: node.Key(ev.Node)}
				if ev.Del && i == 0 {
					o.Variant, o.Value = change.VariantDelete, nil
				}
				txOps = append(txOps, o)
				vals = append(vals, val)
			}
			req := TxRequest{Context: ctx, Operations: txOps, Leaseholder: node.Key(ev.Node), doneF: func(error) {}}
			req, ok, err := nd.va.assign(ctx, req)
			if err != nil || !ok {
				return drv.Failf("unexpected-error", "assign", "%s: assign ok=%v err=%v", what, ok, err)
			}
			// versions come from the leaseholder's monotonic counter: every operation it
			// issues is newer than everything it issued before
			for _, o := range req.Operations {
				if int64(o.Version) <= nd.lastIssued {
					return drv.Failf("version-not-monotonic", "leaseholder-counter", "%s: node %d issued version %d after having issued version %d", what, ev.Node, o.Version, nd.lastIssued)
				}
				nd.lastIssued = int64(o.Version)
			}
			// the leaseholder stores the digest next to the value in the same batch
			withDigests := req
			req, ok, err = nd.ps.persist(ctx, withDigests)
			if err != nil || !ok {
				return drv.Failf("unexpected-error", "persist", "%s: persist ok=%v err=%v", what, ok, err)
			}
			for i := range req.Operations {
				ops = append(ops, kcOp{op: req.Operations[i], val: vals[i]})
				nd.seen[len(ops)-1] = true
				keysSeen[string(req.Operations[i].Key)] = true
			}
			if len(req.Operations) > 1 {
				st.Probe("local_multi_op_tx")
			}
			st.Probe("local_write")
		case "inject":
			val := "v" + strconv.Itoa(len(ops))
			o := Operation{Change: xkv.Change{Key: []byte(ev.Key), Value: []byte(val), Variant: change.VariantSet}, Leaseholder: node.Key(ev.Lease), Version: version.Counter(ev.Ver)}
			if ev.Del {
				o.Variant, o.Value = change.VariantDelete, nil
			}
			// two distinct operations never share (key, version, leaseholder)
			for _, x := range ops {
				if opID(x.op) == opID(o) {
					o = x.op
					val = x.val
				}
			}
			ops = append(ops, kcOp{op: o, val: val})
			keysSeen[ev.Key] = true
		case "deliver":
			var batch []int
			for _, b := range ev.Batch {
				if b < len(ops) {
					batch = append(batch, b)
				}
			}
			if len(batch) == 0 {
				continue
			}
			if f := deliver(ev.Node, batch, what); f != nil {
				return f
			}
		}
	}
	// premise of strong eventual consistency: every node receives every operation (the
	// ones it has not seen yet, in a per-node pseudo-random order)
	x := c.FinalSeed | 1
	for n := 1; n <= c.Nodes; n++ {
		var rest []int
		for i := range ops {
			if !nodes[n].seen[i] {
				rest = append(rest, i)
			}
		}
		for i := len(rest) - 1; i > 0; i-- {
			x ^= x << 13
			x ^= x >> 7
			x ^= x << 17
			j := int(x % uint64(i+1))
			rest[i], rest[j] = rest[j], rest[i]
		}
		for len(rest) > 0 {
			k := 1 + int(x%3)
			if k > len(rest) {
				k = len(rest)
			}
			if f := deliver(n, rest[:k], fmt.Sprintf("final delivery to node %d of %v", n, rest[:k])); f != nil {
				return f
			}
			rest = rest[k:]
			x ^= x << 13
			x ^= x >> 7
			x ^= x << 17
		}
	}
	// reference: per key the operation with the highest (version, leaseholder)
	type win struct {
		op  kcOp
		has bool
	}
	winner := map[string]win{}
	for _, o := range ops {
		key := string(o.op.Key)
		w := winner[key]
		if !w.has || better(int64(o.op.Version), int64(o.op.Leaseholder), int64(w.op.op.Version), int64(w.op.op.Leaseholder)) {
			winner[key] = win{o, true}
		}
	}
	keys := make([]string, 0, len(winner))
	for k := range winner {
		keys = append(keys, k)
	}
	sort.Strings(keys)
	for n := 1; n <= c.Nodes; n++ {
		for _, key := range keys {
			w := winner[key].op
			v, l, variant, ok, err := digOf(ctx, nodes[n].eng, key)
			if err != nil || !ok {
				return drv.Failf("kv-divergence", "missing-digest", "node %d has no digest for key %q after receiving every operation (err=%v)", n, key, err)
			}
			if v != int64(w.op.Version) || l != int64(w.op.Leaseholder) || variant != w.op.Variant {
				return drv.Failf("kv-divergence", "wrong-winner", "node %d key %q: stored digest (version %d, leaseholder %d, variant %v) but the winning operation is (version %d, leaseholder %d, variant %v)", n, key, v, l, variant, w.op.Version, w.op.Leaseholder, w.op.Variant)
			}
			b, closer, gerr := nodes[n].eng.Get(ctx, []byte(key))
			if w.op.Variant == change.VariantDelete {
				if gerr == nil {
					_ = closer.Close()
					return drv.Failf("kv-divergence", "deleted-key-present", "node %d key %q: value %q present although the winning operation is a delete", n, key, b)
				}
			} else {
				if gerr != nil {
					return drv.Failf("kv-divergence", "value-missing", "node %d key %q: value missing (%v), want %q", n, key, gerr, w.val)
				}
				got := string(b)
				_ = closer.Close()
				if got != w.val {
					return drv.Failf("kv-divergence", "wrong-value", "node %d key %q: value %q, want %q (the value of the winning operation)", n, key, got, w.val)
				}
			}
		}
	}
	if dups > 0 {
		st.Probe("duplicate_delivery")
	}
	if stale > 0 {
		st.Probe("stale_delivery_rejected")
	}
	if ties > 0 {
		st.Probe("equal_version_different_leaseholder")
	}
	var sb strings.Builder
	for _, ev := range c.Events {
		sb.WriteString(ev.K[:1] + strconv.Itoa(ev.Node) + ev.Key + strconv.Itoa(len(ev.Batch)))
	}
	st.Case(drv.Hash64(sb.String(), strconv.Itoa(c.Nodes)), len(ops) >= 2 && (dups > 0 || stale > 0))
	return nil
}
