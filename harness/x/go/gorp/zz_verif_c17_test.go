package gorp_test

// Injected by /verif via `go test -overlay`; never part of the repository.
// x-gorp engines (C17): a real gorp table with a lookup index and a sorted index over an
// in-memory pebble store.
//   - c17-seq: seeded histories of create / update / delete through the table's query
//     builders, directly on the DB or inside up to three interleaved transactions that
//     commit or abort in any order, "foreign" writes that bypass the table (they reach the
//     indexes only through the change observer, like writes replicated from another node),
//     closing and reopening the table over the existing data (bulk populate), and queries
//     built from drawn filter trees (index equality leaves, key sets, predicates, And / Or
//     / Not) in Exec / Count / Exists form plus ordered cursor pagination. Every query is
//     answered three ways: by the reference model (a map plus per-transaction overlays),
//     by the index-backed query and by the same query with every index leaf replaced by a
//     full-scan predicate. After all transactions end the indexes' own Get must hold
//     exactly the live rows.
//   - c17-conc: transaction scripts of several tasks run concurrently under the seeded
//     scheduler; afterwards the committed index state must equal the table content.

import (
	"context"
	"fmt"
	"sort"
	"strconv"
	"strings"
	"sync"
	"testing"
	"testing/synctest"
	"time"

	"github.com/synnaxlabs/x/errors"
	"github.com/synnaxlabs/x/gorp"
	"github.com/synnaxlabs/x/kv/memkv"
	"github.com/synnaxlabs/x/query"
	"pgregory.net/rapid"
	"verifsim/drv"
	"verifsim/sim"
)

func TestVerif(t *testing.T) {
	drv.Main(t,
		drv.Wrap(drv.Engine[c17Case]{Property: "C17", Name: "c17", Gen: genC17Seq, Run: runC17Seq, BatchChecks: 100, Weight: 2}),
		drv.Wrap(drv.Engine[c17Case]{Property: "C17", Name: "c17-conc", Gen: genC17Conc, Run: runC17Conc, BatchChecks: 30, Weight: 2}),
	)
}

type c17Row struct {
	ID int32  `json:"id" msgpack:"id"`
	A  string `json:"a" msgpack:"a"` // lookup-indexed, few distinct values
	B  int64  `json:"b" msgpack:"b"` // sorted-indexed, few distinct values
	C  int64  `json:"c" msgpack:"c"` // not indexed
}

func (r c17Row) GorpKey() int32    { return r.ID }
func (r c17Row) SetOptions() []any { return nil }

// c17F is a filter tree. Leaves: "a" (lookup index equality on A), "b" (sorted index
// equality on B), "keys", "pa" (predicate A in Strs), "pc" (predicate C%2 == N).
type c17F struct {
	K    string   `json:"k"`
	Strs []string `json:"strs,omitempty"`
	Ints []int64  `json:"ints,omitempty"`
	Keys []int32  `json:"keys,omitempty"`
	N    int64    `json:"n,omitempty"`
	Sub  []c17F   `json:"sub,omitempty"`
}

type c17Op struct {
	K       string   `json:"k"`            // begin commit abort create update delete query ordered get reopen
	Tx      int      `json:"tx,omitempty"` // 0 = directly on the DB, 1..3 = transaction slot
	Rows    []c17Row `json:"rows,omitempty"`
	Foreign bool     `json:"foreign,omitempty"`
	F       *c17F    `json:"f,omitempty"`
	Field   string   `json:"field,omitempty"` // update: field to set
	Str     string   `json:"str,omitempty"`
	Int     int64    `json:"int,omitempty"`
	Mode    string   `json:"mode,omitempty"` // query: exec count exists
	Desc    bool     `json:"desc,omitempty"`
	Cursor  *int64   `json:"cursor,omitempty"`
	Limit   int      `json:"limit,omitempty"`
	Offset  int      `json:"offset,omitempty"` // query mode "page"
}

type c17Case struct {
	Pre   []c17Row  `json:"pre,omitempty"` // rows stored before the table is first opened
	Ops   []c17Op   `json:"ops,omitempty"`
	Tasks [][]c17Op `json:"tasks,omitempty"`
	Seed  int64     `json:"seed"`
	Strat int       `json:"strat,omitempty"`
	// Disjoint (c17-conc): every task writes its own rows only (ids 10*task+1..6), so
	// the tasks meet in the index buckets but never in a row
	Disjoint bool `json:"disjoint,omitempty"`
}

var c17As = []string{"x", "y", "z", ""}

func genC17Row(t *rapid.T) c17Row {
	return c17Row{ID: int32(rapid.IntRange(1, 6).Draw(t, "id")), A: rapid.SampledFrom(c17As).Draw(t, "a"),
		B: int64(rapid.IntRange(0, 3).Draw(t, "b")), C: int64(rapid.IntRange(0, 5).Draw(t, "c"))}
}

func genC17F(t *rapid.T, depth int) c17F {
	k := rapid.IntRange(0, 8).Draw(t, "fk")
	if depth >= 2 && k > 4 {
		k = rapid.IntRange(0, 4).Draw(t, "fleaf")
	}
	switch k {
	case 0, 1:
		f := c17F{K: "a"}
		for n := rapid.IntRange(1, 2).Draw(t, "na"); n > 0; n-- {
			f.Strs = append(f.Strs, rapid.SampledFrom(c17As).Draw(t, "fa"))
		}
		return f
	case 2:
		f := c17F{K: "b"}
		for n := rapid.IntRange(1, 2).Draw(t, "nb"); n > 0; n-- {
			f.Ints = append(f.Ints, int64(rapid.IntRange(0, 4).Draw(t, "fb")))
		}
		return f
	case 3:
		f := c17F{K: "keys"}
		for n := rapid.IntRange(0, 3).Draw(t, "nk"); n > 0; n-- {
			f.Keys = append(f.Keys, int32(rapid.IntRange(1, 7).Draw(t, "fkey")))
		}
		return f
	case 4:
		if rapid.Bool().Draw(t, "pa") {
			return c17F{K: "pa", Strs: []string{rapid.SampledFrom(c17As).Draw(t, "pas")}}
		}
		return c17F{K: "pc", N: int64(rapid.IntRange(0, 1).Draw(t, "pcn"))}
	case 5, 6:
		f := c17F{K: "and"}
		for n := rapid.IntRange(1, 3).Draw(t, "nand"); n > 0; n-- {
			f.Sub = append(f.Sub, genC17F(t, depth+1))
		}
		return f
	case 7:
		f := c17F{K: "or"}
		for n := rapid.IntRange(1, 3).Draw(t, "nor"); n > 0; n-- {
			f.Sub = append(f.Sub, genC17F(t, depth+1))
		}
		return f
	default:
		return c17F{K: "not", Sub: []c17F{genC17F(t, depth+1)}}
	}
}

func genC17Write(t *rapid.T, tx int, allowForeign bool) c17Op {
	switch rapid.IntRange(0, 5).Draw(t, "wk") {
	case 0, 1, 2:
		op := c17Op{K: "create", Tx: tx}
		for n := rapid.IntRange(1, 3).Draw(t, "nrows"); n > 0; n-- {
			op.Rows = append(op.Rows, genC17Row(t))
		}
		op.Foreign = allowForeign && tx == 0 && rapid.IntRange(0, 3).Draw(t, "foreign") == 0
		return op
	case 3, 4:
		f := genC17F(t, 1)
		op := c17Op{K: "update", Tx: tx, F: &f, Field: rapid.SampledFrom([]string{"a", "a", "b", "c"}).Draw(t, "field")}
		op.Str = rapid.SampledFrom(c17As).Draw(t, "ustr")
		op.Int = int64(rapid.IntRange(0, 4).Draw(t, "uint"))
		return op
	default:
		f := genC17F(t, 1)
		op := c17Op{K: "delete", Tx: tx, F: &f}
		op.Foreign = allowForeign && tx == 0 && rapid.IntRange(0, 3).Draw(t, "foreign") == 0
		if op.Foreign {
			op.F = &c17F{K: "keys", Keys: []int32{int32(rapid.IntRange(1, 6).Draw(t, "dk"))}}
		}
		return op
	}
}

func genC17Query(t *rapid.T, tx int) c17Op {
	switch rapid.IntRange(0, 5).Draw(t, "qk") {
	case 0:
		op := c17Op{K: "ordered", Tx: 0, Desc: rapid.Bool().Draw(t, "desc"), Limit: rapid.SampledFrom([]int{0, 0, 1, 2, 3}).Draw(t, "limit")}
		if rapid.Bool().Draw(t, "cursor") {
			c := int64(rapid.IntRange(-1, 4).Draw(t, "cur"))
			op.Cursor = &c
		}
		if op.Limit == 0 && rapid.Bool().Draw(t, "ofilter") {
			f := genC17F(t, 1)
			op.F = &f
		}
		return op
	case 1:
		if rapid.Bool().Draw(t, "geta") {
			return c17Op{K: "get", Tx: tx, Field: "a", Str: rapid.SampledFrom(c17As).Draw(t, "gs")}
		}
		return c17Op{K: "get", Tx: tx, Field: "b", Int: int64(rapid.IntRange(0, 4).Draw(t, "gi"))}
	default:
		f := genC17F(t, 0)
		op := c17Op{K: "query", Tx: tx, F: &f, Mode: rapid.SampledFrom([]string{"exec", "exec", "count", "exists", "page"}).Draw(t, "mode")}
		if op.Mode == "page" {
			op.Limit = rapid.IntRange(0, 3).Draw(t, "qlimit")
			op.Offset = rapid.IntRange(0, 2).Draw(t, "qoffset")
			if op.Limit == 0 && op.Offset == 0 {
				op.Limit = 1
			}
		}
		return op
	}
}

func genC17Seq(t *rapid.T) c17Case {
	c := c17Case{Seed: int64(rapid.Uint32().Draw(t, "seed"))}
	for n := rapid.IntRange(0, 4).Draw(t, "npre"); n > 0; n-- {
		c.Pre = append(c.Pre, genC17Row(t))
	}
	open := map[int]bool{}
	for n := rapid.IntRange(2, 30).Draw(t, "n"); n > 0; n-- {
		tx := rapid.IntRange(0, 3).Draw(t, "tx")
		switch k := rapid.IntRange(0, 11).Draw(t, "k"); {
		case tx > 0 && !open[tx]:
			c.Ops = append(c.Ops, c17Op{K: "begin", Tx: tx})
			open[tx] = true
		case k < 5:
			c.Ops = append(c.Ops, genC17Write(t, tx, true))
		case k < 9:
			c.Ops = append(c.Ops, genC17Query(t, tx))
		case k < 11 && tx > 0:
			c.Ops = append(c.Ops, c17Op{K: rapid.SampledFrom([]string{"commit", "commit", "abort"}).Draw(t, "end"), Tx: tx})
			open[tx] = false
		case len(open) == 0 || (!open[1] && !open[2] && !open[3]):
			c.Ops = append(c.Ops, c17Op{K: "reopen"})
		default:
			c.Ops = append(c.Ops, genC17Query(t, tx))
		}
	}
	return c
}

func genC17Conc(t *rapid.T) c17Case {
	c := c17Case{Seed: int64(rapid.Uint32().Draw(t, "seed")), Strat: rapid.IntRange(0, 2).Draw(t, "strat"), Disjoint: rapid.IntRange(0, 3).Draw(t, "disjoint") > 0}
	if !c.Disjoint {
		for n := rapid.IntRange(0, 4).Draw(t, "npre"); n > 0; n-- {
			c.Pre = append(c.Pre, genC17Row(t))
		}
	}
	for ti := rapid.IntRange(2, 3).Draw(t, "tasks"); ti > 0; ti-- {
		var ops []c17Op
		for txn := rapid.IntRange(1, 3).Draw(t, "ntx"); txn > 0; txn-- {
			direct := rapid.IntRange(0, 3).Draw(t, "direct") == 0
			tx := 1
			if direct {
				tx = 0
			} else {
				ops = append(ops, c17Op{K: "begin", Tx: 1})
			}
			for n := rapid.IntRange(1, 3).Draw(t, "nw"); n > 0; n-- {
				ops = append(ops, genC17Write(t, tx, false))
			}
			if !direct {
				ops = append(ops, c17Op{K: rapid.SampledFrom([]string{"commit", "commit", "commit", "abort"}).Draw(t, "end"), Tx: 1})
			}
		}
		c.Tasks = append(c.Tasks, ops)
	}
	return c
}

// ---- world ------------------------------------------------------------------------------

type c17World struct {
	ctx   context.Context
	db    *gorp.DB
	table *gorp.Table[int32, c17Row]
	idxA  *gorp.LookupIndex[int32, c17Row, string]
	idxB  *gorp.SortedIndex[int32, c17Row, int64]
}

func (w *c17World) openTable() error {
	w.idxA = gorp.NewLookupIndex[int32, c17Row, string]("a", func(r *c17Row) string { return r.A })
	w.idxB = gorp.NewSortedIndex[int32, c17Row, int64]("b", func(r *c17Row) int64 { return r.B })
	tbl, err := gorp.OpenTable[int32, c17Row](w.ctx, gorp.TableConfig[int32, c17Row]{DB: w.db, Indexes: []gorp.Index[int32, c17Row]{w.idxA, w.idxB}})
	if err != nil {
		return err
	}
	w.table = tbl
	return tbl.WaitForIndexes(w.ctx)
}

func newC17World(c c17Case) (*c17World, error) {
	w := &c17World{ctx: context.Background(), db: gorp.Wrap(memkv.New())}
	if len(c.Pre) > 0 {
		rows := append([]c17Row(nil), c.Pre...)
		if err := gorp.NewCreate[int32, c17Row]().Entries(&rows).Exec(w.ctx, w.db); err != nil {
			return nil, err
		}
	}
	return w, w.openTable()
}

func (w *c17World) close() {
	if w.table != nil {
		_ = w.table.Close()
	}
	_ = w.db.Close()
}

// build turns a filter tree into (gorp filter using the indexes, gorp filter using scans
// only, reference predicate).
func (w *c17World) build(f c17F) (idx, scan gorp.Filter[int32, c17Row], pred func(c17Row) bool) {
	match := func(p func(c17Row) bool) gorp.Filter[int32, c17Row] {
		return gorp.Match[int32, c17Row](func(_ gorp.Context, e *c17Row) (bool, error) { return p(*e), nil })
	}
	switch f.K {
	case "a":
		strs := append([]string(nil), f.Strs...)
		pred = func(r c17Row) bool {
			for _, s := range strs {
				if r.A == s {
					return true
				}
			}
			return false
		}
		return w.idxA.Filter(strs...), match(pred), pred
	case "b":
		ints := append([]int64(nil), f.Ints...)
		pred = func(r c17Row) bool {
			for _, s := range ints {
				if r.B == s {
					return true
				}
			}
			return false
		}
		return w.idxB.Filter(ints...), match(pred), pred
	case "keys":
		// a key listed twice is fetched twice by MatchKeys; that is a property of the
		// key filter alone (no index involved), so key sets are kept duplicate-free
		var keys []int32
		for _, k := range f.Keys {
			dup := false
			for _, k2 := range keys {
				dup = dup || k == k2
			}
			if !dup {
				keys = append(keys, k)
			}
		}
		pred = func(r c17Row) bool {
			for _, k := range keys {
				if r.ID == k {
					return true
				}
			}
			return false
		}
		return gorp.MatchKeys[int32, c17Row](keys...), match(pred), pred
	case "pa":
		s := f.Strs[0]
		pred = func(r c17Row) bool { return r.A == s }
		return match(pred), match(pred), pred
	case "pc":
		n := f.N
		pred = func(r c17Row) bool { return r.C%2 == n }
		return match(pred), match(pred), pred
	case "not":
		i, s, p := w.build(f.Sub[0])
		return gorp.Not(i), gorp.Not(s), func(r c17Row) bool { return !p(r) }
	}
	var is, ss []gorp.Filter[int32, c17Row]
	var ps []func(c17Row) bool
	for _, sub := range f.Sub {
		i, s, p := w.build(sub)
		is, ss, ps = append(is, i), append(ss, s), append(ps, p)
	}
	if f.K == "and" {
		return gorp.And(is...), gorp.And(ss...), func(r c17Row) bool {
			for _, p := range ps {
				if !p(r) {
					return false
				}
			}
			return true
		}
	}
	return gorp.Or(is...), gorp.Or(ss...), func(r c17Row) bool {
		for _, p := range ps {
			if p(r) {
				return true
			}
		}
		return false
	}
}

// notBare wraps a filter so that it is never a bare key set (a bare key set with a
// missing key is an error by contract, which is not what these histories are about).
func notBare(f gorp.Filter[int32, c17Row]) gorp.Filter[int32, c17Row] {
	return gorp.And(f, gorp.Match[int32, c17Row](func(gorp.Context, *c17Row) (bool, error) { return true, nil }))
}

func fmtRows(rows []c17Row) string {
	rows = append([]c17Row(nil), rows...)
	sort.Slice(rows, func(i, j int) bool { return rows[i].ID < rows[j].ID })
	var b strings.Builder
	for _, r := range rows {
		fmt.Fprintf(&b, "{%d a=%q b=%d c=%d}", r.ID, r.A, r.B, r.C)
	}
	return b.String()
}

func sameRows(a, b []c17Row) bool { return fmtRows(a) == fmtRows(b) }

// applyChange is the update's change function.
func applyChange(op c17Op, r c17Row) c17Row {
	switch op.Field {
	case "a":
		r.A = op.Str
	case "b":
		r.B = op.Int
	default:
		r.C = op.Int
	}
	return r
}

// c17Model: committed rows plus one overlay per open transaction (nil entry = deleted).
type c17Model struct {
	committed map[int32]c17Row
	over      map[int]map[int32]*c17Row
}

func (m *c17Model) view(tx int) map[int32]c17Row {
	v := map[int32]c17Row{}
	for k, r := range m.committed {
		v[k] = r
	}
	for k, r := range m.over[tx] {
		if r == nil {
			delete(v, k)
		} else {
			v[k] = *r
		}
	}
	return v
}

func (m *c17Model) set(tx int, r c17Row) {
	if tx == 0 {
		m.committed[r.ID] = r
		return
	}
	rr := r
	m.over[tx][r.ID] = &rr
}

func (m *c17Model) del(tx int, k int32) {
	if tx == 0 {
		delete(m.committed, k)
		return
	}
	m.over[tx][k] = nil
}

func rowsWhere(v map[int32]c17Row, p func(c17Row) bool) []c17Row {
	var out []c17Row
	for _, r := range v {
		if p(r) {
			out = append(out, r)
		}
	}
	return out
}

func fSig(f *c17F) string {
	if f == nil {
		return "-"
	}
	s := f.K
	if len(f.Sub) > 0 {
		var parts []string
		for i := range f.Sub {
			parts = append(parts, fSig(&f.Sub[i]))
		}
		s += "(" + strings.Join(parts, ",") + ")"
	}
	return s
}

func runC17Seq(t *testing.T, c c17Case, st *drv.Stats) (fail *drv.Failure) {
	// the table's populate goroutine and async observers must not outlive the case
	synctest.Test(t, func(t *testing.T) { fail = runC17SeqBody(c, st) })
	return fail
}

func runC17SeqBody(c c17Case, st *drv.Stats) *drv.Failure {
	w, err := newC17World(c)
	if err != nil {
		return drv.Failf("unexpected-error", "open", "open: %v", err)
	}
	defer w.close()
	m := &c17Model{committed: map[int32]c17Row{}, over: map[int]map[int32]*c17Row{}}
	for _, r := range c.Pre {
		m.committed[r.ID] = r
	}
	if len(c.Pre) > 0 {
		st.Probe("bulk_populate_over_existing_rows")
	}
	txs := map[int]gorp.Tx{}
	txOf := func(i int) gorp.Tx {
		if i == 0 {
			return w.db
		}
		return txs[i]
	}
	interleaved := false
	for oi, op := range c.Ops {
		what := fmt.Sprintf("op %d %s tx=%d f=%s", oi, op.K, op.Tx, fSig(op.F))
		if op.Tx != 0 && txs[op.Tx] == nil && op.K != "begin" {
			continue
		}
		if len(txs) >= 2 {
			interleaved = true
		}
		switch op.K {
		case "begin":
			if txs[op.Tx] != nil {
				continue
			}
			txs[op.Tx] = w.db.OpenTx()
			m.over[op.Tx] = map[int32]*c17Row{}
		case "commit":
			if err := txs[op.Tx].Commit(w.ctx); err != nil {
				return drv.Failf("unexpected-error", "commit", "%s: %v", what, err)
			}
			_ = txs[op.Tx].Close()
			for k, r := range m.over[op.Tx] {
				if r == nil {
					delete(m.committed, k)
				} else {
					m.committed[k] = *r
				}
			}
			delete(txs, op.Tx)
			delete(m.over, op.Tx)
			st.Probe("tx_committed")
		case "abort":
			if err := txs[op.Tx].Close(); err != nil {
				return drv.Failf("unexpected-error", "abort", "%s: %v", what, err)
			}
			if len(m.over[op.Tx]) > 0 {
				st.Probe("tx_aborted_with_staged_writes")
			}
			delete(txs, op.Tx)
			delete(m.over, op.Tx)
		case "reopen":
			if len(txs) > 0 {
				continue
			}
			if err := w.table.Close(); err != nil {
				return drv.Failf("unexpected-error", "table-close", "%s: %v", what, err)
			}
			if err := w.openTable(); err != nil {
				return drv.Failf("unexpected-error", "table-open", "%s: %v", what, err)
			}
			st.Probe("table_reopened_over_existing_rows")
		case "create":
			rows := append([]c17Row(nil), op.Rows...)
			var err error
			if op.Foreign {
				err = gorp.NewCreate[int32, c17Row]().Entries(&rows).Exec(w.ctx, txOf(op.Tx))
				st.Probe("foreign_write_through_observer")
			} else {
				err = w.table.NewCreate().Entries(&rows).Exec(w.ctx, txOf(op.Tx))
			}
			if err != nil {
				return drv.Failf("unexpected-error", "create", "%s: %v", what, err)
			}
			for _, r := range op.Rows {
				m.set(op.Tx, r)
			}
		case "update":
			fi, _, pred := w.build(*op.F)
			hit := rowsWhere(m.view(op.Tx), pred)
			err := w.table.NewUpdate().Where(notBare(fi)).Change(func(_ gorp.Context, r c17Row) c17Row { return applyChange(op, r) }).Exec(w.ctx, txOf(op.Tx))
			if err != nil {
				return drv.Failf("unexpected-error", "update", "%s: %v", what, err)
			}
			for _, r := range hit {
				m.set(op.Tx, applyChange(op, r))
			}
			if len(hit) > 0 && op.Field != "c" {
				st.Probe("indexed_value_changed")
			}
		case "delete":
			fi, _, pred := w.build(*op.F)
			hit := rowsWhere(m.view(op.Tx), pred)
			var err error
			if op.Foreign {
				err = gorp.NewDelete[int32, c17Row]().Where(notBare(gorp.MatchKeys[int32, c17Row](op.F.Keys...))).Exec(w.ctx, txOf(op.Tx))
				st.Probe("foreign_write_through_observer")
			} else {
				err = w.table.NewDelete().Where(notBare(fi)).Exec(w.ctx, txOf(op.Tx))
			}
			if err != nil {
				return drv.Failf("unexpected-error", "delete", "%s: %v", what, err)
			}
			for _, r := range hit {
				m.del(op.Tx, r.ID)
			}
		case "query":
			fi, fs, pred := w.build(*op.F)
			want := rowsWhere(m.view(op.Tx), pred)
			tx := txOf(op.Tx)
			for vi, f := range []gorp.Filter[int32, c17Row]{notBare(fi), notBare(fs)} {
				variant := []string{"indexed", "scan"}[vi]
				q := w.table.NewRetrieve().Where(f)
				switch op.Mode {
				case "count":
					n, err := q.Count(w.ctx, tx)
					if err != nil {
						return drv.Failf("unexpected-error", "count", "%s: %v", what, err)
					}
					if n != len(want) {
						return drv.Failf("query-mismatch", variant+":count:"+c17Where(op.Tx, len(txs)), "%s: the %s query counts %d rows, the model holds %d: %s", what, variant, n, len(want), fmtRows(want))
					}
				case "exists":
					ok, err := q.Exists(w.ctx, tx)
					if err != nil {
						return drv.Failf("unexpected-error", "exists", "%s: %v", what, err)
					}
					if ok != (len(want) > 0) {
						return drv.Failf("query-mismatch", variant+":exists:"+c17Where(op.Tx, len(txs)), "%s: the %s query says exists=%v, the model holds %d matching rows", what, variant, ok, len(want))
					}
				case "page":
					// an unordered page: WHICH matching rows it holds is not specified,
					// how many is: the rows that pass the filter are counted, so a page
					// holds min(limit, matching-offset) distinct matching rows
					if op.Limit > 0 {
						q = q.Limit(op.Limit)
					}
					if op.Offset > 0 {
						q = q.Offset(op.Offset)
					}
					var got []c17Row
					if err := q.Entries(&got).Exec(w.ctx, tx); err != nil && !errors.Is(err, query.ErrNotFound) {
						return drv.Failf("unexpected-error", "page", "%s: %v", what, err)
					}
					wantN := len(want) - op.Offset
					if wantN < 0 {
						wantN = 0
					}
					if op.Limit > 0 && wantN > op.Limit {
						wantN = op.Limit
					}
					inWant := map[int32]c17Row{}
					for _, r := range want {
						inWant[r.ID] = r
					}
					seen := map[int32]bool{}
					for _, r := range got {
						if wr, ok := inWant[r.ID]; !ok || wr != r || seen[r.ID] {
							return drv.Failf("query-mismatch", variant+":page-row:"+c17Where(op.Tx, len(txs)), "%s: the %s query with limit %d offset %d returned %s, which is not a set of rows matching the filter (%s)", what, variant, op.Limit, op.Offset, fmtRows(got), fmtRows(want))
						}
						seen[r.ID] = true
					}
					if len(got) != wantN {
						return drv.Failf("query-mismatch", variant+":page-size:"+c17Where(op.Tx, len(txs)), "%s: the %s query with limit %d offset %d returned %d rows %s; %d rows match the filter (%s), so the page holds %d", what, variant, op.Limit, op.Offset, len(got), fmtRows(got), len(want), fmtRows(want), wantN)
					}
					st.Probe("query_page")
				default:
					var got []c17Row
					if err := q.Entries(&got).Exec(w.ctx, tx); err != nil {
						return drv.Failf("unexpected-error", "exec", "%s: %v", what, err)
					}
					if !sameRows(got, want) {
						return drv.Failf("query-mismatch", variant+":exec:"+c17Where(op.Tx, len(txs)), "%s: the %s query returned %s, the model holds %s", what, variant, fmtRows(got), fmtRows(want))
					}
				}
			}
			st.Probe("query_three_way")
			if op.Tx != 0 && len(m.over[op.Tx]) > 0 {
				st.Probe("query_inside_tx_with_staged_writes")
			}
		case "get":
			var got []int32
			var err error
			var pred func(c17Row) bool
			if op.Field == "a" {
				got, err = w.idxA.Get(txOf(op.Tx), op.Str)
				pred = func(r c17Row) bool { return r.A == op.Str }
			} else {
				got, err = w.idxB.Get(txOf(op.Tx), op.Int)
				pred = func(r c17Row) bool { return r.B == op.Int }
			}
			if err != nil {
				return drv.Failf("unexpected-error", "index-get", "%s: %v", what, err)
			}
			if f := c17CompareKeys(what, "index-get:"+op.Field+":"+c17Where(op.Tx, len(txs)), got, rowsWhere(m.view(op.Tx), pred)); f != nil {
				return f
			}
		case "ordered":
			// ordered iteration reads committed state (documented); the statement's
			// claim is about the entries, so a page is compared as: values in walk
			// order, exactly the first `limit` values of the sorted matching set
			q := w.idxB.Ordered(gorp.DirectionAsc)
			if op.Desc {
				q = w.idxB.Ordered(gorp.DirectionDesc)
			}
			if op.Cursor != nil {
				q = q.After(*op.Cursor)
			}
			pred := func(c17Row) bool { return true }
			r := w.table.NewRetrieve().OrderBy(q)
			if op.F != nil {
				fi, _, p := w.build(*op.F)
				pred = p
				r = r.Where(fi)
			}
			if op.Limit > 0 {
				r = r.Limit(op.Limit)
			}
			var got []c17Row
			if err := r.Entries(&got).Exec(w.ctx, w.db); err != nil {
				return drv.Failf("unexpected-error", "ordered", "%s: %v", what, err)
			}
			want := rowsWhere(m.view(0), func(r c17Row) bool {
				if op.Cursor != nil {
					if !op.Desc && r.B <= *op.Cursor {
						return false
					}
					if op.Desc && r.B >= *op.Cursor {
						return false
					}
				}
				return pred(r)
			})
			sort.Slice(want, func(i, j int) bool {
				if op.Desc {
					return want[i].B > want[j].B
				}
				return want[i].B < want[j].B
			})
			if op.Limit > 0 && len(want) > op.Limit {
				want = want[:op.Limit]
			}
			var gb, wb []string
			for _, r := range got {
				gb = append(gb, strconv.FormatInt(r.B, 10))
			}
			for _, r := range want {
				wb = append(wb, strconv.FormatInt(r.B, 10))
			}
			if strings.Join(gb, ",") != strings.Join(wb, ",") {
				return drv.Failf("ordered-mismatch", "values", "%s desc=%v cursor=%v limit=%d: the ordered walk returned B values [%s], the sorted matching rows have [%s]", what, op.Desc, op.Cursor != nil, op.Limit, strings.Join(gb, ","), strings.Join(wb, ","))
			}
			// with no limit the page is the whole matching set
			if op.Limit == 0 && !sameRows(got, want) {
				return drv.Failf("ordered-mismatch", "rows", "%s: the ordered walk returned %s, the model holds %s", what, fmtRows(got), fmtRows(want))
			}
			for _, r := range got {
				if cur, ok := m.committed[r.ID]; !ok || cur != r {
					return drv.Failf("ordered-mismatch", "row-not-in-table", "%s: the ordered walk returned %+v, the table holds %+v (present=%v)", what, r, cur, ok)
				}
			}
			st.Probe("ordered_page")
		}
	}
	// end every open transaction (abort), then the committed index state must hold exactly
	// the live rows
	for i, tx := range txs {
		_ = tx.Close()
		delete(m.over, i)
	}
	if f := w.finalCheck(m.committed, "after the history"); f != nil {
		return f
	}
	if interleaved {
		st.Probe("interleaved_open_transactions")
	}
	var shape strings.Builder
	for _, op := range c.Ops {
		shape.WriteString(op.K[:2] + strconv.Itoa(op.Tx) + fSig(op.F) + ",")
	}
	st.Case(drv.Hash64(shape.String(), strconv.Itoa(len(c.Pre))), len(c.Ops) >= 4)
	return nil
}

func c17Where(tx, open int) string {
	if tx == 0 {
		return "on-db"
	}
	if open > 1 {
		return "in-tx-with-others-open"
	}
	return "in-tx"
}

func c17CompareKeys(what, sig string, got []int32, want []c17Row) *drv.Failure {
	g := append([]int32(nil), got...)
	sort.Slice(g, func(i, j int) bool { return g[i] < g[j] })
	var w []int32
	for _, r := range want {
		w = append(w, r.ID)
	}
	sort.Slice(w, func(i, j int) bool { return w[i] < w[j] })
	if fmt.Sprint(g) != fmt.Sprint(w) {
		return drv.Failf("index-state-mismatch", sig, "%s: the index returns keys %v, the rows with that value are %v", what, g, w)
	}
	return nil
}

// finalCheck compares the indexes' committed state with the given rows and the table's
// own content.
func (w *c17World) finalCheck(rows map[int32]c17Row, when string) *drv.Failure {
	var all []c17Row
	if err := w.table.NewRetrieve().Entries(&all).Exec(w.ctx, w.db); err != nil && !errors.Is(err, query.ErrNotFound) {
		return drv.Failf("unexpected-error", "final-scan", "%s: %v", when, err)
	}
	if rows != nil {
		var want []c17Row
		for _, r := range rows {
			want = append(want, r)
		}
		if !sameRows(all, want) {
			return drv.Failf("table-mismatch", "final", "%s the table holds %s, the model holds %s", when, fmtRows(all), fmtRows(want))
		}
	}
	view := map[int32]c17Row{}
	for _, r := range all {
		view[r.ID] = r
	}
	for _, a := range c17As {
		got, err := w.idxA.Get(nil, a)
		if err != nil {
			return drv.Failf("unexpected-error", "final-get", "%v", err)
		}
		if f := c17CompareKeys(when+" lookup index value "+strconv.Quote(a), "final:lookup", got, rowsWhere(view, func(r c17Row) bool { return r.A == a })); f != nil {
			return f
		}
	}
	for b := int64(0); b <= 4; b++ {
		got, err := w.idxB.Get(nil, b)
		if err != nil {
			return drv.Failf("unexpected-error", "final-get", "%v", err)
		}
		if f := c17CompareKeys(when+" sorted index value "+strconv.FormatInt(b, 10), "final:sorted", got, rowsWhere(view, func(r c17Row) bool { return r.B == b })); f != nil {
			return f
		}
	}
	return nil
}

func runC17Conc(t *testing.T, c c17Case, st *drv.Stats) (fail *drv.Failure) {
	defer func() {
		if p := recover(); p != nil && fail == nil {
			fail = drv.Failf("panic", fmt.Sprint(p), "panic: %v", p)
		}
	}()
	synctest.Test(t, func(t *testing.T) {
		w, err := newC17World(c)
		if err != nil {
			fail = drv.Failf("unexpected-error", "open", "open: %v", err)
			return
		}
		defer w.close()
		synctest.Wait()
		strat := []sim.Strategy{sim.StratRandom, sim.StratSticky, sim.StratPCT}[c.Strat%3]
		sc := sim.New(sim.Config{Strategy: strat, SwitchInv: 3, PCTDepth: 3, PCTSteps: 600, Classes: sim.ClassAll, MaxSteps: 400_000, HorizonNS: int64(20 * time.Second), TickNS: 1, QuantumNS: 1_000_003}, sim.NewChoices(uint64(c.Seed)))
		sim.Install(sc)
		defer sim.Uninstall()
		tasks := sc.NewTasks()
		// writers[id] = tasks that wrote (created, updated or deleted) the row
		writers := map[int32]map[int]bool{}
		var wmu sync.Mutex
		for _, r := range c.Pre {
			writers[r.ID] = map[int]bool{}
		}
		for ti, ops := range c.Tasks {
			ti, ops := ti, ops
			tasks.Go("task"+strconv.Itoa(ti), func() error {
				var tx gorp.Tx
				own := func(f gorp.Filter[int32, c17Row]) gorp.Filter[int32, c17Row] {
					if !c.Disjoint {
						return notBare(f)
					}
					var ids []int32
					for k := int32(1); k <= 7; k++ {
						ids = append(ids, int32(10*(ti+1))+k)
					}
					return notBare(gorp.And(f, gorp.MatchKeys[int32, c17Row](ids...)))
				}
				for _, op := range ops {
					if c.Disjoint {
						op = c17Own(op, ti)
					}
					for _, r := range op.Rows {
						wmu.Lock()
						if writers[r.ID] == nil {
							writers[r.ID] = map[int]bool{}
						}
						writers[r.ID][ti] = true
						wmu.Unlock()
					}
					sim.Yield(sim.ClassTask, "task"+strconv.Itoa(ti)+" "+op.K)
					cur := gorp.Tx(w.db)
					if op.Tx != 0 {
						cur = tx
					}
					switch op.K {
					case "begin":
						tx = w.db.OpenTx()
					case "commit":
						if err := tx.Commit(w.ctx); err != nil {
							return err
						}
						_ = tx.Close()
						tx = nil
					case "abort":
						_ = tx.Close()
						tx = nil
					case "create":
						rows := append([]c17Row(nil), op.Rows...)
						if err := w.table.NewCreate().Entries(&rows).Exec(w.ctx, cur); err != nil {
							return err
						}
					case "update":
						fi, _, _ := w.build(*op.F)
						if err := w.table.NewUpdate().Where(own(fi)).Change(func(_ gorp.Context, r c17Row) c17Row {
							wmu.Lock()
							if writers[r.ID] == nil {
								writers[r.ID] = map[int]bool{}
							}
							writers[r.ID][ti] = true
							wmu.Unlock()
							return applyChange(op, r)
						}).Exec(w.ctx, cur); err != nil {
							return err
						}
					case "delete":
						fi, _, _ := w.build(*op.F)
						if err := w.table.NewDelete().Where(own(fi)).Guard(func(_ gorp.Context, r c17Row) error {
							wmu.Lock()
							if writers[r.ID] == nil {
								writers[r.ID] = map[int]bool{}
							}
							writers[r.ID][ti] = true
							wmu.Unlock()
							return nil
						}).Exec(w.ctx, cur); err != nil {
							return err
						}
					}
				}
				if tx != nil {
					_ = tx.Close()
				}
				return nil
			})
		}
		err = sc.Run(tasks.Done)
		st.AddSteps(sc.Steps)
		if err != nil {
			switch e := err.(type) {
			case *sim.ErrDeadlock:
				fail = drv.Failf("deadlock", "gorp", "concurrent transactions stopped making progress\n%s", e.Stacks)
			default:
				st.Inconcl("step_budget_exceeded")
			}
			sc.Abort()
			return
		}
		for _, e := range tasks.Errors {
			fail = drv.Failf("unexpected-error", "task", "%s", e)
			return
		}
		sim.Uninstall()
		synctest.Wait()
		if f := w.finalCheck(nil, "after all concurrent transactions ended"); f != nil {
			// which rows does the index get wrong, and did more than one task write them?
			shared := false
			for _, id := range w.wrongKeys() {
				if len(writers[id]) > 1 {
					shared = true
				}
			}
			if shared {
				f.Sig = "row-written-by-concurrent-transactions:" + f.Sig
				st.Probe("same_row_written_concurrently")
			}
			fail = f
			return
		}
		if c.Disjoint {
			st.Probe("concurrent_disjoint_rows_shared_buckets")
		}
		st.Probe("concurrent_transactions_case")
		var shape strings.Builder
		for _, tk := range c.Tasks {
			for _, op := range tk {
				shape.WriteString(op.K[:2] + fSig(op.F) + ",")
			}
			shape.WriteString("/")
		}
		st.Case(drv.Hash64(shape.String(), strconv.FormatUint(sc.Hash(), 16)), true)
	})
	return fail
}

// c17Own moves an operation's rows into the task's own id range.
func c17Own(op c17Op, ti int) c17Op {
	rows := append([]c17Row(nil), op.Rows...)
	for i := range rows {
		rows[i].ID += int32(10 * (ti + 1))
	}
	op.Rows = rows
	return op
}

// wrongKeys lists the keys for which some index disagrees with the table.
func (w *c17World) wrongKeys() []int32 {
	var all []c17Row
	_ = w.table.NewRetrieve().Entries(&all).Exec(w.ctx, w.db)
	wrong := map[int32]bool{}
	inTable := map[int32]c17Row{}
	for _, r := range all {
		inTable[r.ID] = r
	}
	check := func(got []int32, pred func(c17Row) bool) {
		g := map[int32]bool{}
		for _, k := range got {
			g[k] = true
			if r, ok := inTable[k]; !ok || !pred(r) {
				wrong[k] = true
			}
		}
		for k, r := range inTable {
			if pred(r) && !g[k] {
				wrong[k] = true
			}
		}
	}
	for _, a := range c17As {
		a := a
		got, _ := w.idxA.Get(nil, a)
		check(got, func(r c17Row) bool { return r.A == a })
	}
	for b := int64(0); b <= 4; b++ {
		b := b
		got, _ := w.idxB.Get(nil, b)
		check(got, func(r c17Row) bool { return r.B == b })
	}
	var out []int32
	for k := range wrong {
		out = append(out, k)
	}
	sort.Slice(out, func(i, j int) bool { return out[i] < out[j] })
	return out
}
