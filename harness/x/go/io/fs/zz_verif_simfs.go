package fs

// Injected by /verif via `go test -overlay` (never present in the repository): adapts
// the simulator's disk (verifsim/simfs) to this package's FS and File interfaces.

import (
	"path"

	"verifsim/simfs"
)

type simFS struct {
	core *simfs.FS
	dir  string
}

// NewSim exposes a simulated disk as an FS rooted at "/".
func NewSim(core *simfs.FS) FS { return &simFS{core: core} }

func (s *simFS) p(name string) string { return path.Join("/", s.dir, name) }

func (s *simFS) Open(name string, flag int) (File, error) {
	h, err := s.core.Open(s.p(name), flag)
	if err != nil {
		return nil, err
	}
	return h, nil
}

func (s *simFS) Sub(name string) (FS, error) {
	if err := s.core.MkdirAll(s.p(name)); err != nil {
		return nil, err
	}
	return &simFS{core: s.core, dir: s.p(name)}, nil
}

func (s *simFS) List(name string) ([]FileInfo, error) { return s.core.List(s.p(name)) }
func (s *simFS) Exists(name string) (bool, error)     { return s.core.Exists(s.p(name)) }
func (s *simFS) Remove(name string) error             { return s.core.Remove(s.p(name)) }
func (s *simFS) Rename(a, b string) error             { return s.core.Rename(s.p(a), s.p(b)) }
func (s *simFS) Stat(name string) (FileInfo, error)   { return s.core.Stat(s.p(name)) }

var _ File = (*simfs.Handle)(nil)
