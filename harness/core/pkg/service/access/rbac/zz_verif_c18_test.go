package rbac_test

// Injected by /verif via `go test -overlay`; never part of the repository.
// C18: a request is permitted exactly when every requested object is covered, by type or
// by exact identity, by some policy that grants the requested action and is attached to a
// role currently assigned to the subject; everything else (unknown subjects, subjects
// without roles) is denied. Assign/unassign and create/delete of roles and policies
// change the outcome of the very next check made in the same transactional view.
//
// The real rbac.Service (role + policy sub-services, ontology, gorp tables and their
// in-memory relationship indexes) runs over an in-memory kv store. A case is a history
// of create/delete role, create/delete policy, attach policy to role, assign/unassign
// role, define subject, begin/commit/abort transaction, reopen and drawn access
// requests. After every operation the harness compares, for every subject of the
// universe and in every view (inside the open transaction, and outside it), Enforce and
// RetrievePoliciesForSubject with a plain-set reference model.

import (
	"context"
	"encoding/json"
	"fmt"
	"hash/fnv"
	"math/rand"
	"os"
	"sort"
	"strconv"
	"strings"
	"testing"

	"github.com/google/uuid"
	"github.com/synnaxlabs/synnax/pkg/distribution/group"
	"github.com/synnaxlabs/synnax/pkg/distribution/ontology"
	"github.com/synnaxlabs/synnax/pkg/distribution/search"
	"github.com/synnaxlabs/synnax/pkg/service/access"
	"github.com/synnaxlabs/synnax/pkg/service/access/rbac"
	"github.com/synnaxlabs/synnax/pkg/service/access/rbac/policy"
	"github.com/synnaxlabs/synnax/pkg/service/access/rbac/role"
	"github.com/synnaxlabs/synnax/pkg/service/auth"
	"github.com/synnaxlabs/synnax/pkg/service/user"
	"github.com/synnaxlabs/x/errors"
	"github.com/synnaxlabs/x/gorp"
	xkv "github.com/synnaxlabs/x/kv"
	"github.com/synnaxlabs/x/kv/memkv"
	"github.com/synnaxlabs/x/query"
	"github.com/synnaxlabs/x/validate"
	"pgregory.net/rapid"
	"verifsim/drv"
)

func TestVerif(t *testing.T) {
	drv.Main(t, drv.Wrap(drv.Engine[c18Case]{Property: "C18", Name: "c18", Gen: genC18, Run: runC18, BatchChecks: 100, GCEvery: 4}))
}

// ---------------------------------------------------------------------------------------
// universe

const (
	c18Roles    = 3
	c18Policies = 4
	c18Subjects = 6 // 0,1,2,4 defined at start; 3 definable by "defsubj"; 5 never defined
)

var (
	c18Types   = []ontology.ResourceType{"channel", "chan", "workspace", "range"}
	c18Keys    = []string{"", "1", "10", "2"} // "" = type-level
	c18Actions = []access.Action{access.ActionCreate, access.ActionRetrieve, access.ActionUpdate, access.ActionDelete, access.Action("exec")}
	c18SubjIDs = []ontology.ID{
		{Type: "user", Key: "u1"},
		{Type: "user", Key: "u10"},
		{Type: "user", Key: "u2"},
		{Type: "user", Key: "u3"},
		{Type: "user", Key: "u"},
		{Type: "user", Key: "zz"},
	}
)

// role i and policy i deliberately share the same UUID (they differ only by ontology type)
func c18Key(i int) uuid.UUID {
	return uuid.MustParse(fmt.Sprintf("00000000-0000-4000-8000-0000000000%02x", i+1))
}

type c18Obj struct {
	T int `json:"t"`
	K int `json:"k"`
}

func (o c18Obj) id() ontology.ID { return ontology.ID{Type: c18Types[o.T], Key: c18Keys[o.K]} }
func (o c18Obj) String() string  { return string(c18Types[o.T]) + ":" + c18Keys[o.K] }

var c18Universe = func() []c18Obj {
	var u []c18Obj
	for t := range c18Types {
		for k := range c18Keys {
			u = append(u, c18Obj{t, k})
		}
	}
	return u
}()

type c18Op struct {
	// begin, commit, abort, mkrole, rmrole, mkpol, rmpol, attach, assign, unassign,
	// defsubj, file, req, reopen
	K    string   `json:"k"`
	R    int      `json:"r,omitempty"`
	S    int      `json:"s,omitempty"`
	Ps   []int    `json:"ps,omitempty"`   // mkpol/rmpol: [p]; attach: one or more
	Acts []int    `json:"acts,omitempty"` // mkpol
	Objs []c18Obj `json:"objs,omitempty"` // mkpol, req
	Act  int      `json:"act,omitempty"`  // req
	Salt int      `json:"salt,omitempty"` // chooses the near-miss objects of the battery
	// rmrole: through a writer that may not delete internal roles (role 0 is internal)
	Guarded bool `json:"guarded,omitempty"`
}

type c18Case struct {
	Ops []c18Op `json:"ops"`
}

func genC18(t *rapid.T) c18Case {
	var c c18Case
	n := rapid.IntRange(2, 30).Draw(t, "n")
	inTx := false
	// rough guesses, only used to bias attach/assign/delete towards things that exist
	var roleLive [c18Roles]bool
	var polLive [c18Policies]bool
	pickRole := func(label string) int {
		if rapid.IntRange(0, 3).Draw(t, label+"_any") != 0 {
			var live []int
			for i, l := range roleLive {
				if l {
					live = append(live, i)
				}
			}
			if len(live) > 0 {
				return live[rapid.IntRange(0, len(live)-1).Draw(t, label+"_live")]
			}
		}
		return rapid.IntRange(0, c18Roles-1).Draw(t, label)
	}
	pickPol := func(label string) int {
		if rapid.IntRange(0, 3).Draw(t, label+"_any") != 0 {
			var live []int
			for i, l := range polLive {
				if l {
					live = append(live, i)
				}
			}
			if len(live) > 0 {
				return live[rapid.IntRange(0, len(live)-1).Draw(t, label+"_live")]
			}
		}
		return rapid.IntRange(0, c18Policies-1).Draw(t, label)
	}
	obj := func(label string) c18Obj {
		o := c18Obj{T: rapid.IntRange(0, 1).Draw(t, label+"_t"), K: rapid.IntRange(0, len(c18Keys)-1).Draw(t, label+"_k")}
		if rapid.IntRange(0, 3).Draw(t, label+"_wide") == 0 {
			o.T = rapid.IntRange(0, len(c18Types)-1).Draw(t, label+"_tw")
		}
		return o
	}
	// three cases out of four start from a small working configuration (built directly or
	// inside a first transaction) so that the history that follows changes outcomes
	if rapid.IntRange(0, 3).Draw(t, "preamble") != 0 {
		preTx := rapid.IntRange(0, 2).Draw(t, "pre_tx") == 0
		if preTx {
			c.Ops = append(c.Ops, c18Op{K: "begin"})
			inTx = true
		}
		for j := rapid.IntRange(1, 2).Draw(t, "pre_roles"); j > 0; j-- {
			r := rapid.IntRange(0, c18Roles-1).Draw(t, "pre_r")
			roleLive[r] = true
			c.Ops = append(c.Ops, c18Op{K: "mkrole", R: r})
		}
		for j := rapid.IntRange(1, 3).Draw(t, "pre_pols"); j > 0; j-- {
			p := rapid.IntRange(0, c18Policies-1).Draw(t, "pre_p")
			op := c18Op{K: "mkpol", Ps: []int{p}, Acts: []int{rapid.IntRange(0, 3).Draw(t, "pre_a")}}
			if rapid.IntRange(0, 2).Draw(t, "pre_a2") == 0 {
				op.Acts = append(op.Acts, rapid.IntRange(0, 3).Draw(t, "pre_a3"))
			}
			for q := rapid.IntRange(1, 2).Draw(t, "pre_nobj"); q > 0; q-- {
				op.Objs = append(op.Objs, obj("pre_o"))
			}
			polLive[p] = true
			c.Ops = append(c.Ops, op)
			c.Ops = append(c.Ops, c18Op{K: "attach", R: pickRole("pre_at_r"), Ps: []int{p}})
		}
		for j := rapid.IntRange(1, 3).Draw(t, "pre_assigns"); j > 0; j-- {
			c.Ops = append(c.Ops, c18Op{K: "assign", R: pickRole("pre_as_r"), S: rapid.IntRange(0, 2).Draw(t, "pre_as_s"), Salt: rapid.IntRange(0, 1<<16).Draw(t, "pre_salt")})
		}
		if preTx && rapid.IntRange(0, 1).Draw(t, "pre_commit") == 0 {
			c.Ops = append(c.Ops, c18Op{K: "commit"})
			inTx = false
		}
	}
	for i := 0; i < n; i++ {
		salt := rapid.IntRange(0, 1<<16).Draw(t, "salt")
		k := rapid.IntRange(0, 99).Draw(t, "k")
		switch {
		case k < 9:
			if !inTx {
				c.Ops = append(c.Ops, c18Op{K: "begin", Salt: salt})
				inTx = true
			} else {
				kind := "commit"
				if rapid.IntRange(0, 2).Draw(t, "abort") == 0 {
					kind = "abort"
				}
				c.Ops = append(c.Ops, c18Op{K: kind, Salt: salt})
				inTx = false
			}
		case k < 20:
			r := rapid.IntRange(0, c18Roles-1).Draw(t, "mkrole")
			roleLive[r] = true
			c.Ops = append(c.Ops, c18Op{K: "mkrole", R: r, Salt: salt})
		case k < 34:
			p := rapid.IntRange(0, c18Policies-1).Draw(t, "mkpol")
			op := c18Op{K: "mkpol", Ps: []int{p}, Salt: salt}
			switch rapid.IntRange(0, 9).Draw(t, "actmode") {
			case 0:
				// no actions at all
			case 1, 2:
				op.Acts = []int{0, 1, 2, 3}
			case 3, 4, 5:
				op.Acts = []int{rapid.IntRange(0, 4).Draw(t, "a1"), rapid.IntRange(0, 4).Draw(t, "a2")}
			default:
				op.Acts = []int{rapid.IntRange(0, 3).Draw(t, "a")}
			}
			for j := rapid.IntRange(0, 3).Draw(t, "nobj"); j > 0; j-- {
				op.Objs = append(op.Objs, obj("po"))
			}
			polLive[p] = true
			c.Ops = append(c.Ops, op)
		case k < 48:
			op := c18Op{K: "attach", R: pickRole("at_r"), Ps: []int{pickPol("at_p")}, Salt: salt}
			if rapid.IntRange(0, 3).Draw(t, "multi") == 0 {
				op.Ps = append(op.Ps, pickPol("at_p2"))
			}
			c.Ops = append(c.Ops, op)
		case k < 62:
			c.Ops = append(c.Ops, c18Op{K: "assign", R: pickRole("as_r"), S: rapid.IntRange(0, c18Subjects-2).Draw(t, "as_s"), Salt: salt})
		case k < 70:
			c.Ops = append(c.Ops, c18Op{K: "unassign", R: pickRole("un_r"), S: rapid.IntRange(0, c18Subjects-2).Draw(t, "un_s"), Salt: salt})
		case k < 77:
			r := pickRole("rmrole")
			was := roleLive[r]
			roleLive[r] = false
			op := c18Op{K: "rmrole", R: r, Salt: salt, Guarded: rapid.IntRange(0, 2).Draw(t, "guarded") == 0}
			if op.Guarded && r == 0 {
				roleLive[r] = was // refused
			}
			c.Ops = append(c.Ops, op)
		case k < 84:
			p := pickPol("rmpol")
			polLive[p] = false
			c.Ops = append(c.Ops, c18Op{K: "rmpol", Ps: []int{p}, Salt: salt})
		case k < 87:
			c.Ops = append(c.Ops, c18Op{K: "defsubj", S: 3, Salt: salt})
		case k < 90:
			// a subject and a policy filed under the same parent that is NOT a role (a
			// group): changes no outcome
			c.Ops = append(c.Ops, c18Op{K: "file", R: rapid.IntRange(0, 1).Draw(t, "folder"), S: rapid.IntRange(0, c18Subjects-2).Draw(t, "fl_s"), Ps: []int{pickPol("fl_p")}, Salt: salt})
		case k < 98:
			op := c18Op{K: "req", S: rapid.IntRange(0, c18Subjects-1).Draw(t, "rq_s"), Act: rapid.IntRange(0, len(c18Actions)-1).Draw(t, "rq_a"), Salt: salt}
			for j := rapid.IntRange(0, 4).Draw(t, "rq_n"); j > 0; j-- {
				op.Objs = append(op.Objs, obj("ro"))
			}
			c.Ops = append(c.Ops, op)
		default:
			if !inTx {
				c.Ops = append(c.Ops, c18Op{K: "reopen", Salt: salt})
			}
		}
	}
	if inTx {
		kind := "commit"
		if rapid.IntRange(0, 2).Draw(t, "abort_end") == 0 {
			kind = "abort"
		}
		c.Ops = append(c.Ops, c18Op{K: kind})
	}
	return c
}

// ---------------------------------------------------------------------------------------
// reference model (written from the statement) and a shadow of what the store holds

type c18Pol struct {
	acts map[int]bool
	objs map[c18Obj]bool
}

func (p c18Pol) String() string {
	var a, o []string
	for i := range c18Actions {
		if p.acts[i] {
			a = append(a, string(c18Actions[i]))
		}
	}
	for _, u := range c18Universe {
		if p.objs[u] {
			o = append(o, u.String())
		}
	}
	return "{" + strings.Join(a, ",") + " on " + strings.Join(o, ",") + "}"
}

type c18Edge struct{ a, b int } // (role, subject) or (role, policy)

type c18State struct {
	// reference: plain sets
	roles  map[int]bool
	pols   map[int]c18Pol
	assign map[c18Edge]bool // role -> subject
	attach map[c18Edge]bool // role -> policy
	subj   map[int]bool     // subjects that have been defined
	// shadow: rows and graph entries the store is known to hold (only used to name the
	// cause of a divergence in the failure signature, never as the oracle)
	xRoleRow map[int]bool
	xPolRow  map[int]bool
	xAssign  map[c18Edge]bool
	xAttach  map[c18Edge]bool
}

func newC18State() *c18State {
	return &c18State{roles: map[int]bool{}, pols: map[int]c18Pol{}, assign: map[c18Edge]bool{}, attach: map[c18Edge]bool{}, subj: map[int]bool{},
		xRoleRow: map[int]bool{}, xPolRow: map[int]bool{}, xAssign: map[c18Edge]bool{}, xAttach: map[c18Edge]bool{}}
}

func cloneSet[K comparable, V any](m map[K]V) map[K]V {
	o := make(map[K]V, len(m))
	for k, v := range m {
		o[k] = v
	}
	return o
}

func (s *c18State) clone() *c18State {
	return &c18State{roles: cloneSet(s.roles), pols: cloneSet(s.pols), assign: cloneSet(s.assign), attach: cloneSet(s.attach), subj: cloneSet(s.subj),
		xRoleRow: cloneSet(s.xRoleRow), xPolRow: cloneSet(s.xPolRow), xAssign: cloneSet(s.xAssign), xAttach: cloneSet(s.xAttach)}
}

// policies returns the sorted indices of the policies that apply to subject s: attached
// to a role currently assigned to s.
func (s *c18State) policies(subj int) []int {
	var out []int
	for p := 0; p < c18Policies; p++ {
		if _, ok := s.pols[p]; !ok {
			continue
		}
		for r := 0; r < c18Roles; r++ {
			if s.roles[r] && s.assign[c18Edge{r, subj}] && s.attach[c18Edge{r, p}] {
				out = append(out, p)
				break
			}
		}
	}
	return out
}

func c18Covers(p c18Pol, act int, o c18Obj) (byType, byExact bool) {
	if !p.acts[act] {
		return false, false
	}
	return p.objs[c18Obj{o.T, 0}], p.objs[o]
}

// permitted is the statement: every requested object is covered, by type or by exact
// identity, by some policy that grants the action and is attached to a role currently
// assigned to the subject.
func (s *c18State) permitted(subj, act int, objs []c18Obj) bool {
	ps := s.policies(subj)
	for _, o := range objs {
		covered := false
		for _, p := range ps {
			if t, e := c18Covers(s.pols[p], act, o); t || e {
				covered = true
				break
			}
		}
		if !covered {
			return false
		}
	}
	return true
}

// storePolicies is what the store's role/policy graph yields for subj if entries are
// followed regardless of whether the reference still recognises them. It is only used to
// decide whether a divergence is the recorded stale-graph finding or something new.
func (s *c18State) storePolicies(subj int) []int {
	var out []int
	for p := 0; p < c18Policies; p++ {
		if !s.xPolRow[p] {
			continue
		}
		for r := 0; r < c18Roles; r++ {
			if s.xAssign[c18Edge{r, subj}] && s.xAttach[c18Edge{r, p}] {
				out = append(out, p)
				break
			}
		}
	}
	return out
}

func (s *c18State) permittedWith(ps []int, act int, objs []c18Obj) bool {
	for _, o := range objs {
		covered := false
		for _, p := range ps {
			if t, e := c18Covers(s.pols[p], act, o); t || e {
				covered = true
				break
			}
		}
		if !covered {
			return false
		}
	}
	return true
}

// stale lists, for subject subj, which entries of the store's role/policy graph the
// reference no longer (or never) recognises; it names the cause in a signature.
func (s *c18State) stale(subj int) []string {
	set := map[string]bool{}
	for r := 0; r < c18Roles; r++ {
		if !s.xAssign[c18Edge{r, subj}] {
			continue
		}
		switch {
		case !s.xRoleRow[r]:
			set["deleted-role-still-assigned"] = true
		case !s.assign[c18Edge{r, subj}]:
			set["recreated-role-inherits-assignment"] = true
		}
		for p := 0; p < c18Policies; p++ {
			if !s.xAttach[c18Edge{r, p}] {
				continue
			}
			// (a deleted policy's entry is harmless: resolution drops policies without a row)
			if s.xPolRow[p] && !s.attach[c18Edge{r, p}] && s.xRoleRow[r] {
				set["recreated-inherits-attachment"] = true
			}
		}
	}
	var out []string
	for k := range set {
		out = append(out, k)
	}
	sort.Strings(out)
	return out
}

// ---------------------------------------------------------------------------------------
// world: the real services over an in-memory store

type c18World struct {
	ctx  context.Context
	kv   xkv.DB
	db   *gorp.DB
	otg  *ontology.Ontology
	srch *search.Index
	grp  *group.Service
	auth *auth.Service
	usr  *user.Service
	svc  *rbac.Service
}

func (w *c18World) open() (err error) {
	w.db = gorp.Wrap(w.kv)
	if w.otg, err = ontology.Open(w.ctx, ontology.Config{DB: w.db}); err != nil {
		return err
	}
	if w.srch, err = search.Open(); err != nil {
		return err
	}
	if w.grp, err = group.OpenService(w.ctx, group.ServiceConfig{DB: w.db, Ontology: w.otg, Search: w.srch}); err != nil {
		return err
	}
	if w.auth, err = auth.OpenService(w.ctx, auth.ServiceConfig{DB: w.db}); err != nil {
		return err
	}
	if w.usr, err = user.OpenService(w.ctx, user.ServiceConfig{DB: w.db, Ontology: w.otg, Group: w.grp, Search: w.srch, Auth: w.auth}); err != nil {
		return err
	}
	w.svc, err = rbac.OpenService(w.ctx, rbac.ServiceConfig{DB: w.db, Ontology: w.otg, Group: w.grp, Search: w.srch, User: w.usr})
	return err
}

// closeServices closes everything except the kv store.
func (w *c18World) closeServices() error {
	var err error
	if w.svc != nil {
		err = errors.Combine(err, w.svc.Close())
	}
	if w.usr != nil {
		err = errors.Combine(err, w.usr.Close())
	}
	if w.auth != nil {
		err = errors.Combine(err, w.auth.Close())
	}
	if w.grp != nil {
		err = errors.Combine(err, w.grp.Close())
	}
	if w.srch != nil {
		err = errors.Combine(err, w.srch.Close())
	}
	if w.otg != nil {
		err = errors.Combine(err, w.otg.Close())
	}
	w.svc, w.usr, w.auth, w.grp, w.srch, w.otg = nil, nil, nil, nil, nil, nil
	return err
}

func c18ErrKind(err error) string {
	switch {
	case err == nil:
		return "nil"
	case errors.Is(err, access.ErrDenied):
		return "denied"
	case errors.Is(err, query.ErrNotFound):
		return "not-found"
	case errors.Is(err, validate.ErrValidation):
		return "validation"
	default:
		return "other"
	}
}

var c18PastStale = os.Getenv("VERIF_C18_PAST_STALE") != ""

type c18View struct {
	name    string
	st      *c18State
	tx      gorp.Tx // nil = committed view
	service bool    // use Service.Enforce instead of NewEnforcer(tx).Enforce
}

func runC18(t *testing.T, c c18Case, st *drv.Stats) (fail *drv.Failure) {
	ctx := context.Background()
	// the built-in roles and policies are keyed by uuid.New(); make them a function of
	// nothing but the case
	uuid.SetRand(rand.New(rand.NewSource(18)))
	defer uuid.SetRand(nil)
	w := &c18World{ctx: ctx, kv: memkv.New()}
	defer func() {
		cerr := w.closeServices()
		cerr = errors.Combine(cerr, w.kv.Close())
		if cerr != nil && fail == nil {
			fail = drv.Failf("unexpected-error", "close", "close: %v", cerr)
		}
	}()
	if err := w.open(); err != nil {
		return drv.Failf("unexpected-error", "open", "open: %v", err)
	}
	committed := newC18State()
	for _, s := range []int{0, 1, 2, 4} {
		if err := w.otg.NewWriter(nil).DefineResource(ctx, c18SubjIDs[s]); err != nil {
			return drv.Failf("unexpected-error", "define-subject", "define subject: %v", err)
		}
		committed.subj[s] = true
	}
	var (
		tx              gorp.Tx
		txState         *c18State
		permits, denies int
		txChanged       bool
	)
	defer func() {
		if tx != nil {
			_ = tx.Close()
		}
	}()
	cur := func() *c18State {
		if tx != nil {
			return txState
		}
		return committed
	}
	views := func() []c18View {
		if tx != nil {
			return []c18View{
				{name: "in-tx", st: txState, tx: tx},
				{name: "outside-open-tx", st: committed, service: true},
				{name: "outside-open-tx/enforcer", st: committed},
			}
		}
		return []c18View{{name: "committed", st: committed, service: true}, {name: "committed/enforcer", st: committed}}
	}

	// known reports whether f is a recorded finding the run may continue past
	// trace: every observed outcome (request results, policy sets, operation errors)
	// feeds the case hash, so the determinism self-test compares behaviour, not only
	// the script
	trace := fnv.New64a()
	note := func(parts ...any) { fmt.Fprintln(trace, parts...) }
	known := func(f *drv.Failure) bool {
		if !strings.HasPrefix(f.Sig, "stale-graph:") {
			return false
		}
		if c18PastStale {
			// development aid: explore beyond the stale-graph finding before it is recorded
			st.Probe("past:" + f.Class + ":" + f.Sig)
			return true
		}
		return st.IsKnown(f)
	}

	checkReq := func(what string, v c18View, subj, act int, objs []c18Obj) *drv.Failure {
		req := access.Request{Subject: c18SubjIDs[subj], Action: c18Actions[act]}
		for _, o := range objs {
			req.Objects = append(req.Objects, o.id())
		}
		want := v.st.permitted(subj, act, objs)
		var err error
		if v.service {
			err = w.svc.Enforce(ctx, req)
		} else {
			err = w.svc.NewEnforcer(v.tx).Enforce(ctx, req)
		}
		got := err == nil
		note("req", v.name, subj, act, len(objs), c18ErrKind(err))
		if len(objs) == 0 && !v.st.subj[subj] {
			// the statement both permits the empty request (every object is covered,
			// vacuously) and denies every request of an unknown subject: not judged
			st.Inconcl("empty_request_of_unknown_subject_" + c18ErrKind(err))
			return nil
		}
		if got == want {
			switch {
			case want && len(objs) == 0:
				st.Probe("permit_empty_object_list")
			case want:
				permits++
				st.Probe("permit")
				ps := v.st.policies(subj)
				usedType, usedExact := false, false
				used := map[int]bool{}
				for _, o := range objs {
					for _, p := range ps {
						if ty, ex := c18Covers(v.st.pols[p], act, o); ty || ex {
							used[p] = true
							usedType = usedType || ty
							usedExact = usedExact || (ex && o.K != 0 && !ty)
							break
						}
					}
				}
				if usedType {
					st.Probe("permit_by_type")
				}
				if usedExact {
					st.Probe("permit_by_exact_identity_only")
				}
				if len(used) > 1 {
					st.Probe("permit_objects_covered_by_different_policies")
				}
			default:
				denies++
				st.Probe("deny")
				if !errors.Is(err, access.ErrDenied) {
					st.Probe("deny_reported_as_" + c18ErrKind(err))
				}
				ps := v.st.policies(subj)
				switch {
				case !v.st.subj[subj]:
					st.Probe("deny_unknown_subject")
				case len(ps) == 0:
					st.Probe("deny_subject_without_policies")
				default:
					cov, typeOnlyMiss, actMiss := 0, false, false
					for _, o := range objs {
						if v.st.permitted(subj, act, []c18Obj{o}) {
							cov++
							continue
						}
						for _, p := range ps {
							pol := v.st.pols[p]
							if pol.objs[o] || pol.objs[c18Obj{o.T, 0}] {
								actMiss = true // covered object-wise, action missing
							}
							for po := range pol.objs {
								if po.T == o.T && po.K != 0 && po.K != o.K && pol.acts[act] {
									typeOnlyMiss = true // same type, other instance
								}
							}
						}
					}
					if cov > 0 {
						st.Probe("deny_mixed_covered_and_uncovered")
					}
					if typeOnlyMiss {
						st.Probe("deny_same_type_other_instance")
					}
					if actMiss {
						st.Probe("deny_action_not_granted")
					}
				}
			}
			return nil
		}
		dir := "granted-but-not-covered"
		if !got {
			dir = "refused(" + c18ErrKind(err) + ")-but-covered"
		}
		view := "committed"
		if v.tx != nil {
			view = "in-tx"
		} else if tx != nil {
			view = "outside-open-tx"
		}
		sig := dir + ":" + view
		// attributed to the stale-graph finding only if the outcome is exactly what
		// following the stale entries predicts
		if causes := v.st.stale(subj); len(causes) > 0 && v.st.permittedWith(v.st.storePolicies(subj), act, objs) == got && (got || errors.Is(err, access.ErrDenied)) {
			sig = "stale-graph:" + strings.Join(causes, "+") + ":" + sig
		}
		f := drv.Failf("access-mismatch", sig, "%s: view %s: Enforce(subject=%s action=%s objects=%v) = %v, reference says permitted=%v (subject's policies in the reference: %s)",
			what, v.name, c18SubjIDs[subj], c18Actions[act], objs, err, want, c18Describe(v.st, subj))
		if known(f) {
			return nil
		}
		return f
	}

	checkPolicies := func(what string, v c18View, subj int) *drv.Failure {
		got, err := w.svc.RetrievePoliciesForSubject(ctx, c18SubjIDs[subj], v.tx)
		want := v.st.policies(subj)
		causes := v.st.stale(subj)
		prefix := ""
		if len(causes) > 0 {
			prefix = "stale-graph:" + strings.Join(causes, "+") + ":"
		}
		view := "committed"
		if v.tx != nil {
			view = "in-tx"
		} else if tx != nil {
			view = "outside-open-tx"
		}
		note("pols", v.name, subj, len(got), c18ErrKind(err))
		if err != nil {
			// the statement is about requests; an error here is judged through Enforce
			st.Probe("retrieve_policies_error_" + c18ErrKind(err))
			return nil
		}
		gotSet := map[int]policy.Policy{}
		for _, p := range got {
			idx := -1
			for i := 0; i < c18Policies; i++ {
				if p.Key == c18Key(i) {
					idx = i
				}
			}
			if idx < 0 {
				f := drv.Failf("policy-set-mismatch", prefix+"foreign-policy:"+view, "%s: view %s: RetrievePoliciesForSubject(%s) returned a policy outside the case: %s %q", what, v.name, c18SubjIDs[subj], p.Key, p.Name)
				if known(f) {
					continue
				}
				return f
			}
			gotSet[idx] = p
		}
		var gotIdx []int
		for i := range gotSet {
			gotIdx = append(gotIdx, i)
		}
		sort.Ints(gotIdx)
		if fmt.Sprint(gotIdx) != fmt.Sprint(v.st.storePolicies(subj)) {
			prefix = "" // not what following the stale entries predicts: something new
		}
		if fmt.Sprint(gotIdx) != fmt.Sprint(want) {
			kind := "extra"
			if len(gotIdx) < len(want) {
				kind = "missing"
			}
			f := drv.Failf("policy-set-mismatch", prefix+kind+":"+view, "%s: view %s: RetrievePoliciesForSubject(%s) = policies %v, reference says %v (%s)", what, v.name, c18SubjIDs[subj], gotIdx, want, c18Describe(v.st, subj))
			if known(f) {
				return nil
			}
			return f
		}
		for _, i := range want {
			p, ref := gotSet[i], v.st.pols[i]
			ga, gobj := map[string]bool{}, map[string]bool{}
			for _, a := range p.Actions {
				ga[string(a)] = true
			}
			for _, o := range p.Objects {
				gobj[o.String()] = true
			}
			wa, wobj := map[string]bool{}, map[string]bool{}
			for a := range ref.acts {
				wa[string(c18Actions[a])] = true
			}
			for o := range ref.objs {
				wobj[o.id().String()] = true
			}
			if !c18SameSet(ga, wa) || !c18SameSet(gobj, wobj) {
				f := drv.Failf("policy-set-mismatch", prefix+"content:"+view, "%s: view %s: policy %d for %s is actions=%v objects=%v, reference %s", what, v.name, i, c18SubjIDs[subj], p.Actions, p.Objects, ref)
				if known(f) {
					return nil
				}
				return f
			}
		}
		if len(want) > 0 {
			st.Probe("policy_set_nonempty_agrees")
		}
		if len(want) > 1 {
			st.Probe("policy_set_several_policies")
		}
		return nil
	}

	// battery: for every view and subject compare the policy set, and for the actions
	// derive from the reference the largest covered request (must be permitted), that
	// request with one uncovered object inserted (must be denied), a lone uncovered
	// object and the empty request.
	battery := func(what string, salt, focus int) *drv.Failure {
		for _, v := range views() {
			for subj := 0; subj < c18Subjects; subj++ {
				ps := v.st.policies(subj)
				acts := []int{(salt + subj) % len(c18Actions)}
				if len(ps) > 0 || len(v.st.stale(subj)) > 0 || subj == focus {
					acts = []int{0, 1, 2, 3, 4}
				}
				for _, act := range acts {
					var cov, unc []c18Obj
					for _, o := range c18Universe {
						if v.st.permitted(subj, act, []c18Obj{o}) {
							cov = append(cov, o)
						} else {
							unc = append(unc, o)
						}
					}
					if len(cov) > 0 {
						if f := checkReq(what, v, subj, act, cov); f != nil {
							return f
						}
					}
					// near misses: uncovered objects that share the type or the key of a
					// covered one come first
					var near, far []c18Obj
					for _, u := range unc {
						isNear := false
						for _, co := range cov {
							if co.T == u.T || (co.K == u.K && co.K != 0) {
								isNear = true
							}
						}
						if isNear {
							near = append(near, u)
						} else {
							far = append(far, u)
						}
					}
					picks := []c18Obj{}
					if len(near) > 0 {
						picks = append(picks, near[salt%len(near)])
					}
					if len(far) > 0 {
						picks = append(picks, far[(salt/3)%len(far)])
					}
					// every uncovered object that some existing policy would grant for this
					// action if it were (wrongly) reachable from the subject: policies of
					// other roles, of unassigned or deleted roles, unattached policies
					for _, u := range unc {
						elsewhere := false
						for p := 0; p < c18Policies; p++ {
							if pol, ok := v.st.pols[p]; ok {
								if ty, ex := c18Covers(pol, act, u); ty || ex {
									elsewhere = true
								}
							}
						}
						if elsewhere {
							st.Probe("deny_object_granted_only_by_unreachable_policy")
							if f := checkReq(what, v, subj, act, []c18Obj{u}); f != nil {
								return f
							}
						}
					}
					for pi, u := range picks {
						pos := 0
						if len(cov) > 0 {
							pos = (salt/7 + pi) % (len(cov) + 1)
						}
						objs := append(append(append([]c18Obj{}, cov[:pos]...), u), cov[pos:]...)
						if f := checkReq(what, v, subj, act, objs); f != nil {
							return f
						}
						if len(cov) > 0 && pi == 0 {
							if f := checkReq(what, v, subj, act, []c18Obj{u}); f != nil {
								return f
							}
						}
					}
				}
				if f := checkReq(what, v, subj, salt%len(c18Actions), nil); f != nil {
					return f
				}
				if f := checkPolicies(what, v, subj); f != nil {
					return f
				}
			}
		}
		if tx != nil {
			for subj := 0; subj < c18Subjects; subj++ {
				if fmt.Sprint(txState.policies(subj)) != fmt.Sprint(committed.policies(subj)) {
					st.Probe("tx_view_differs_from_committed_view")
					break
				}
			}
		}
		return nil
	}

	if f := battery("initial", 0, -1); f != nil {
		return f
	}
	var drawn []c18Op
	for i, op := range c.Ops {
		what := fmt.Sprintf("after op %d %s", i, c18OpString(op))
		s := cur()
		before := make([]string, c18Subjects)
		for subj := range before {
			before[subj] = fmt.Sprint(s.policies(subj), c18Describe(s, subj))
		}
		refuse := func(err error) *drv.Failure {
			return drv.Failf("legal-op-refused", op.K+":"+c18ErrKind(err), "op %d %s refused although the reference considers it legal: %v", i, c18OpString(op), err)
		}
		switch op.K {
		case "begin":
			if tx != nil {
				continue
			}
			tx = w.db.OpenTx()
			txState = committed.clone()
			txChanged = false
		case "commit":
			if tx == nil {
				continue
			}
			if err := tx.Commit(ctx); err != nil {
				return drv.Failf("unexpected-error", "commit", "op %d commit: %v", i, err)
			}
			if err := tx.Close(); err != nil {
				return drv.Failf("unexpected-error", "close-tx", "op %d close tx: %v", i, err)
			}
			committed, tx, txState = txState, nil, nil
			if txChanged {
				st.Probe("commit_with_changes")
			}
		case "abort":
			if tx == nil {
				continue
			}
			if err := tx.Close(); err != nil {
				return drv.Failf("unexpected-error", "close-tx", "op %d abort: %v", i, err)
			}
			tx, txState = nil, nil
			if txChanged {
				st.Probe("abort_with_changes")
			}
		case "reopen":
			if tx != nil {
				continue
			}
			if err := w.closeServices(); err != nil {
				return drv.Failf("unexpected-error", "reopen-close", "op %d close: %v", i, err)
			}
			if err := w.open(); err != nil {
				return drv.Failf("unexpected-error", "reopen", "op %d reopen: %v", i, err)
			}
			st.Probe("reopen")
		case "mkrole":
			if !s.roles[op.R] && s.xRoleRow[op.R] == false && c18HasRoleEdges(s, op.R) {
				st.Probe("role_recreated_after_delete")
			}
			// role 0 is a built-in (internal) role: only a writer that may touch internal
			// roles can delete it
			r := role.Role{Key: c18Key(op.R), Name: "r" + strconv.Itoa(op.R), Internal: op.R == 0}
			if err := w.svc.Role.NewWriter(tx, true).Create(ctx, &r); err != nil {
				return refuse(err)
			}
			s.roles[op.R], s.xRoleRow[op.R] = true, true
		case "rmrole":
			if op.Guarded && op.R == 0 && s.roles[op.R] {
				// refused: the role, its assignments and its policies stay as they are
				if err := w.svc.Role.NewWriter(tx, false).Delete(ctx, c18Key(op.R)); err == nil {
					return drv.Failf("internal-role-deleted", "guarded-writer", "op %d %s: a writer that may not touch internal roles deleted the built-in role", i, c18OpString(op))
				}
				st.Probe("delete_of_internal_role_refused")
				break
			}
			err := w.svc.Role.NewWriter(tx, !op.Guarded).Delete(ctx, c18Key(op.R))
			if err != nil {
				if s.roles[op.R] {
					return refuse(err)
				}
				st.Probe("op_error_rmrole_" + c18ErrKind(err))
				break
			}
			if s.roles[op.R] {
				delete(s.roles, op.R)
				for e := range s.assign {
					if e.a == op.R {
						delete(s.assign, e)
						st.Probe("deleted_role_was_assigned")
					}
				}
				for e := range s.attach {
					if e.a == op.R {
						delete(s.attach, e)
					}
				}
			}
			delete(s.xRoleRow, op.R)
		case "mkpol":
			p := op.Ps[0]
			pol := policy.Policy{Key: c18Key(p), Name: "p" + strconv.Itoa(p)}
			ref := c18Pol{acts: map[int]bool{}, objs: map[c18Obj]bool{}}
			for _, a := range op.Acts {
				pol.Actions = append(pol.Actions, c18Actions[a])
				ref.acts[a] = true
			}
			for _, o := range op.Objs {
				pol.Objects = append(pol.Objects, o.id())
				ref.objs[o] = true
			}
			if _, live := s.pols[p]; live {
				st.Probe("policy_overwritten")
			} else if c18HasPolEdges(s, p) {
				st.Probe("policy_recreated_after_delete")
			}
			if err := w.svc.Policy.NewWriter(tx, true).Create(ctx, &pol); err != nil {
				return refuse(err)
			}
			s.pols[p] = ref
			s.xPolRow[p] = true
		case "rmpol":
			p := op.Ps[0]
			_, live := s.pols[p]
			err := w.svc.Policy.NewWriter(tx, true).Delete(ctx, c18Key(p))
			if err != nil {
				if live {
					return refuse(err)
				}
				st.Probe("op_error_rmpol_" + c18ErrKind(err))
				break
			}
			if live {
				delete(s.pols, p)
				for e := range s.attach {
					if e.b == p {
						delete(s.attach, e)
						st.Probe("deleted_policy_was_attached")
					}
				}
			}
			delete(s.xPolRow, p)
		case "attach":
			legal := s.roles[op.R]
			for _, p := range op.Ps {
				if _, ok := s.pols[p]; !ok {
					legal = false
				}
			}
			groups := [][]int{op.Ps}
			if !legal && len(op.Ps) > 1 {
				// a batch that may fail half-way is issued one policy at a time
				groups = nil
				for _, p := range op.Ps {
					groups = append(groups, []int{p})
				}
			}
			for _, g := range groups {
				keys := make([]policy.Key, len(g))
				ok := s.roles[op.R]
				for j, p := range g {
					keys[j] = c18Key(p)
					if _, live := s.pols[p]; !live {
						ok = false
					}
				}
				err := w.svc.Policy.NewWriter(tx, true).SetOnRole(ctx, c18Key(op.R), keys...)
				if err != nil {
					if ok {
						return refuse(err)
					}
					st.Probe("op_error_attach_" + c18ErrKind(err))
					continue
				}
				for _, p := range g {
					s.xAttach[c18Edge{op.R, p}] = true
					if ok {
						s.attach[c18Edge{op.R, p}] = true
					} else {
						st.Probe("attach_involving_deleted_accepted")
					}
				}
			}
		case "assign":
			err := w.svc.Role.NewWriter(tx, true).AssignRole(ctx, c18SubjIDs[op.S], c18Key(op.R))
			if err != nil {
				if s.roles[op.R] && s.subj[op.S] {
					return refuse(err)
				}
				st.Probe("op_error_assign_" + c18ErrKind(err))
				break
			}
			s.xAssign[c18Edge{op.R, op.S}] = true
			if s.roles[op.R] {
				s.assign[c18Edge{op.R, op.S}] = true
				if !s.subj[op.S] {
					st.Probe("assign_to_undefined_subject_accepted")
				}
			} else {
				st.Probe("assign_of_deleted_role_accepted")
			}
		case "unassign":
			err := w.svc.Role.NewWriter(tx, true).UnassignRole(ctx, c18SubjIDs[op.S], c18Key(op.R))
			if err != nil {
				if s.assign[c18Edge{op.R, op.S}] {
					return refuse(err)
				}
				st.Probe("op_error_unassign_" + c18ErrKind(err))
				break
			}
			if s.assign[c18Edge{op.R, op.S}] {
				st.Probe("unassign_existing")
			}
			delete(s.assign, c18Edge{op.R, op.S})
			delete(s.xAssign, c18Edge{op.R, op.S})
		case "defsubj":
			if err := w.otg.NewWriter(tx).DefineResource(ctx, c18SubjIDs[op.S]); err != nil {
				return refuse(err)
			}
			s.subj[op.S] = true
		case "file":
			folder := ontology.ID{Type: "group", Key: fmt.Sprintf("00000000-0000-4000-8000-00000000f0%02x", op.R)}
			wr := w.otg.NewWriter(tx)
			if err := wr.DefineResource(ctx, folder); err != nil {
				return refuse(err)
			}
			// a missing subject or policy is refused by the ontology; nothing changes
			if err := wr.DefineRelationship(ctx, folder, ontology.RelationshipTypeParentOf, c18SubjIDs[op.S]); err != nil {
				st.Probe("op_error_file_subject_" + c18ErrKind(err))
			} else {
				st.Probe("subject_filed_under_non_role_parent")
			}
			for _, p := range op.Ps {
				if err := wr.DefineRelationship(ctx, folder, ontology.RelationshipTypeParentOf, policy.OntologyID(c18Key(p))); err != nil {
					st.Probe("op_error_file_policy_" + c18ErrKind(err))
				} else {
					st.Probe("policy_filed_under_non_role_parent")
				}
			}
		case "req":
			drawn = append(drawn, op)
			if len(drawn) > 6 {
				drawn = drawn[1:]
			}
		default:
			return drv.Failf("harness", "unknown-op", "unknown op %q", op.K)
		}
		note("op", i, op.K, len(s.roles), len(s.pols), len(s.assign), len(s.attach), len(s.xAssign), len(s.xAttach))
		if s2 := cur(); s2 == s {
			for subj := range before {
				if before[subj] != fmt.Sprint(s.policies(subj), c18Describe(s, subj)) {
					st.Probe("outcome_basis_changed_by_" + op.K)
					if tx != nil {
						txChanged = true
					}
					break
				}
			}
		}
		focus := -1
		if op.K == "assign" || op.K == "unassign" || op.K == "defsubj" {
			focus = op.S
		}
		if f := battery(what, op.Salt, focus); f != nil {
			return f
		}
		for _, rq := range drawn {
			for _, v := range views() {
				if f := checkReq(what+" (drawn request)", v, rq.S, rq.Act, rq.Objs); f != nil {
					return f
				}
			}
		}
	}
	b, _ := json.Marshal(c)
	st.Case(drv.Hash64(string(b), strconv.FormatUint(trace.Sum64(), 16)), permits > 0 && denies > 0)
	return nil
}

func c18HasRoleEdges(s *c18State, r int) bool {
	for e := range s.xAssign {
		if e.a == r {
			return true
		}
	}
	for e := range s.xAttach {
		if e.a == r {
			return true
		}
	}
	return false
}

func c18HasPolEdges(s *c18State, p int) bool {
	for e := range s.xAttach {
		if e.b == p {
			return true
		}
	}
	return false
}

func c18SameSet(a, b map[string]bool) bool {
	if len(a) != len(b) {
		return false
	}
	for k := range a {
		if !b[k] {
			return false
		}
	}
	return true
}

func c18Describe(s *c18State, subj int) string {
	var parts []string
	for r := 0; r < c18Roles; r++ {
		if !s.roles[r] || !s.assign[c18Edge{r, subj}] {
			continue
		}
		var ps []string
		for p := 0; p < c18Policies; p++ {
			if pol, ok := s.pols[p]; ok && s.attach[c18Edge{r, p}] {
				ps = append(ps, "p"+strconv.Itoa(p)+pol.String())
			}
		}
		parts = append(parts, "r"+strconv.Itoa(r)+"["+strings.Join(ps, " ")+"]")
	}
	if len(parts) == 0 {
		return "none"
	}
	return strings.Join(parts, " ")
}

func c18OpString(op c18Op) string {
	switch op.K {
	case "mkrole", "rmrole":
		return fmt.Sprintf("%s r%d", op.K, op.R)
	case "mkpol":
		var a []string
		for _, x := range op.Acts {
			a = append(a, string(c18Actions[x]))
		}
		return fmt.Sprintf("mkpol p%d actions=%v objects=%v", op.Ps[0], a, op.Objs)
	case "rmpol":
		return fmt.Sprintf("rmpol p%d", op.Ps[0])
	case "attach":
		return fmt.Sprintf("attach r%d <- p%v", op.R, op.Ps)
	case "assign", "unassign":
		return fmt.Sprintf("%s r%d -> %s", op.K, op.R, c18SubjIDs[op.S])
	case "defsubj":
		return "defsubj " + c18SubjIDs[op.S].String()
	case "file":
		return fmt.Sprintf("file %s and policies %v under non-role folder %d", c18SubjIDs[op.S], op.Ps, op.R)
	case "req":
		return fmt.Sprintf("req %s %s %v", c18SubjIDs[op.S], c18Actions[op.Act], op.Objs)
	}
	return op.K
}
