package ontology

// Injected by /verif via `go test -overlay`; never part of the repository.
// C16: the ontology graph stays acyclic, exact and free of dangling edges.
//
// A case is a rapid-generated history of define/delete resource and define/delete
// relationship operations (single and one-to-many forms) issued through Ontology.NewWriter
// directly on the database or inside up to three gorp transactions that are committed or
// aborted (one writer at a time, or overlapping writers), over a small pool of resource
// identifiers whose "type:key" strings are prefixes/suffixes of one another, interleaved
// with traversal queries (parents by index, parents by scan, children by prefix, forward
// traversers of other relationship types, multi-hop, inside and outside transactions) and
// with reopening the ontology over the same store.
//
// Reference model (written from the property statement): a set of resources, a set of
// (from, type, to) edges, a per-transaction overlay of pending sets/deletes merged over the
// live committed state (the Writer.NewRetrieve contract), and a plain graph search.
//
// Non-trivial case: at least two relationships defined and committed, at least one delete
// that removed something, and at least one traversal query with a non-empty answer.
//
// Findings that are recorded as known are repaired in place (a wrongly refused edge is left
// out of the model, a wrongly accepted edge is deleted again, a descendant walk that cannot
// terminate is not entered) so that the rest of the history is still judged.
//
// Development aids (never set by /verif/bin/check): VERIF_C16_ASSUME=<regexp over
// "class sig"> treats matching failures as known; VERIF_C16_NOGUARD=1 lets a replay enter a
// descendant walk that does not terminate (the process dies of stack exhaustion).

import (
	"context"
	"fmt"
	"iter"
	"os"
	"regexp"
	"sort"
	"strconv"
	"strings"
	"testing"

	"github.com/synnaxlabs/x/errors"
	"github.com/synnaxlabs/x/gorp"
	"github.com/synnaxlabs/x/graph"
	"github.com/synnaxlabs/x/kv/memkv"
	"github.com/synnaxlabs/x/observe"
	"github.com/synnaxlabs/x/query"
	"github.com/synnaxlabs/x/zyn"
	"pgregory.net/rapid"
	"verifsim/drv"
)

func TestVerif(t *testing.T) {
	drv.Main(t, drv.Wrap(drv.Engine[c16Case]{Property: "C16", Name: "c16", Gen: genC16, Run: runC16, BatchChecks: 300}))
}

// ---- case -------------------------------------------------------------------------

type c16ID struct {
	T string `json:"t"`
	K string `json:"k"`
}

// Hop kinds of a traversal query.
const (
	c16HopParentsIndex = 0 // ParentsTraverser (secondary index path)
	c16HopParentsScan  = 1 // ParentsTraverser with Index unset (raw scan path)
	c16HopChildren     = 2 // ChildrenTraverser (key prefix path)
	c16HopFwdBase      = 3 // 3+i: forward traverser of relationship type c16RelTypes[i], built like label.LabelsOntologyTraverser
)

type c16Query struct {
	Starts    []int `json:"starts"`
	Hops      []int `json:"hops,omitempty"`
	Exclude   bool  `json:"exclude,omitempty"`    // ExcludeFieldData(true)
	ViaWriter bool  `json:"via_writer,omitempty"` // Writer.NewRetrieve() instead of Ontology.NewRetrieve()
	Limit     int   `json:"limit,omitempty"`
	Offset    int   `json:"offset,omitempty"`
	TypeFlt   int   `json:"type_flt,omitempty"` // 1+index into the pool: WhereTypes(pool[i].T) on the last clause (observation only)
}

// c16Op kinds: open, commit, abort, defres, defmany, delres, delmany, defrel, defrels,
// delrel, delout, delin, q, desc, has, reopen.
type c16Op struct {
	K  string    `json:"k"`
	Tx int       `json:"tx,omitempty"` // 0: directly on the DB, 1..3: transaction slot
	A  int       `json:"a,omitempty"`  // pool index
	B  []int     `json:"b,omitempty"`  // pool indices
	T  int       `json:"t,omitempty"`  // relationship type index
	Q  *c16Query `json:"q,omitempty"`
}

type c16Case struct {
	Pool        []c16ID `json:"pool"`
	Overlap     bool    `json:"overlap,omitempty"` // several transactions may hold pending writes at once
	FinalCommit bool    `json:"final_commit,omitempty"`
	Ops         []c16Op `json:"ops"`
}

var c16RelTypes = []RelationshipType{RelationshipTypeParentOf, "par", "labeled_by"}

var c16AliasCands = []c16ID{
	{"channel", "1"}, {"channel", "10"}, {"channel", "11"}, {"channel", "01"}, {"channel", "101"},
	{"chan", "1"}, {"chan", "10"}, {"group", "1"}, {"channel", "1:0"}, {"builtin", "root"}, {"group", "11"}, {"xchannel", "1"},
}

var c16PlainCands = []c16ID{
	{"channel", "a"}, {"channel", "b"}, {"group", "c"}, {"group", "d"}, {"chan", "e"}, {"builtin", "root"}, {"channel", "f"}, {"chan", "g"},
}

var c16Kinds = func() []string {
	w := []struct {
		k string
		n int
	}{{"open", 6}, {"commit", 6}, {"abort", 3}, {"defres", 9}, {"defmany", 4}, {"delres", 5}, {"delmany", 1}, {"defrel", 26},
		{"defrels", 6}, {"delrel", 5}, {"delout", 2}, {"delin", 2}, {"q", 18}, {"desc", 4}, {"has", 2}, {"reopen", 1}}
	var out []string
	for _, x := range w {
		for i := 0; i < x.n; i++ {
			out = append(out, x.k)
		}
	}
	return out
}()

func genC16(t *rapid.T) c16Case {
	var c c16Case
	cands := c16PlainCands
	if rapid.IntRange(0, 9).Draw(t, "alias") < 7 {
		cands = c16AliasCands
	}
	for _, i := range rapid.SliceOfNDistinct(rapid.IntRange(0, len(cands)-1), 3, 7, func(i int) int { return i }).Draw(t, "pool") {
		c.Pool = append(c.Pool, cands[i])
	}
	n := len(c.Pool)
	c.Overlap = rapid.IntRange(0, 3).Draw(t, "overlap") == 0
	c.FinalCommit = rapid.Bool().Draw(t, "final_commit")
	allowSelf := rapid.IntRange(0, 3).Draw(t, "self") == 0
	// hot: identifiers already used as relationship endpoints; later operations and
	// queries prefer them so that histories pile up on the same few resources
	var hot []int
	lastTo := -1
	// alive: which identifiers are probably defined (ignores transaction outcomes); keeps
	// most relationship operations on existing resources
	alive := make([]bool, n)
	someAlive := func(l string, want bool) (int, bool) {
		var s []int
		for i, a := range alive {
			if a == want {
				s = append(s, i)
			}
		}
		if len(s) == 0 {
			return 0, false
		}
		return s[rapid.IntRange(0, len(s)-1).Draw(t, l)], true
	}
	id := func(l string) int {
		p := rapid.IntRange(0, 9).Draw(t, l+"_hot")
		if len(hot) > 0 && p < 5 {
			return hot[rapid.IntRange(0, len(hot)-1).Draw(t, l+"_h")]
		}
		if p < 9 {
			if i, ok := someAlive(l+"_alive", true); ok {
				return i
			}
		}
		return rapid.IntRange(0, n-1).Draw(t, l)
	}
	ids := func(l string, lo, hi int) []int {
		k := rapid.IntRange(lo, hi).Draw(t, l+"_n")
		out := make([]int, k)
		for i := range out {
			out[i] = id(l)
		}
		return out
	}
	rt := func() int {
		if rapid.IntRange(0, 9).Draw(t, "rt_p") < 6 {
			return 0
		}
		return rapid.IntRange(0, len(c16RelTypes)-1).Draw(t, "rt")
	}
	var open [4]bool
	cur := 0 // serial mode: the one open transaction
	openSlots := func() []int {
		var s []int
		for i := 1; i <= 3; i++ {
			if open[i] {
				s = append(s, i)
			}
		}
		return s
	}
	wslot := func() int {
		if !c.Overlap {
			return cur
		}
		s := append(openSlots(), 0)
		return s[rapid.IntRange(0, len(s)-1).Draw(t, "wslot")]
	}
	rslot := func() int {
		if !c.Overlap {
			if cur != 0 && rapid.IntRange(0, 3).Draw(t, "rcommitted") == 0 {
				return 0
			}
			return cur
		}
		s := append(openSlots(), 0)
		return s[rapid.IntRange(0, len(s)-1).Draw(t, "rslot")]
	}
	genQ := func() *c16Query {
		q := &c16Query{Starts: ids("q_starts", 1, 3)}
		// 0: no traversal (rare), mostly 1 hop, sometimes 2..4
		nh := 1
		switch h := rapid.IntRange(0, 9).Draw(t, "q_nh"); {
		case h == 0:
			nh = 0
		case h >= 7:
			nh = h - 5
		}
		for i := 0; i < nh; i++ {
			k := rapid.IntRange(0, 9).Draw(t, "q_hop")
			switch {
			case k < 3:
				q.Hops = append(q.Hops, c16HopParentsIndex)
			case k < 5:
				q.Hops = append(q.Hops, c16HopParentsScan)
			case k < 8:
				q.Hops = append(q.Hops, c16HopChildren)
			default:
				q.Hops = append(q.Hops, c16HopFwdBase+rapid.IntRange(0, len(c16RelTypes)-1).Draw(t, "q_ft"))
			}
		}
		q.Exclude = rapid.Bool().Draw(t, "q_ex")
		q.ViaWriter = rapid.Bool().Draw(t, "q_vw")
		if rapid.IntRange(0, 7).Draw(t, "q_lim") == 0 {
			q.Limit = rapid.IntRange(1, 3).Draw(t, "q_limit")
			q.Offset = rapid.IntRange(0, 2).Draw(t, "q_offset")
		}
		if rapid.IntRange(0, 9).Draw(t, "q_tf") == 0 {
			q.TypeFlt = 1 + id("q_tft")
		}
		return q
	}
	// prelude: most of the pool is defined up front so that histories are about edges
	pre := c16Op{K: "defmany", B: rapid.SliceOfNDistinct(rapid.IntRange(0, n-1), n-1, n, func(i int) int { return i }).Draw(t, "pre")}
	c.Ops = append(c.Ops, pre)
	for _, i := range pre.B {
		alive[i] = true
	}
	nops := rapid.IntRange(3, 40).Draw(t, "nops")
	for i := 0; i < nops; i++ {
		k := rapid.SampledFrom(c16Kinds).Draw(t, "k")
		switch k {
		case "open":
			if !c.Overlap {
				if cur != 0 {
					k = "defrel"
					break
				}
				cur = rapid.IntRange(1, 3).Draw(t, "slot")
				open[cur] = true
				c.Ops = append(c.Ops, c16Op{K: "open", Tx: cur})
				continue
			}
			var closed []int
			for s := 1; s <= 3; s++ {
				if !open[s] {
					closed = append(closed, s)
				}
			}
			if len(closed) == 0 {
				k = "defrel"
				break
			}
			s := closed[rapid.IntRange(0, len(closed)-1).Draw(t, "slot")]
			open[s] = true
			c.Ops = append(c.Ops, c16Op{K: "open", Tx: s})
			continue
		case "commit", "abort":
			s := openSlots()
			if len(s) == 0 {
				k = "q"
				break
			}
			x := s[rapid.IntRange(0, len(s)-1).Draw(t, "cslot")]
			open[x] = false
			cur = 0
			c.Ops = append(c.Ops, c16Op{K: k, Tx: x})
			continue
		case "reopen":
			if len(openSlots()) != 0 {
				k = "q"
				break
			}
			c.Ops = append(c.Ops, c16Op{K: "reopen"})
			continue
		}
		switch k {
		case "defres", "delres":
			a := id("a")
			if k == "defres" && rapid.IntRange(0, 9).Draw(t, "revive") < 7 {
				if i, ok := someAlive("dead", false); ok {
					a = i
				}
			}
			alive[a] = k == "defres"
			c.Ops = append(c.Ops, c16Op{K: k, Tx: wslot(), A: a})
		case "defmany", "delmany":
			bs := ids("b", 1, 3)
			if k == "defmany" {
				if i, ok := someAlive("dead", false); ok {
					bs[0] = i
				}
			}
			for _, b := range bs {
				alive[b] = k == "defmany"
			}
			c.Ops = append(c.Ops, c16Op{K: k, Tx: wslot(), B: bs})
		case "defrel", "delrel":
			a, b := id("from"), id("to")
			if k == "defrel" && lastTo >= 0 && rapid.IntRange(0, 3).Draw(t, "chain") == 0 {
				a = lastTo // extend a chain
			}
			if a == b && !allowSelf && k == "defrel" {
				b = (b + 1) % n
			}
			if k == "defrel" {
				hot = append(hot, a, b)
				lastTo = b
			}
			c.Ops = append(c.Ops, c16Op{K: k, Tx: wslot(), A: a, B: []int{b}, T: rt()})
		case "defrels":
			a := id("from")
			bs := ids("tos", 1, 4)
			if !allowSelf {
				for j := range bs {
					if bs[j] == a {
						bs[j] = (a + 1) % n
					}
				}
			}
			hot = append(append(hot, a), bs...)
			c.Ops = append(c.Ops, c16Op{K: k, Tx: wslot(), A: a, B: bs, T: rt()})
		case "delout", "delin":
			c.Ops = append(c.Ops, c16Op{K: k, Tx: wslot(), A: id("a"), T: rt()})
		case "q":
			c.Ops = append(c.Ops, c16Op{K: "q", Tx: rslot(), Q: genQ()})
		case "desc":
			c.Ops = append(c.Ops, c16Op{K: "desc", Tx: rslot(), A: id("a")})
		case "has":
			c.Ops = append(c.Ops, c16Op{K: "has", Tx: rslot(), A: id("a"), B: []int{id("b")}, T: rt()})
		}
	}
	return c
}

// ---- in-memory services ---------------------------------------------------------------

type c16Svc struct {
	observe.Noop[iter.Seq[Change]]
	t ResourceType
}

var _ Service = (*c16Svc)(nil)

func (s *c16Svc) Type() ResourceType { return s.t }
func (s *c16Svc) Schema() zyn.Schema { return zyn.Object(nil) }
func (s *c16Svc) RetrieveResource(_ context.Context, key string, _ gorp.Tx) (Resource, error) {
	return Resource{ID: ID{Type: s.t, Key: key}, Name: "svc"}, nil
}

// ---- reference model ----------------------------------------------------------------

// c16View is the pending state of one open transaction: explicit sets (true) and deletes
// (false) per key, merged over the live committed state when read.
type c16View struct {
	slot  int
	tx    gorp.Tx
	res   map[ID]bool
	rel   map[Relationship]bool
	bad   string // non-empty: the merged view violates the graph invariants because another writer committed underneath
	wrote bool
}

type c16Run struct {
	ctx   context.Context
	c     c16Case
	st    *drv.Stats
	db    *gorp.DB
	o     *Ontology
	pool  []ID
	cres  map[ID]bool
	crel  map[Relationship]bool
	views [4]*c16View
	opIdx int
	opStr string
	// what the case reached
	committedDefs, appliedDeletes, nonEmptyQueries int
	assume                                         *regexp.Regexp
	noGuard                                        bool
	// trace: outcome of every operation (part of the case hash, so that the determinism
	// self-test compares behaviour and not only the script)
	trace strings.Builder
}

func (r *c16Run) hasRes(v *c16View, id ID) bool {
	if v != nil {
		if b, ok := v.res[id]; ok {
			return b
		}
	}
	return r.cres[id]
}

func (r *c16Run) hasRel(v *c16View, rel Relationship) bool {
	if v != nil {
		if b, ok := v.rel[rel]; ok {
			return b
		}
	}
	return r.crel[rel]
}

func (r *c16Run) setRes(v *c16View, id ID) {
	if v == nil {
		r.cres[id] = true
		return
	}
	v.res[id] = true
	v.wrote = true
}

// delRes records a delete only when the key is visible: a gorp delete first retrieves the
// matching entries and deletes what it found.
func (r *c16Run) delRes(v *c16View, id ID) {
	if !r.hasRes(v, id) {
		return
	}
	if v == nil {
		delete(r.cres, id)
		return
	}
	v.res[id] = false
	v.wrote = true
}

func (r *c16Run) setRel(v *c16View, rel Relationship) {
	if v == nil {
		r.crel[rel] = true
		return
	}
	v.rel[rel] = true
	v.wrote = true
}

func (r *c16Run) delRel(v *c16View, rel Relationship) {
	if !r.hasRel(v, rel) {
		return
	}
	if v == nil {
		delete(r.crel, rel)
		return
	}
	v.rel[rel] = false
	v.wrote = true
}

func c16RelLess(a, b Relationship) bool { return a.GorpKey() < b.GorpKey() }

func (r *c16Run) relList(v *c16View) []Relationship {
	seen := map[Relationship]bool{}
	var out []Relationship
	for rel := range r.crel {
		seen[rel] = true
		if r.hasRel(v, rel) {
			out = append(out, rel)
		}
	}
	if v != nil {
		for rel, b := range v.rel {
			if b && !seen[rel] {
				out = append(out, rel)
			}
		}
	}
	sort.Slice(out, func(i, j int) bool { return c16RelLess(out[i], out[j]) })
	return out
}

func (r *c16Run) resList(v *c16View) []ID {
	seen := map[ID]bool{}
	var out []ID
	for id := range r.cres {
		seen[id] = true
		if r.hasRes(v, id) {
			out = append(out, id)
		}
	}
	if v != nil {
		for id, b := range v.res {
			if b && !seen[id] {
				out = append(out, id)
			}
		}
	}
	sort.Slice(out, func(i, j int) bool { return out[i].String() < out[j].String() })
	return out
}

// reach is the plain graph search: every resource reachable from start over edges of any
// type whose endpoints both survive.
func (r *c16Run) reach(v *c16View, start ID) map[ID]bool {
	rels := r.relList(v)
	out := map[ID]bool{}
	stack := []ID{start}
	for len(stack) > 0 {
		x := stack[len(stack)-1]
		stack = stack[:len(stack)-1]
		for _, rel := range rels {
			if rel.From == x && r.hasRes(v, rel.From) && r.hasRes(v, rel.To) && !out[rel.To] {
				out[rel.To] = true
				stack = append(stack, rel.To)
			}
		}
	}
	return out
}

// invariant reports why the merged view is not a DAG without dangling edges ("" if it is).
func (r *c16Run) invariant(v *c16View) string {
	rels := r.relList(v)
	for _, rel := range rels {
		if !r.hasRes(v, rel.From) || !r.hasRes(v, rel.To) {
			return "dangling " + rel.GorpKey()
		}
	}
	for _, id := range r.resList(v) {
		if r.reach(v, id)[id] {
			return "cycle through " + id.String()
		}
	}
	return ""
}

// ---- helpers ------------------------------------------------------------------------

func c16Alias(a, b ID) string {
	as, bs := a.String(), b.String()
	if as == bs {
		return ""
	}
	if strings.HasPrefix(as, bs) || strings.HasPrefix(bs, as) {
		return "prefix"
	}
	if strings.HasSuffix(as, bs) || strings.HasSuffix(bs, as) {
		return "suffix"
	}
	return ""
}

// aliasReach: would `from` be found below `to` if every resource also owned the outgoing
// edges of the resources whose identifier string it is a prefix of? Used only to give a
// refusal of an acyclic edge a structural signature.
func (r *c16Run) aliasReach(v *c16View, to, from ID) bool {
	rels := r.relList(v)
	seen := map[ID]bool{}
	stack := []ID{to}
	for len(stack) > 0 {
		x := stack[len(stack)-1]
		stack = stack[:len(stack)-1]
		for _, rel := range rels {
			if strings.HasPrefix(rel.From.String(), x.String()) && !seen[rel.To] {
				seen[rel.To] = true
				stack = append(stack, rel.To)
			}
		}
	}
	return seen[from]
}

func c16IDs(ids []ID) string {
	s := make([]string, len(ids))
	for i, id := range ids {
		s[i] = id.String()
	}
	return "[" + strings.Join(s, " ") + "]"
}

func c16Set(ids []ID) []ID {
	seen := map[ID]bool{}
	var out []ID
	for _, id := range ids {
		if !seen[id] {
			seen[id] = true
			out = append(out, id)
		}
	}
	sort.Slice(out, func(i, j int) bool { return out[i].String() < out[j].String() })
	return out
}

func c16SameSet(a, b []ID) bool {
	a, b = c16Set(a), c16Set(b)
	if len(a) != len(b) {
		return false
	}
	for i := range a {
		if a[i] != b[i] {
			return false
		}
	}
	return true
}

func (r *c16Run) describe(v *c16View) string {
	var sb strings.Builder
	name := "committed state"
	if v != nil {
		name = "view of tx" + strconv.Itoa(v.slot)
	}
	sb.WriteString(name + ": resources " + c16IDs(r.resList(v)) + " edges [")
	for i, rel := range r.relList(v) {
		if i > 0 {
			sb.WriteString(" ")
		}
		sb.WriteString(rel.GorpKey())
	}
	sb.WriteString("]")
	return sb.String()
}

func (r *c16Run) failf(v *c16View, class, sig, format string, args ...any) *drv.Failure {
	msg := fmt.Sprintf(format, args...)
	return drv.Failf(class, sig, "op %d %s: %s\n  reference %s\n  history: %s", r.opIdx, r.opStr, msg, r.describe(v), r.history(r.opIdx))
}

func (r *c16Run) opString(op c16Op) string {
	where := "db"
	if op.Tx != 0 {
		where = "tx" + strconv.Itoa(op.Tx)
	}
	idOf := func(i int) string { return r.id(i).String() }
	var bs []string
	for _, b := range op.B {
		bs = append(bs, idOf(b))
	}
	t := string(c16RelTypes[op.T%len(c16RelTypes)])
	switch op.K {
	case "open", "commit", "abort":
		return op.K + "(" + where + ")"
	case "reopen":
		return "reopen"
	case "defres", "delres", "desc":
		return fmt.Sprintf("%s@%s(%s)", op.K, where, idOf(op.A))
	case "defmany", "delmany":
		return fmt.Sprintf("%s@%s(%s)", op.K, where, strings.Join(bs, ","))
	case "defrel", "delrel", "defrels", "has":
		return fmt.Sprintf("%s@%s(%s -%s-> %s)", op.K, where, idOf(op.A), t, strings.Join(bs, ","))
	case "delout":
		return fmt.Sprintf("delout@%s(%s -%s-> *)", where, idOf(op.A), t)
	case "delin":
		return fmt.Sprintf("delin@%s(* -%s-> %s)", where, t, idOf(op.A))
	case "q":
		if op.Q == nil {
			return "q@" + where + "(nil)"
		}
		var ss []string
		for _, s := range op.Q.Starts {
			ss = append(ss, idOf(s))
		}
		hops := ""
		for _, h := range op.Q.Hops {
			hops += "." + c16HopName(h)
		}
		return fmt.Sprintf("q@%s(%s%s)", where, strings.Join(ss, ","), hops)
	}
	return op.K
}

func c16HopName(h int) string {
	switch h {
	case c16HopParentsIndex:
		return "parents"
	case c16HopParentsScan:
		return "parents/scan"
	case c16HopChildren:
		return "children"
	}
	return "to[" + string(c16RelTypes[(h-c16HopFwdBase)%len(c16RelTypes)]) + "]"
}

func (r *c16Run) history(upto int) string {
	var s []string
	for i := 0; i <= upto && i < len(r.c.Ops); i++ {
		k := r.c.Ops[i].K
		if (k == "q" || k == "desc" || k == "has") && i != upto {
			continue
		}
		s = append(s, r.opString(r.c.Ops[i]))
	}
	return strings.Join(s, "; ")
}

func (r *c16Run) id(i int) ID {
	if len(r.pool) == 0 {
		return ID{Type: "channel", Key: "x"}
	}
	if i < 0 {
		i = -i
	}
	return r.pool[i%len(r.pool)]
}

func (r *c16Run) txOf(v *c16View) gorp.Tx {
	if v == nil {
		return nil
	}
	return v.tx
}

// known: the failure is a recorded finding (or assumed to be one through VERIF_C16_ASSUME, a
// development aid), so the case may repair the divergence and keep exploring.
func (r *c16Run) known(f *drv.Failure) bool {
	if r.st.IsKnown(f) {
		return true
	}
	if r.assume != nil && r.assume.MatchString(f.Class+" "+f.Sig) {
		r.st.Probe("assumed_known:" + f.Class + " " + f.Sig)
		return true
	}
	return false
}

func (r *c16Run) traverser(h int) Traverser {
	switch h {
	case c16HopParentsIndex:
		return ParentsTraverser
	case c16HopParentsScan:
		t := ParentsTraverser
		t.Index = nil
		return t
	case c16HopChildren:
		return ChildrenTraverser
	}
	// the construction used by service/label for its "labeled_by" traverser
	rt := c16RelTypes[(h-c16HopFwdBase)%len(c16RelTypes)]
	return Traverser{Traverse: ChildrenTraverser.Traverse, Direction: DirectionForward, FilterPrefix: RelationshipPrefix(rt)}
}

// modelHop: one step of the plain graph search over surviving resources.
func (r *c16Run) modelHop(v *c16View, cur []ID, h int) []ID {
	in := map[ID]bool{}
	for _, id := range cur {
		if r.hasRes(v, id) {
			in[id] = true
		}
	}
	var next []ID
	for _, rel := range r.relList(v) {
		if !r.hasRes(v, rel.From) || !r.hasRes(v, rel.To) {
			continue
		}
		switch {
		case h == c16HopParentsIndex || h == c16HopParentsScan:
			if rel.Type == RelationshipTypeParentOf && in[rel.To] {
				next = append(next, rel.From)
			}
		case h == c16HopChildren:
			if rel.Type == RelationshipTypeParentOf && in[rel.From] {
				next = append(next, rel.To)
			}
		default:
			if rel.Type == c16RelTypes[(h-c16HopFwdBase)%len(c16RelTypes)] && in[rel.From] {
				next = append(next, rel.To)
			}
		}
	}
	return c16Set(next)
}

func (r *c16Run) realQuery(v *c16View, starts []ID, q c16Query) ([]ID, error) {
	var rq Retrieve
	if q.ViaWriter {
		rq = r.o.NewWriter(r.txOf(v)).NewRetrieve()
	} else {
		rq = r.o.NewRetrieve()
	}
	rq = rq.WhereIDs(starts...)
	for _, h := range q.Hops {
		rq = rq.TraverseTo(r.traverser(h))
	}
	if q.TypeFlt > 0 {
		rq = rq.WhereTypes(r.id(q.TypeFlt - 1).Type)
	}
	if q.Exclude {
		rq = rq.ExcludeFieldData(true)
	}
	if q.Limit > 0 {
		rq = rq.Limit(q.Limit).Offset(q.Offset)
	}
	var out []Resource
	var err error
	if q.ViaWriter {
		err = rq.Entries(&out).Exec(r.ctx, nil)
	} else {
		err = rq.Entries(&out).Exec(r.ctx, r.txOf(v))
	}
	return ResourceIDs(out), err
}

// checkQuery runs one traversal against the real ontology and the model.
func (r *c16Run) checkQuery(v *c16View, q c16Query, sweep bool) *drv.Failure {
	starts := make([]ID, len(q.Starts))
	for i, s := range q.Starts {
		starts[i] = r.id(s)
	}
	got, err := r.realQuery(v, starts, q)
	if !sweep && q.Limit == 0 {
		// (which resources a limited query keeps depends on the order of the index's
		// per-transaction overlay, a Go map; the oracle does not depend on it)
		fmt.Fprintf(&r.trace, "q%d:%v;", len(c16Set(got)), err != nil)
	}
	what := "query " + c16IDs(starts)
	hopSig := ""
	for _, h := range q.Hops {
		what += "." + c16HopName(h)
		hopSig += "." + c16HopName(h)
	}
	if len(q.Hops) == 0 {
		// plain retrieval by identifier: never returns a missing resource
		var want []ID
		missing := 0
		for _, s := range c16Set(starts) {
			if r.hasRes(v, s) {
				want = append(want, s)
			} else {
				missing++
			}
		}
		if q.TypeFlt > 0 || q.Limit > 0 {
			return nil
		}
		if err != nil {
			if !errors.Is(err, query.ErrNotFound) || missing == 0 {
				return r.failf(v, "retrieve-error", "by-id", "%s failed: %v (missing identifiers requested: %d)", what, err, missing)
			}
			return nil
		}
		if !c16SameSet(got, want) {
			return r.failf(v, "retrieve-mismatch", "by-id", "%s returned %s, surviving requested resources are %s", what, c16IDs(c16Set(got)), c16IDs(want))
		}
		return nil
	}
	cur := c16Set(starts)
	for _, h := range q.Hops {
		cur = r.modelHop(v, cur, h)
	}
	want := cur
	if q.TypeFlt > 0 {
		// observation only: the statement does not cover type filters
		t := r.id(q.TypeFlt - 1).Type
		var flt []ID
		for _, id := range want {
			if id.Type == t {
				flt = append(flt, id)
			}
		}
		if err == nil && !c16SameSet(got, flt) {
			r.st.Probe("obs_type_filter_differs_from_exact_type_match")
		}
		return nil
	}
	if err != nil && errors.Is(err, query.ErrNotFound) {
		// a traversal that starts at a resource that does not exist may report so
		for _, s := range starts {
			if !r.hasRes(v, s) {
				if !sweep {
					r.st.Probe("query_missing_start_reported_not_found")
				}
				return nil
			}
		}
	}
	if err != nil {
		return r.failf(v, "traversal-error", "hops"+hopSig, "%s failed: %v; the graph search over surviving resources gives %s", what, err, c16IDs(want))
	}
	for _, id := range got {
		if !r.hasRes(v, id) {
			return r.failf(v, "traversal-returned-missing-resource", "hops"+hopSig, "%s returned %s which does not exist", what, id)
		}
	}
	if q.Limit > 0 {
		in := map[ID]bool{}
		for _, id := range want {
			in[id] = true
		}
		for _, id := range got {
			if !in[id] {
				return r.failf(v, "traversal-mismatch", "extra:hops"+hopSig+":limited", "%s (limit %d offset %d) returned %s, not among %s", what, q.Limit, q.Offset, id, c16IDs(want))
			}
		}
		if len(got) > q.Limit {
			return r.failf(v, "traversal-mismatch", "limit-exceeded", "%s (limit %d) returned %d resources", what, q.Limit, len(got))
		}
		return nil
	}
	if !c16SameSet(got, want) {
		kind := "missing"
		if len(c16Set(got)) > len(want) {
			kind = "extra"
		}
		where := "outside-tx"
		if v != nil {
			where = "inside-tx"
		}
		return r.failf(v, "traversal-mismatch", kind+":hops"+hopSig+":"+where, "%s returned %s, the graph search over surviving resources gives %s", what, c16IDs(c16Set(got)), c16IDs(want))
	}
	if len(got) != len(c16Set(got)) {
		r.st.Probe("obs_query_duplicate_results")
	}
	if !sweep {
		if len(want) > 0 {
			r.nonEmptyQueries++
			r.st.Probe("query_nonempty")
			if len(q.Hops) > 1 {
				r.st.Probe("query_multi_hop_nonempty")
			}
			for _, h := range q.Hops {
				switch h {
				case c16HopParentsIndex:
					r.st.Probe("query_parents_index")
				case c16HopParentsScan:
					r.st.Probe("query_parents_scan")
				case c16HopChildren:
					r.st.Probe("query_children")
				default:
					r.st.Probe("query_forward_other_type")
				}
			}
		}
		if v != nil {
			// does the transaction see its own uncommitted changes here?
			c := c16Set(starts)
			for _, h := range q.Hops {
				c = r.modelHop(nil, c, h)
			}
			if !c16SameSet(c, want) {
				r.st.Probe("query_in_tx_differs_from_committed")
			}
		}
	}
	return nil
}

// checkTables: raw scans of the two tables in the given view against the model.
func (r *c16Run) checkTables(v *c16View, after string) *drv.Failure {
	var rels []Relationship
	var rawKeys []string
	err := r.o.relationshipTable.NewRetrieve().
		WhereRaw(func(key, _ []byte) (bool, error) { rawKeys = append(rawKeys, string(key)); return true, nil }).
		Entries(&rels).Exec(r.ctx, gorp.OverrideTx(r.db, r.txOf(v)))
	if err != nil {
		return r.failf(v, "unexpected-error", "relationship-scan", "relationship table scan failed: %v", err)
	}
	if len(rawKeys) == len(rels) {
		for i := range rels {
			if !strings.HasSuffix(rawKeys[i], rels[i].GorpKey()) {
				return r.failf(v, "relationship-key-mismatch", "key-vs-entry", "relationship %s is stored under key %q", rels[i].GorpKey(), rawKeys[i])
			}
		}
	}
	got := map[Relationship]bool{}
	for _, rel := range rels {
		got[rel] = true
	}
	want := r.relList(v)
	for _, rel := range want {
		if !got[rel] {
			return r.failf(v, "relationship-table-mismatch", "missing:after-"+after, "relationship %s is missing from the relationship table (scan: %d rows)", rel.GorpKey(), len(rels))
		}
		delete(got, rel)
	}
	var extra []Relationship
	for rel := range got {
		extra = append(extra, rel)
	}
	sort.Slice(extra, func(i, j int) bool { return c16RelLess(extra[i], extra[j]) })
	for _, rel := range extra {
		if !r.hasRes(v, rel.From) || !r.hasRes(v, rel.To) {
			return r.failf(v, "dangling-edge", "after-"+after, "relationship %s is in the relationship table although an endpoint does not exist", rel.GorpKey())
		}
		return r.failf(v, "relationship-table-mismatch", "extra:after-"+after, "relationship %s is in the relationship table but must not exist", rel.GorpKey())
	}
	var ress []Resource
	if err := r.o.resourceTable.NewRetrieve().Entries(&ress).Exec(r.ctx, gorp.OverrideTx(r.db, r.txOf(v))); err != nil {
		return r.failf(v, "unexpected-error", "resource-scan", "resource table scan failed: %v", err)
	}
	if gotR, wantR := ResourceIDs(ress), r.resList(v); !c16SameSet(gotR, wantR) {
		return r.failf(v, "resource-table-mismatch", "after-"+after, "resource table holds %s, want %s", c16IDs(c16Set(gotR)), c16IDs(wantR))
	}
	return nil
}

// sweep: parents (index and scan), children and other-type forward traversals of every
// given identifier in the view.
func (r *c16Run) sweep(v *c16View, idxs []int) *drv.Failure {
	other := map[RelationshipType]bool{}
	for _, rel := range r.relList(v) {
		other[rel.Type] = true
	}
	for _, i := range idxs {
		hops := []int{c16HopParentsIndex, c16HopParentsScan, c16HopChildren}
		for ti, t := range c16RelTypes {
			if t != RelationshipTypeParentOf && other[t] {
				hops = append(hops, c16HopFwdBase+ti)
			}
		}
		for _, h := range hops {
			if f := r.checkQuery(v, c16Query{Starts: []int{i}, Hops: []int{h}, Exclude: h != c16HopChildren, ViaWriter: h == c16HopParentsIndex}, true); f != nil {
				return f
			}
		}
	}
	return nil
}

func (r *c16Run) allIdx() []int {
	out := make([]int, len(r.pool))
	for i := range out {
		out[i] = i
	}
	return out
}

// afterChange: the committed state changed (or a view was discarded): check the invariants
// of the model's committed state and of every open view, then the real tables and
// traversals in every healthy view.
func (r *c16Run) afterChange(after string, idxs []int) *drv.Failure {
	if why := r.invariant(nil); why != "" {
		if !r.c.Overlap {
			return drv.Failf("harness", "model-invariant", "op %d %s: reference model left the invariants without overlapping writers: %s; %s", r.opIdx, r.opStr, why, r.describe(nil))
		}
		kind := "cycle"
		if strings.HasPrefix(why, "dangling") {
			kind = "dangling"
		}
		// every single operation was judged legal in its own transaction's view, yet the
		// committed graph is broken: overlapping writers are not isolated from each other
		if f := r.checkTables(nil, after); f != nil {
			return f
		}
		f := r.failf(nil, "overlapping-writers-break-graph", kind+":committed", "after %s the committed graph is broken (%s): every operation succeeded legally in its own transaction's view (pending operations merged with the live database), the transactions were both committed and nothing detected the conflict", after, why)
		if r.assume != nil && r.assume.MatchString(f.Class+" "+f.Sig) {
			// development aid: end the case quietly
			r.st.Probe("assumed_known:" + f.Class + " " + f.Sig)
			return c16Stop
		}
		return f
	}
	for _, v := range r.views {
		if v == nil || v.bad != "" {
			continue
		}
		if why := r.invariant(v); why != "" {
			v.bad = why
			r.st.Probe("overlap_view_broken_by_other_commit")
		}
	}
	for _, v := range append([]*c16View{nil}, r.views[:]...) {
		if v != nil && v.bad != "" {
			continue
		}
		if f := r.checkTables(v, after); f != nil {
			return f
		}
		if f := r.sweep(v, idxs); f != nil {
			return f
		}
	}
	return nil
}

// afterTxWrite: only the view of one open transaction changed.
func (r *c16Run) afterTxWrite(v *c16View, after string, idxs []int) *drv.Failure {
	if v == nil {
		return r.afterChange(after, idxs)
	}
	if why := r.invariant(v); why != "" {
		// cannot happen in a healthy view: the expectations keep it a DAG
		return drv.Failf("harness", "model-invariant-view", "op %d %s: %s; %s", r.opIdx, r.opStr, why, r.describe(v))
	}
	if f := r.checkTables(v, after); f != nil {
		return f
	}
	if f := r.sweep(v, idxs); f != nil {
		return f
	}
	// nothing of it is visible outside the transaction
	if f := r.checkTables(nil, after+"-outside"); f != nil {
		return f
	}
	return r.sweep(nil, idxs)
}

// walkCycle explores the writer's own adjacency function (the real
// retrieveOutgoingRelationships) depth first and returns a path that revisits a resource, if
// any: the writer's recursive descendant walk has no visited set, so it would not terminate.
func (r *c16Run) walkCycle(w dagWriter, start ID) ([]ID, error) {
	color := map[ID]int{}
	var path, cyc []ID
	var dfs func(id ID) error
	dfs = func(id ID) error {
		color[id] = 1
		path = append(path, id)
		kids, err := w.retrieveOutgoingRelationships(r.ctx, id)
		if err != nil {
			return err
		}
		for _, k := range kids {
			switch color[k.ID] {
			case 1:
				cyc = append(append([]ID{}, path...), k.ID)
				return nil
			case 0:
				if err := dfs(k.ID); err != nil || cyc != nil {
					return err
				}
			}
		}
		color[id] = 2
		path = path[:len(path)-1]
		return nil
	}
	err := dfs(start)
	return cyc, err
}

// guard: refuse to call into a descendant walk that cannot terminate (the process would
// die of stack exhaustion, which no harness can catch).
func (r *c16Run) guard(v *c16View, w dagWriter, ctx, what string, starts []ID) (skip bool, f *drv.Failure) {
	if r.noGuard {
		return false, nil
	}
	for _, s := range c16Set(starts) {
		cyc, err := r.walkCycle(w, s)
		if err != nil {
			// the real call will report it
			return false, nil
		}
		if cyc == nil {
			continue
		}
		sig := ctx + ":other"
		for i := 0; i+1 < len(cyc); i++ {
			if !r.hasRelAny(v, cyc[i], cyc[i+1]) {
				sig = ctx + ":edge-of-prefix-aliased-identifier"
			}
		}
		f := r.failf(v, "descendant-walk-does-not-terminate", sig, "%s not attempted: the writer's descendant walk (dagWriter.retrieveDescendants, which recurses over retrieveOutgoingRelationships without a visited set) started at %s revisits a resource along %s although the graph is acyclic; the call would recurse until the goroutine stack limit and kill the process", what, s, c16IDs(cyc))
		if r.known(f) {
			return true, nil
		}
		return true, f
	}
	return false, nil
}

// walkedTargets: the targets whose descendants the real define call is going to walk, in
// order, found by running the call's own early exits (existence and reverse-edge check,
// endpoint validation, cycle verdict of an earlier target) first.
func (r *c16Run) walkedTargets(w dagWriter, from ID, rt RelationshipType, tos []ID, many bool) []ID {
	if r.noGuard {
		return nil
	}
	if !many {
		exists, err := w.checkRelationshipExists(r.ctx, Relationship{From: from, Type: rt, To: tos[0]})
		if err != nil || exists {
			return nil
		}
		if err := w.validateResourcesExist(r.ctx, from, tos[0]); err != nil {
			return nil
		}
		return tos[:1]
	}
	if err := w.validateResourcesExist(r.ctx, from); err != nil {
		return nil
	}
	if err := w.validateResourcesExist(r.ctx, tos...); err != nil {
		return nil
	}
	var out []ID
	for _, to := range tos {
		out = append(out, to)
		if cyc, err := r.walkCycle(w, to); err != nil || cyc != nil {
			return out
		}
		desc, err := w.retrieveDescendants(r.ctx, to)
		if err != nil {
			return out
		}
		if _, found := desc[from]; found {
			return out
		}
	}
	return out
}

func (r *c16Run) hasRelAny(v *c16View, from, to ID) bool {
	for _, rel := range r.relList(v) {
		if rel.From == from && rel.To == to {
			return true
		}
	}
	return false
}

// c16Stop ends a case without a verdict.
var c16Stop = &drv.Failure{Class: "stop"}

// ---- execution ----------------------------------------------------------------------

func (r *c16Run) open() error {
	o, err := Open(r.ctx, Config{DB: r.db})
	if err != nil {
		return err
	}
	seen := map[ResourceType]bool{ResourceTypeBuiltin: true}
	for _, cands := range [][]c16ID{c16AliasCands, c16PlainCands} {
		for _, c := range cands {
			if t := ResourceType(c.T); !seen[t] {
				seen[t] = true
				o.RegisterService(&c16Svc{t: t})
			}
		}
	}
	for _, id := range r.pool {
		if !seen[id.Type] {
			seen[id.Type] = true
			o.RegisterService(&c16Svc{t: id.Type})
		}
	}
	r.o = o
	return nil
}

func (r *c16Run) view(slot int) *c16View {
	if slot <= 0 || slot > 3 {
		return nil
	}
	if r.views[slot] == nil {
		r.views[slot] = &c16View{slot: slot, tx: r.db.OpenTx(), res: map[ID]bool{}, rel: map[Relationship]bool{}}
		n := 0
		for _, v := range r.views {
			if v != nil {
				n++
			}
		}
		if n > 1 {
			r.st.Probe("tx_several_open")
		}
	}
	return r.views[slot]
}

func (r *c16Run) finish(slot int, commit bool) *drv.Failure {
	v := r.views[slot]
	if v == nil {
		return nil
	}
	r.views[slot] = nil
	if commit {
		if err := v.tx.Commit(r.ctx); err != nil {
			_ = v.tx.Close()
			return r.failf(nil, "unexpected-error", "commit", "commit of tx%d failed: %v", slot, err)
		}
		for id, b := range v.res {
			if b {
				r.cres[id] = true
			} else {
				delete(r.cres, id)
			}
		}
		defs := 0
		for rel, b := range v.rel {
			if b {
				if !r.crel[rel] {
					defs++
				}
				r.crel[rel] = true
			} else {
				delete(r.crel, rel)
			}
		}
		r.committedDefs += defs
		r.st.Probe("tx_committed")
		if v.wrote {
			r.st.Probe("tx_committed_with_writes")
		}
		if v.bad != "" {
			r.st.Probe("overlap_broken_view_committed")
		}
	} else {
		r.st.Probe("tx_aborted")
		if v.wrote {
			r.st.Probe("tx_aborted_with_writes")
		}
	}
	if err := v.tx.Close(); err != nil {
		return r.failf(nil, "unexpected-error", "tx-close", "close of tx%d failed: %v", slot, err)
	}
	after := "abort"
	if commit {
		after = "commit"
	}
	return r.afterChange(after, r.allIdx())
}

func (r *c16Run) shapeProbes(v *c16View) {
	rels := r.relList(v)
	if len(rels) < 2 {
		return
	}
	// chain depth and diamonds over all edge types
	indeg := map[ID]int{}
	for _, rel := range rels {
		indeg[rel.To]++
	}
	var depth func(id ID, d int) int
	depth = func(id ID, d int) int {
		best := d
		if d > 8 {
			return d
		}
		for _, rel := range rels {
			if rel.From == id {
				if x := depth(rel.To, d+1); x > best {
					best = x
				}
			}
		}
		return best
	}
	var paths func(from, to ID, d int) int
	paths = func(from, to ID, d int) int {
		if from == to {
			return 1
		}
		if d > 8 {
			return 0
		}
		n := 0
		for _, rel := range rels {
			if rel.From == from {
				n += paths(rel.To, to, d+1)
			}
		}
		return n
	}
	for _, id := range r.resList(v) {
		if depth(id, 0) >= 3 {
			r.st.Probe("shape_chain_depth3")
			break
		}
	}
	for _, a := range r.resList(v) {
		for _, b := range r.resList(v) {
			if a != b && indeg[b] >= 2 && paths(a, b, 0) >= 2 {
				r.st.Probe("shape_diamond")
				return
			}
		}
	}
}

func (r *c16Run) exec(op c16Op) *drv.Failure {
	switch op.K {
	case "open":
		r.view(op.Tx)
		return nil
	case "commit":
		return r.finish(op.Tx, true)
	case "abort":
		return r.finish(op.Tx, false)
	case "reopen":
		for s := 1; s <= 3; s++ {
			if f := r.finish(s, false); f != nil {
				return f
			}
		}
		if err := r.o.Close(); err != nil {
			return r.failf(nil, "unexpected-error", "close", "ontology close failed: %v", err)
		}
		if err := r.open(); err != nil {
			return r.failf(nil, "unexpected-error", "reopen", "ontology reopen failed: %v", err)
		}
		r.st.Probe("reopen")
		// Open defines the root resource when it is missing
		r.cres[RootID] = true
		return r.afterChange("reopen", r.allIdx())
	}
	v := r.view(op.Tx)
	if v != nil && v.bad != "" {
		// the view already contains a cycle or a dangling edge produced by another
		// writer's commit; only its commit/abort is still meaningful (and a descendant
		// walk through a cycle would not terminate)
		r.st.Probe("overlap_op_skipped_in_broken_view")
		return nil
	}
	w := r.o.NewWriter(r.txOf(v)).(dagWriter)
	rt := c16RelTypes[op.T%len(c16RelTypes)]
	a := r.id(op.A)
	var bs []ID
	for _, b := range op.B {
		bs = append(bs, r.id(b))
	}
	touched := append([]int{op.A}, op.B...)
	switch op.K {
	case "defres":
		if err := w.DefineResource(r.ctx, a); err != nil {
			return r.failf(v, "unexpected-error", "define-resource", "DefineResource failed: %v", err)
		}
		r.setRes(v, a)
		return r.afterTxWrite(v, "defres", touched)
	case "defmany":
		if err := w.DefineManyResources(r.ctx, bs); err != nil {
			return r.failf(v, "unexpected-error", "define-resource", "DefineManyResources failed: %v", err)
		}
		for _, b := range bs {
			r.setRes(v, b)
		}
		return r.afterTxWrite(v, "defres", op.B)
	case "delres", "delmany":
		ids := bs
		if op.K == "delres" {
			ids = []ID{a}
		} else {
			touched = op.B
		}
		// probes: what the delete has to clean up, and what it must leave alone
		in, out, aliasNeighbour := 0, 0, false
		for _, rel := range r.relList(v) {
			for _, id := range ids {
				if rel.To == id {
					in++
				}
				if rel.From == id {
					out++
				}
				if rel.From != id && rel.To != id && (c16Alias(rel.From, id) != "" || c16Alias(rel.To, id) != "") {
					aliasNeighbour = true
				}
			}
		}
		var err error
		if op.K == "delres" {
			err = w.DeleteResource(r.ctx, a)
		} else {
			err = w.DeleteManyResources(r.ctx, ids)
		}
		if err != nil {
			return r.failf(v, "unexpected-error", "delete-resource", "%s failed: %v", op.K, err)
		}
		existed := false
		for _, id := range ids {
			existed = existed || r.hasRes(v, id)
			for _, rel := range r.relList(v) {
				if rel.From == id || rel.To == id {
					r.delRel(v, rel)
				}
			}
			r.delRes(v, id)
		}
		if existed {
			r.appliedDeletes++
			r.st.Probe("delres_existing")
		}
		if in > 0 && out > 0 {
			r.st.Probe("delres_with_incoming_and_outgoing")
		}
		if aliasNeighbour && in+out > 0 {
			r.st.Probe("delres_next_to_aliased_identifier_edges")
		}
		// every pool member may have lost a neighbour
		return r.afterTxWrite(v, "delres", r.allIdx())
	case "defrel":
		if len(bs) == 0 {
			return nil
		}
		return r.defineRels(v, w, a, rt, bs[:1], false, touched)
	case "defrels":
		if len(bs) == 0 {
			return nil
		}
		return r.defineRels(v, w, a, rt, bs, true, touched)
	case "delrel":
		if len(bs) == 0 {
			return nil
		}
		rel := Relationship{From: a, Type: rt, To: bs[0]}
		if err := w.DeleteRelationship(r.ctx, a, rt, bs[0]); err != nil {
			return r.failf(v, "unexpected-error", "delete-relationship", "DeleteRelationship failed: %v", err)
		}
		if r.hasRel(v, rel) {
			r.appliedDeletes++
			r.st.Probe("delrel_existing")
		}
		r.delRel(v, rel)
		return r.afterTxWrite(v, "delrel", touched)
	case "delout", "delin":
		var err error
		if op.K == "delout" {
			err = w.DeleteOutgoingRelationshipsOfType(r.ctx, a, rt)
		} else {
			err = w.DeleteIncomingRelationshipsOfType(r.ctx, a, rt)
		}
		if err != nil {
			return r.failf(v, "unexpected-error", "delete-relationship", "%s failed: %v", op.K, err)
		}
		n := 0
		for _, rel := range r.relList(v) {
			if rel.Type == rt && ((op.K == "delout" && rel.From == a) || (op.K == "delin" && rel.To == a)) {
				r.delRel(v, rel)
				n++
			}
		}
		if n > 0 {
			r.appliedDeletes++
			r.st.Probe(op.K + "_existing")
		}
		return r.afterTxWrite(v, op.K, r.allIdx())
	case "q":
		if op.Q == nil {
			return nil
		}
		return r.checkQuery(v, *op.Q, false)
	case "desc":
		if !r.hasRes(v, a) {
			return nil
		}
		if skip, f := r.guard(v, w, "descendants", "descendant walk of "+a.String(), []ID{a}); skip || f != nil {
			return f
		}
		got, err := w.retrieveDescendants(r.ctx, a)
		if err != nil {
			return r.failf(v, "descendants-error", "walk", "the writer's descendant walk of %s failed: %v", a, err)
		}
		var gotIDs []ID
		for id := range got {
			gotIDs = append(gotIDs, id)
		}
		var want []ID
		for id := range r.reach(v, a) {
			want = append(want, id)
		}
		if !c16SameSet(gotIDs, want) {
			kind, sig := "missing", "other"
			if len(c16Set(gotIDs)) > len(c16Set(want)) {
				kind = "extra"
			}
			wantSet := map[ID]bool{}
			for _, id := range want {
				wantSet[id] = true
			}
			for _, id := range gotIDs {
				if !wantSet[id] && r.aliasReach(v, a, id) {
					sig = "below-prefix-aliased-identifier"
				}
			}
			f := r.failf(v, "descendants-mismatch", kind+":"+sig, "the writer's descendant walk of %s (the set DefineRelationship tests the new edge's source against) returned %s, the graph search gives %s", a, c16IDs(c16Set(gotIDs)), c16IDs(c16Set(want)))
			if r.known(f) {
				return nil
			}
			return f
		}
		if len(want) > 0 {
			r.st.Probe("descendants_nonempty")
		}
		return nil
	case "has":
		got, err := w.HasResource(r.ctx, a)
		if err != nil {
			return r.failf(v, "unexpected-error", "has-resource", "HasResource failed: %v", err)
		}
		if got != r.hasRes(v, a) {
			return r.failf(v, "resource-table-mismatch", "has-resource", "HasResource(%s) = %v, want %v", a, got, r.hasRes(v, a))
		}
		if len(bs) > 0 {
			rel := Relationship{From: a, Type: rt, To: bs[0]}
			got, err := w.HasRelationship(r.ctx, a, rt, bs[0])
			if err != nil {
				r.st.Probe("obs_has_relationship_error")
			} else if got != r.hasRel(v, rel) {
				return r.failf(v, "relationship-table-mismatch", "has-relationship", "HasRelationship(%s) = %v, want %v", rel.GorpKey(), got, r.hasRel(v, rel))
			}
		}
		return nil
	}
	return nil
}

// defineRels: DefineRelationship (single) or DefineFromOneToManyRelationships.
func (r *c16Run) defineRels(v *c16View, w dagWriter, from ID, rt RelationshipType, tos []ID, many bool, touched []int) *drv.Failure {
	name := "DefineRelationship"
	if many {
		name = "DefineFromOneToManyRelationships"
	}
	// expectation from the statement: success exactly when both resources exist and the
	// edge closes no cycle; a no-op if it already exists
	var missing []ID
	if !r.hasRes(v, from) {
		missing = append(missing, from)
	}
	allExist := true
	var cyc []string
	selfLoop := false
	for _, to := range tos {
		rel := Relationship{From: from, Type: rt, To: to}
		if !r.hasRel(v, rel) {
			allExist = false
		}
		if !r.hasRes(v, to) {
			missing = append(missing, to)
			continue
		}
		if r.hasRel(v, rel) {
			continue
		}
		if to == from {
			selfLoop = true
			cyc = append(cyc, rel.GorpKey()+" (self loop)")
		} else if r.reach(v, to)[from] {
			cyc = append(cyc, rel.GorpKey())
		}
	}
	wantOK := allExist || (len(missing) == 0 && len(cyc) == 0)
	// the implementation walks the descendants of the targets unless it returns early;
	// which targets it reaches is decided with its own pre-checks
	if walked := r.walkedTargets(w, from, rt, tos, many); len(walked) > 0 {
		if skip, f := r.guard(v, w, "define", fmt.Sprintf("%s(%s -%s-> %s)", name, from, rt, c16IDs(tos)), walked); skip || f != nil {
			if f == nil {
				r.st.Probe("known_walk_skipped")
			}
			return f
		}
	}
	var err error
	if many {
		err = w.DefineFromOneToManyRelationships(r.ctx, from, rt, tos)
	} else {
		err = w.DefineRelationship(r.ctx, from, rt, tos[0])
	}
	what := fmt.Sprintf("%s(%s -%s-> %s)", name, from, rt, c16IDs(tos))
	fmt.Fprintf(&r.trace, "d%v;", err != nil)
	form := "single"
	if many {
		form = "one-to-many"
	}
	switch {
	case wantOK && err != nil:
		if allExist {
			return r.failf(v, "existing-edge-not-a-noop", form, "%s failed although every edge already exists: %v", what, err)
		}
		class, sig := "define-relationship-error", form
		if errors.Is(err, graph.ErrCyclicDependency) {
			class, sig = "acyclic-edge-refused", form+":no-alias"
			for _, to := range tos {
				if r.aliasReach(v, to, from) {
					sig = form + ":source-below-prefix-aliased-identifier"
				}
			}
		}
		f := r.failf(v, class, sig, "%s was refused (%v) although both resources exist and the edge closes no cycle: nothing is reachable from the target(s) that includes %s", what, err, from)
		if class == "acyclic-edge-refused" && r.known(f) {
			// nothing was written; the model does not add the edge either
			return r.afterTxWrite(v, "defrel-refused", touched)
		}
		return f
	case !wantOK && err == nil:
		class, sig := "cycle-accepted", form+":path"
		if selfLoop {
			sig = form + ":self-loop"
		}
		detail := "closes a cycle: " + strings.Join(cyc, ", ")
		if len(missing) > 0 {
			class, sig = "missing-endpoint-accepted", form
			detail = "resources " + c16IDs(missing) + " do not exist"
		}
		f := r.failf(v, class, sig, "%s succeeded although it %s", what, detail)
		if r.known(f) {
			// repair: take the wrongly created edges out again and keep going
			for _, to := range tos {
				if rel := (Relationship{From: from, Type: rt, To: to}); !r.hasRel(v, rel) {
					if derr := w.DeleteRelationship(r.ctx, from, rt, to); derr != nil {
						return r.failf(v, "unexpected-error", "repair", "DeleteRelationship failed: %v", derr)
					}
					if v != nil {
						// the transaction's write batch now holds a delete for this key
						v.rel[rel] = false
					}
				} else if many && v != nil {
					// the one-to-many form has put the existing edge into the batch again
					v.rel[rel] = true
				}
			}
			return r.afterTxWrite(v, "defrel-repaired", touched)
		}
		return f
	case !wantOK:
		switch {
		case len(missing) > 0:
			r.st.Probe("defrel_refused_missing_endpoint")
		case selfLoop:
			r.st.Probe("defrel_refused_self_loop")
		default:
			r.st.Probe("defrel_refused_cycle")
			if !errors.Is(err, graph.ErrCyclicDependency) {
				r.st.Probe("obs_cycle_refusal_not_ErrCyclicDependency")
			}
		}
		return r.afterTxWrite(v, "defrel-refused", touched)
	}
	// success
	added := 0
	for _, to := range tos {
		rel := Relationship{From: from, Type: rt, To: to}
		existed := r.hasRel(v, rel)
		if !existed {
			added++
			for _, other := range r.resList(v) {
				if other != to && other != from && (strings.HasPrefix(other.String(), to.String())) && len(r.reach(v, other)) > 0 {
					r.st.Probe("defrel_ok_target_is_prefix_of_identifier_with_edges")
				}
			}
		}
		// "a no-op if it already exists": the single form writes nothing then; the
		// one-to-many form puts every edge into the write batch again, which only
		// overlapping writers can tell apart
		if !existed || many {
			r.setRel(v, rel)
		}
	}
	if added == 0 {
		r.st.Probe("defrel_noop_existing")
	} else {
		if many {
			r.st.Probe("defrels_ok")
		} else {
			r.st.Probe("defrel_ok")
		}
		if v == nil {
			r.committedDefs += added
		}
		r.shapeProbes(v)
	}
	return r.afterTxWrite(v, "defrel", touched)
}

func runC16(t *testing.T, c c16Case, st *drv.Stats) (fail *drv.Failure) {
	if len(c.Pool) == 0 {
		return nil
	}
	r := &c16Run{ctx: context.Background(), c: c, st: st, cres: map[ID]bool{}, crel: map[Relationship]bool{}}
	if p := os.Getenv("VERIF_C16_ASSUME"); p != "" {
		r.assume = regexp.MustCompile(p)
	}
	r.noGuard = os.Getenv("VERIF_C16_NOGUARD") != ""
	for _, id := range c.Pool {
		r.pool = append(r.pool, ID{Type: ResourceType(id.T), Key: id.K})
	}
	kvdb := memkv.New()
	r.db = gorp.Wrap(kvdb)
	if err := r.open(); err != nil {
		_ = kvdb.Close()
		return drv.Failf("harness", "open", "%v", err)
	}
	defer func() {
		for _, v := range r.views {
			if v != nil {
				_ = v.tx.Close()
			}
		}
		_ = r.o.Close()
		_ = kvdb.Close()
	}()
	// Open defines the root resource
	r.cres[RootID] = true
	r.opIdx, r.opStr = -1, "open"
	if f := r.afterChange("open", r.allIdx()); f != nil {
		return f
	}
	alias := false
	for i, a := range r.pool {
		for _, b := range r.pool[i+1:] {
			if c16Alias(a, b) == "prefix" {
				alias = true
			}
		}
	}
	if alias {
		st.Probe("pool_with_prefix_aliased_identifiers")
	}
	for i, op := range c.Ops {
		r.opIdx, r.opStr = i, r.opString(op)
		if f := r.exec(op); f != nil {
			if f == c16Stop {
				return nil
			}
			return f
		}
	}
	r.opIdx, r.opStr = len(c.Ops)-1, "end of history"
	for s := 1; s <= 3; s++ {
		if f := r.finish(s, c.FinalCommit); f != nil {
			if f == c16Stop {
				return nil
			}
			return f
		}
	}
	// final: descendants through the public API (repeated children hops) for every resource
	for i := range r.pool {
		for depth := 2; depth <= 3; depth++ {
			hops := make([]int, depth)
			for j := range hops {
				hops[j] = c16HopChildren
			}
			if f := r.checkQuery(nil, c16Query{Starts: []int{i}, Hops: hops, Exclude: true}, true); f != nil {
				return f
			}
			up := make([]int, depth)
			for j := range up {
				up[j] = j % 2 // index and scan alternate
			}
			if f := r.checkQuery(nil, c16Query{Starts: []int{i}, Hops: up}, true); f != nil {
				return f
			}
		}
	}
	var sb strings.Builder
	for _, id := range c.Pool {
		sb.WriteString(id.T + ":" + id.K + ",")
	}
	for _, op := range c.Ops {
		sb.WriteString(op.K + strconv.Itoa(op.Tx) + "." + strconv.Itoa(op.A) + "." + strconv.Itoa(op.T))
		for _, b := range op.B {
			sb.WriteString("," + strconv.Itoa(b))
		}
		if op.Q != nil {
			sb.WriteString(fmt.Sprint(op.Q.Starts, op.Q.Hops))
		}
		sb.WriteString(";")
	}
	fmt.Fprintf(&r.trace, "end:%d/%d", len(r.cres), len(r.crel))
	st.Case(drv.Hash64(sb.String(), strconv.FormatBool(c.Overlap), strconv.FormatBool(c.FinalCommit), r.trace.String()),
		r.committedDefs >= 2 && r.appliedDeletes >= 1 && r.nonEmptyQueries >= 1)
	return nil
}
