package codec_test

// Injected by /verif via `go test -overlay`; never part of the repository.
// C08: the frame wire codec as it is used in the system: a stateful PAIR (encoder on
// one node, decoder on another) joined by an ordered byte stream, whose shared state
// (channel keys + data types) is replaced over time by updates that reach the two sides
// at different moments, possibly while frames are in flight.
//
// One engine, three modes:
//   - static : codec.NewStatic on both sides.
//   - dynamic: codec.NewDynamic on both sides over the channel service of a real
//     single-node distribution layer (mock cluster, in-memory storage); both sides apply
//     the same sequence of Update calls (key order permuted per side) at different times.
//   - http   : the HTTP framer codec (transport/http/framer) for the writer, streamer and
//     iterator WebSocket message types, client and server instance, the key set
//     negotiated by the low-performance (JSON) request exactly as on the server.
//
// Round-trip oracle: the model in zz_verif_c08_model_test.go. Safety oracle: every
// delivered message is also delivered in corrupted forms (every prefix, bit flips,
// overwritten length / sequence / flag fields, garbage, duplicates, splices); Decode
// must return (frame or error) without panicking or allocating out of proportion, any
// frame it returns must satisfy the state its sequence number selects, and the genuine
// message must still decode correctly afterwards.

import (
	"testing"

	"pgregory.net/rapid"
	"verifsim/drv"
)

func TestVerif(t *testing.T) {
	drv.Main(t,
		drv.Wrap(drv.Engine[c08Case]{Property: "C08", Name: "c08", Gen: genC08, Run: runC08, BatchChecks: 300, GCEvery: 4}),
		drv.Wrap(drv.Engine[c08cCase]{Property: "C08", Name: "c08-conc", Gen: genC08Conc, Run: runC08Conc, BatchChecks: 100}),
	)
}

type c08Chan struct {
	// static: the channel key. dynamic/http: index into the service catalogue.
	Key uint32 `json:"key"`
	DT  string `json:"dt"`
}

type c08Ser struct {
	Ch   int    `json:"ch"`           // index into Case.Chans
	DT   string `json:"dt,omitempty"` // series data type when it differs from the channel's
	N    int    `json:"n"`
	Sz   []int  `json:"sz,omitempty"` // variable types: per-sample payload size
	Seed uint32 `json:"seed"`
	S    int64  `json:"s"`
	E    int64  `json:"e"`
	Al   uint64 `json:"al"`
}

type c08Fault struct {
	K     string `json:"k"` // truncall trunc flip set32 len seq flags garbage dup splice
	Pos   []int  `json:"pos,omitempty"`
	Val   uint32 `json:"val,omitempty"`
	Raw   []byte `json:"raw,omitempty"`
	Chunk int    `json:"chunk,omitempty"` // >0: DecodeStream with reads of at most this many bytes
}

type c08Op struct {
	// static/dynamic: upd enc dec raw burst. http: req frame deliver raw burst.
	K      string     `json:"k"`
	Side   string     `json:"side,omitempty"` // upd: e|d ; http deliver/raw: s (to server) | c (to client)
	Frame  []c08Ser   `json:"frame,omitempty"`
	Stream bool       `json:"stream,omitempty"`
	Chunk  int        `json:"chunk,omitempty"`
	Faults []c08Fault `json:"faults,omitempty"`
	Raw    []byte     `json:"raw,omitempty"`
	N      int        `json:"n,omitempty"`
}

type c08Case struct {
	Mode    string    `json:"mode"`
	Flow    string    `json:"flow,omitempty"`
	NoMerge bool      `json:"no_merge,omitempty"`
	Chans   []c08Chan `json:"chans"`
	// Updates is the agreed sequence of channel sets (indices into Chans, may repeat).
	// Static mode has exactly one.
	Updates [][]int `json:"updates"`
	// Bad: indices of updates that additionally name a channel that does not exist.
	Ops []c08Op `json:"ops"`
}

var c08StaticKeys = []uint32{0, 1, 2, 3, 4, 5, 255, 256, 65536, 65537, 0x01000000, 0x7FFFFFFF, 0x80000000, 0xFFFFFFFE, 0xFFFFFFFF}

// c08Catalogue is the data type of every channel the harness creates in the service.
var c08Catalogue = []string{
	"timestamp", "uint8", "uint16", "uint32", "uint64", "int8", "int16", "int32", "int64",
	"float32", "float64", "timestamp", "uuid", "string", "json", "bytes", "float32", "string", "int64", "uint8",
}

func pick[T any](t *rapid.T, label string, xs []T) T {
	return xs[rapid.IntRange(0, len(xs)-1).Draw(t, label)]
}

func genDT(t *rapid.T) string {
	switch rapid.IntRange(0, 9).Draw(t, "dtk") {
	case 0, 1:
		return pick(t, "dtv", []string{"string", "json", "bytes"})
	case 2:
		return pick(t, "dt8", []string{"timestamp", "int64"})
	case 3:
		return pick(t, "dts", []string{"uint8", "uuid"})
	default:
		return pick(t, "dt", c08DTs)
	}
}

func genC08(t *rapid.T) c08Case {
	var c c08Case
	switch m := rapid.IntRange(0, 9).Draw(t, "mode"); {
	case m < 4:
		c.Mode = "static"
	case m < 8:
		c.Mode = "dynamic"
	default:
		c.Mode = "http"
		c.Flow = pick(t, "flow", []string{"writer", "streamer", "iterator"})
	}
	c.NoMerge = rapid.IntRange(0, 3).Draw(t, "nomerge") == 0 && c.Mode != "http"
	// channels
	if c.Mode == "static" {
		n := rapid.IntRange(0, 6).Draw(t, "nch")
		used := map[uint32]bool{}
		for len(c.Chans) < n {
			k := pick(t, "key", c08StaticKeys)
			if used[k] {
				k = uint32(rapid.Uint32().Draw(t, "rkey"))
			}
			if used[k] {
				continue
			}
			used[k] = true
			c.Chans = append(c.Chans, c08Chan{Key: k, DT: genDT(t)})
		}
	} else {
		n := rapid.IntRange(1, 7).Draw(t, "nch")
		used := map[int]bool{}
		for len(c.Chans) < n {
			i := rapid.IntRange(0, len(c08Catalogue)-1).Draw(t, "cat")
			if used[i] {
				continue
			}
			used[i] = true
			c.Chans = append(c.Chans, c08Chan{Key: uint32(i), DT: c08Catalogue[i]})
		}
	}
	genKeys := func() []int {
		if len(c.Chans) == 0 {
			return []int{}
		}
		var ks []int
		switch rapid.IntRange(0, 5).Draw(t, "ksh") {
		case 0: // all
			for i := range c.Chans {
				ks = append(ks, i)
			}
		case 1: // single
			ks = []int{rapid.IntRange(0, len(c.Chans)-1).Draw(t, "k1")}
		case 2: // empty
			ks = []int{}
		default:
			for i := range c.Chans {
				if rapid.Bool().Draw(t, "kin") {
					ks = append(ks, i)
				}
			}
		}
		// order and repeats
		if len(ks) > 1 && rapid.Bool().Draw(t, "kshuf") {
			ks = rapid.Permutation(ks).Draw(t, "kperm")
		}
		if len(ks) > 0 && rapid.IntRange(0, 5).Draw(t, "kdup") == 0 {
			ks = append(ks, ks[rapid.IntRange(0, len(ks)-1).Draw(t, "kdupi")])
		}
		if ks == nil {
			ks = []int{}
		}
		return ks
	}
	switch c.Mode {
	case "static":
		c.Updates = [][]int{genKeys()}
		genPairOps(t, &c, genKeys)
	case "dynamic":
		genPairOps(t, &c, genKeys)
	default:
		genHTTPOps(t, &c, genKeys)
	}
	return c
}

// genFrame draws a frame. cur: the channel set the encoder will hold (indices into
// Chans); frames mostly stay within it.
func genFrame(t *rapid.T, c *c08Case, cur []int) []c08Ser {
	if len(c.Chans) == 0 {
		return nil
	}
	shape := rapid.IntRange(0, 11).Draw(t, "shape")
	var chs []int
	distinct := func(in []int) []int {
		seen := map[int]bool{}
		var out []int
		for _, x := range in {
			if !seen[x] {
				seen[x] = true
				out = append(out, x)
			}
		}
		return out
	}
	switch {
	case shape == 0 || len(cur) == 0 && shape < 10:
		if len(cur) == 0 && shape > 3 { // only channels outside the set
			chs = []int{rapid.IntRange(0, len(c.Chans)-1).Draw(t, "och")}
		}
	case shape <= 2: // every channel of the set once, in the set's order (repeats kept)
		chs = append(chs, cur...)
	case shape == 3: // every distinct channel once, shuffled
		chs = rapid.Permutation(distinct(cur)).Draw(t, "fperm")
	case shape <= 5: // subset
		for _, x := range distinct(cur) {
			if rapid.Bool().Draw(t, "fin") {
				chs = append(chs, x)
			}
		}
	case shape <= 8: // several series per channel
		n := rapid.IntRange(2, 8).Draw(t, "fn")
		for i := 0; i < n; i++ {
			chs = append(chs, pick(t, "fch", cur))
		}
	case shape == 9: // beyond the 128-entry mask of telem.Frame
		n := rapid.IntRange(126, 134).Draw(t, "fbig")
		for i := 0; i < n; i++ {
			chs = append(chs, pick(t, "fch", cur))
		}
	default: // some channels outside the set
		n := rapid.IntRange(1, 6).Draw(t, "fn")
		for i := 0; i < n; i++ {
			chs = append(chs, rapid.IntRange(0, len(c.Chans)-1).Draw(t, "ach"))
		}
	}
	lenMode := rapid.IntRange(0, 2).Draw(t, "lenmode") // 0 equal, 1 varied, 2 mostly empty
	n0 := rapid.IntRange(0, 5).Draw(t, "n0")
	if rapid.IntRange(0, 30).Draw(t, "nbig") == 0 {
		n0 = rapid.IntRange(200, 400).Draw(t, "n0big")
	}
	trMode := rapid.IntRange(0, 3).Draw(t, "trmode") // 0 zero, 1 equal, 2 distinct, 3 mixed with zero
	tr0 := int64(rapid.IntRange(-5, 1000).Draw(t, "tr0"))
	alMode := rapid.IntRange(0, 4).Draw(t, "almode") // 0 zero, 1 equal, 2 pool, 3 chains, 4 chains with breaks
	al0 := uint64(pick(t, "al0d", []uint32{0, 1, 7, 0xFFFFFFFF}))<<32 | uint64(pick(t, "al0s", []uint32{0, 1, 5, 1000, 0xFFFFFFF0}))
	next := map[int]uint64{}
	var out []c08Ser
	for i, ch := range chs {
		s := c08Ser{Ch: ch, Seed: uint32(rapid.IntRange(0, 1<<20).Draw(t, "seed"))}
		switch lenMode {
		case 0:
			s.N = n0
		case 1:
			s.N = rapid.IntRange(0, 6).Draw(t, "n")
		default:
			if rapid.IntRange(0, 3).Draw(t, "ne") == 0 {
				s.N = rapid.IntRange(1, 3).Draw(t, "n")
			}
		}
		if c08Variable(c.Chans[ch].DT) {
			for j := 0; j < s.N; j++ {
				s.Sz = append(s.Sz, rapid.IntRange(0, 6).Draw(t, "sz"))
			}
		}
		switch trMode {
		case 1:
			s.S, s.E = tr0, tr0+10
		case 2:
			s.S = tr0 + int64(i)*10
			s.E = s.S + int64(rapid.IntRange(0, 12).Draw(t, "trl"))
		case 3:
			if rapid.Bool().Draw(t, "trz") {
				s.S, s.E = tr0, tr0+int64(rapid.IntRange(0, 3).Draw(t, "trl"))
			}
		}
		switch alMode {
		case 1:
			s.Al = al0
		case 2:
			s.Al = uint64(rapid.IntRange(0, 2).Draw(t, "ald"))<<32 | uint64(rapid.IntRange(0, 12).Draw(t, "als"))
		case 3, 4:
			a, ok := next[ch]
			if !ok {
				a = al0
			}
			if alMode == 4 {
				switch rapid.IntRange(0, 5).Draw(t, "brk") {
				case 0:
					a += 1 // gap
				case 1:
					a -= 1 // overlap
				case 2:
					a += 1 << 32 // next domain
				}
			}
			s.Al = a
			next[ch] = uint64(uint32(a>>32))<<32 | uint64(uint32(a)+uint32(s.N))
		}
		// the one interchangeable pair of data types
		if dt := c.Chans[ch].DT; (dt == "int64" || dt == "timestamp") && rapid.IntRange(0, 3).Draw(t, "swap") == 0 {
			if dt == "int64" {
				s.DT = "timestamp"
			} else {
				s.DT = "int64"
			}
		}
		out = append(out, s)
	}
	if alMode >= 3 && len(out) > 1 && rapid.Bool().Draw(t, "fshuf") {
		out = rapid.Permutation(out).Draw(t, "fsperm")
	}
	return out
}

var c08Huge = []uint32{0xFFFFFFFF, 0x80000000, 0x7FFFFFFF, 0x40000000, 1 << 28, 1 << 24, 1 << 22, 0x00FFFFFF, 1 << 16, 300}

func genFaults(t *rapid.T, max int) []c08Fault {
	n := rapid.IntRange(0, max).Draw(t, "nf")
	var out []c08Fault
	huge := 0
	for i := 0; i < n; i++ {
		f := c08Fault{}
		switch k := rapid.IntRange(0, 13).Draw(t, "fk"); {
		case k == 0:
			f.K = "truncall"
		case k == 1:
			f.K = "trunc"
			f.Pos = []int{rapid.IntRange(0, 4096).Draw(t, "p")}
		case k <= 3:
			f.K = "flip"
			m := rapid.IntRange(1, 4).Draw(t, "nflip")
			for j := 0; j < m; j++ {
				p := rapid.IntRange(0, 4096).Draw(t, "p")
				if rapid.Bool().Draw(t, "hdr") {
					p = rapid.IntRange(0, 12).Draw(t, "ph")
				}
				f.Pos = append(f.Pos, p*8+rapid.IntRange(0, 7).Draw(t, "bit"))
			}
		case k == 4:
			f.K = "set32"
			f.Pos = []int{rapid.IntRange(0, 64).Draw(t, "p")}
			f.Val = pick(t, "hv", c08Huge)
		case k <= 7:
			if huge >= 2 {
				f.K = "dup"
				break
			}
			huge++
			f.K = "len" // overwrite the j-th length field a decoder would read
			f.Pos = []int{rapid.IntRange(0, 3).Draw(t, "lf")}
			f.Val = pick(t, "hv", c08Huge)
		case k == 8:
			f.K = "seq"
			f.Val = pick(t, "sv", []uint32{0, 1, 2, 3, 4, 5, 9, 0xFFFFFFFF})
		case k == 9:
			f.K = "flags"
			f.Val = uint32(rapid.IntRange(0, 255).Draw(t, "fl"))
			if rapid.Bool().Draw(t, "fl6") {
				f.Val &= 63
			}
		case k == 10:
			f.K = "garbage"
			f.Raw = rapid.SliceOfN(rapid.Byte(), 0, 40).Draw(t, "raw")
			// mostly with a plausible header: flag byte, small sequence number
			if rapid.IntRange(0, 3).Draw(t, "plaus") != 0 {
				hdr := []byte{byte(rapid.IntRange(0, 63).Draw(t, "gfl")), byte(rapid.IntRange(0, 4).Draw(t, "gseq")), 0, 0, 0}
				f.Raw = append(hdr, f.Raw...)
			}
		case k == 11:
			f.K = "dup"
		default:
			f.K = "splice"
			f.Pos = []int{rapid.IntRange(0, 2).Draw(t, "sp")} // 0 self+self, 1 prev+self, 2 self+prev
		}
		if rapid.IntRange(0, 2).Draw(t, "fstream") == 0 {
			f.Chunk = rapid.IntRange(1, 9).Draw(t, "fchunk")
		}
		out = append(out, f)
	}
	return out
}

// genPairOps: static and dynamic modes.
func genPairOps(t *rapid.T, c *c08Case, genKeys func() []int) {
	applied := map[string]int{"e": 0, "d": 0}
	if c.Mode == "static" {
		applied["e"], applied["d"] = 1, 1
	}
	inflight := 0
	pendingE, pendingD := 0, 0 // updates queued since the side's last Encode/Decode
	n := rapid.IntRange(2, 24).Draw(t, "nops")
	upd := func(side string) {
		if applied[side] == len(c.Updates) {
			c.Updates = append(c.Updates, genKeys())
		}
		applied[side]++
		c.Ops = append(c.Ops, c08Op{K: "upd", Side: side})
		if side == "e" {
			pendingE++
		} else {
			pendingD++
		}
	}
	if c.Mode == "dynamic" {
		upd(pick(t, "first", []string{"e", "d"}))
	}
	for i := 0; i < n; i++ {
		k := rapid.IntRange(0, 19).Draw(t, "op")
		switch {
		case k < 4 && c.Mode == "dynamic":
			side := pick(t, "side", []string{"e", "d"})
			other := "d"
			if side == "d" {
				other = "e"
			}
			if applied[side]-applied[other] >= 3 || pendingE > 40 || pendingD > 40 {
				side = other
			}
			upd(side)
		case k < 11:
			if applied["e"] == 0 {
				upd("e")
			}
			op := c08Op{K: "enc", Frame: genFrame(t, c, c.Updates[applied["e"]-1])}
			if rapid.IntRange(0, 3).Draw(t, "estream") == 0 {
				op.Stream = true
			}
			c.Ops = append(c.Ops, op)
			inflight++
			pendingE = 0
		case k < 18:
			if inflight == 0 {
				continue
			}
			if applied["d"] == 0 {
				upd("d")
			}
			op := c08Op{K: "dec", Faults: genFaults(t, 3)}
			if rapid.IntRange(0, 2).Draw(t, "dstream") == 0 {
				op.Stream = true
				op.Chunk = rapid.IntRange(1, 9).Draw(t, "dchunk")
			}
			c.Ops = append(c.Ops, op)
			inflight--
			pendingD = 0
		case k == 18:
			if applied["d"] == 0 {
				upd("d")
			}
			c.Ops = append(c.Ops, c08Op{K: "raw", Raw: rapid.SliceOfN(rapid.Byte(), 0, 48).Draw(t, "rawb"), Faults: genFaults(t, 2)})
			pendingD = 0
		default:
			if c.Mode == "dynamic" && applied["e"] == applied["d"] && applied["e"] > 0 && rapid.IntRange(0, 4).Draw(t, "burst") == 0 {
				// many updates with no frame in between (the backlog channel is bounded)
				c.Ops = append(c.Ops, c08Op{K: "burst", N: rapid.IntRange(44, 56).Draw(t, "bn")})
				pendingE, pendingD = 0, 0
			}
		}
	}
	// drain
	for ; inflight > 0; inflight-- {
		if applied["d"] == 0 {
			upd("d")
		}
		c.Ops = append(c.Ops, c08Op{K: "dec", Faults: genFaults(t, 2)})
	}
}

// genHTTPOps: the HTTP framer codec, one flow per case.
func genHTTPOps(t *rapid.T, c *c08Case, genKeys func() []int) {
	// sent: updates the client has sent (and applied to itself); recv: delivered to
	// the server.
	sent, recv := 0, 0
	c2s := []string{} // kinds in flight client->server
	s2c := 0
	n := rapid.IntRange(2, 20).Draw(t, "nops")
	if rapid.IntRange(0, 3).Draw(t, "early") == 0 {
		// bytes that reach the server before any key set was negotiated
		raw := rapid.SliceOfN(rapid.Byte(), 0, 24).Draw(t, "eraw")
		if rapid.IntRange(0, 3).Draw(t, "e255") != 0 {
			raw = append([]byte{255}, raw...)
		}
		c.Ops = append(c.Ops, c08Op{K: "raw", Side: pick(t, "eside", []string{"s", "s", "c"}), Raw: raw})
	}
	for i := 0; i < n; i++ {
		k := rapid.IntRange(0, 19).Draw(t, "op")
		switch {
		case k < 3 || sent == 0:
			if len(c2s) > 30 {
				continue
			}
			ks := genKeys()
			if len(ks) == 0 && c.Flow != "writer" {
				// the streamer / iterator endpoints ignore a request without keys
				ks = []int{0}
			}
			c.Updates = append(c.Updates, ks)
			sent++
			c.Ops = append(c.Ops, c08Op{K: "req"})
			c2s = append(c2s, "req")
		case k < 10:
			if c.Flow == "writer" {
				c.Ops = append(c.Ops, c08Op{K: "frame", Frame: genFrame(t, c, c.Updates[sent-1])})
				c2s = append(c2s, "frame")
			} else {
				if recv == 0 {
					continue
				}
				c.Ops = append(c.Ops, c08Op{K: "frame", Frame: genFrame(t, c, c.Updates[recv-1])})
				s2c++
			}
		case k < 17:
			toServer := len(c2s) > 0 && (s2c == 0 || rapid.Bool().Draw(t, "dir"))
			if toServer {
				if c2s[0] == "req" {
					recv++
				}
				c2s = c2s[1:]
				c.Ops = append(c.Ops, c08Op{K: "deliver", Side: "s", Faults: genFaults(t, 3)})
			} else if s2c > 0 {
				s2c--
				c.Ops = append(c.Ops, c08Op{K: "deliver", Side: "c", Faults: genFaults(t, 3)})
			}
		case k == 17:
			raw := rapid.SliceOfN(rapid.Byte(), 0, 40).Draw(t, "hraw")
			switch rapid.IntRange(0, 3).Draw(t, "hpre") {
			case 0:
				raw = append([]byte{255}, raw...)
			case 1:
				raw = append([]byte{254}, raw...)
			case 2:
				raw = append([]byte{255, byte(rapid.IntRange(0, 63).Draw(t, "hfl")), byte(rapid.IntRange(0, 3).Draw(t, "hseq")), 0, 0, 0}, raw...)
			}
			c.Ops = append(c.Ops, c08Op{K: "raw", Side: pick(t, "hside", []string{"s", "c"}), Raw: raw, Faults: genFaults(t, 2)})
		default:
			if c.Flow != "writer" && rapid.IntRange(0, 3).Draw(t, "hburst") == 0 && len(c2s) == 0 && s2c == 0 {
				// many key-set requests while no frame flows back
				c.Ops = append(c.Ops, c08Op{K: "burst", N: rapid.IntRange(44, 56).Draw(t, "bn")})
			}
		}
	}
	for len(c2s) > 0 || s2c > 0 {
		if len(c2s) > 0 {
			c2s = c2s[1:]
			c.Ops = append(c.Ops, c08Op{K: "deliver", Side: "s", Faults: genFaults(t, 1)})
		} else {
			s2c--
			c.Ops = append(c.Ops, c08Op{K: "deliver", Side: "c", Faults: genFaults(t, 1)})
		}
	}
}
