package codec_test

// Injected by /verif via `go test -overlay`; never part of the repository.
// C08 executor for the static and dynamic modes, the shared fault injector, and the
// channel service the dynamic / http modes retrieve data types from.

import (
	"bytes"
	"context"
	"encoding/binary"
	"fmt"
	"os"
	"strings"
	"sync"
	"testing"

	"github.com/onsi/gomega"
	"github.com/synnaxlabs/synnax/pkg/distribution/channel"
	"github.com/synnaxlabs/synnax/pkg/distribution/framer"
	"github.com/synnaxlabs/synnax/pkg/distribution/framer/codec"
	"github.com/synnaxlabs/synnax/pkg/distribution/mock"
	"github.com/synnaxlabs/x/telem"
	"verifsim/drv"
)

// --- channel service (one per worker process) ------------------------------------------

var c08Svc struct {
	once    sync.Once
	svc     *channel.Service
	keys    []channel.Key
	missing channel.Key
	err     error
}

func c08Service() (*channel.Service, []channel.Key, error) {
	c08Svc.once.Do(func() {
		defer func() {
			if r := recover(); r != nil {
				c08Svc.err = fmt.Errorf("provisioning the channel service panicked: %v", r)
			}
		}()
		gomega.RegisterFailHandler(func(msg string, _ ...int) { panic(msg) })
		ctx := context.Background()
		dist := mock.NewCluster().Provision(ctx)
		chs := make([]channel.Channel, len(c08Catalogue))
		for i, dt := range c08Catalogue {
			chs[i] = channel.Channel{Name: fmt.Sprintf("verif_c08_%d", i), DataType: telem.DataType(dt), Virtual: true}
			if i == 0 {
				chs[i].Virtual, chs[i].IsIndex = false, true
			}
		}
		if err := dist.Channel.NewWriter(nil).CreateMany(ctx, &chs); err != nil {
			c08Svc.err = err
			return
		}
		var max channel.Key
		for _, ch := range chs {
			c08Svc.keys = append(c08Svc.keys, ch.Key())
			if ch.Key() > max {
				max = ch.Key()
			}
		}
		c08Svc.missing = max + 1000
		c08Svc.svc = dist.Channel
	})
	return c08Svc.svc, c08Svc.keys, c08Svc.err
}

// --- environment --------------------------------------------------------------------

type c08Env struct {
	c     *c08Case
	st    *drv.Stats
	ctx   context.Context
	keys  []uint32 // real key per Case.Chans entry
	muted map[string]bool
	trace strings.Builder
	// what made the case non-trivial
	compared, faulted int
}

func newEnv(c *c08Case, st *drv.Stats) (*c08Env, *drv.Failure) {
	e := &c08Env{c: c, st: st, ctx: context.Background(), muted: map[string]bool{}}
	for _, m := range strings.Split(os.Getenv("VERIF_C08_MUTE"), ",") {
		if m != "" {
			e.muted[m] = true
		}
	}
	if c.Mode == "static" {
		for _, ch := range c.Chans {
			e.keys = append(e.keys, ch.Key)
		}
		return e, nil
	}
	_, keys, err := c08Service()
	if err != nil {
		return nil, drv.Failf("harness", "service", "channel service: %v", err)
	}
	for _, ch := range c.Chans {
		if int(ch.Key) >= len(keys) || c08Catalogue[ch.Key] != ch.DT {
			return nil, drv.Failf("harness", "catalogue", "case refers to catalogue entry %d (%s) which this harness does not have", ch.Key, ch.DT)
		}
		e.keys = append(e.keys, uint32(keys[ch.Key]))
	}
	return e, nil
}

// verdict filters a failure through the mute list and the recorded known findings so
// that the case keeps going past them.
func (e *c08Env) verdict(f *drv.Failure) *drv.Failure {
	if f == nil {
		return nil
	}
	for m := range e.muted {
		// "class" or "class=substring of the signature"
		cl, sub, _ := strings.Cut(m, "=")
		if cl == f.Class && strings.Contains(f.Sig, sub) {
			e.st.Probe("muted_" + f.Class)
			return nil
		}
	}
	if f.Class != "harness" && e.st.IsKnown(f) {
		return nil
	}
	return f
}

func (e *c08Env) stateOf(u []int) stateM {
	s := stateM{dt: map[uint32]string{}}
	for _, i := range u {
		s.keys = append(s.keys, e.keys[i])
		s.dt[e.keys[i]] = e.c.Chans[i].DT
	}
	return s
}

func (e *c08Env) realKeys(u []int, reversed bool) []channel.Key {
	out := make([]channel.Key, 0, len(u))
	for _, i := range u {
		out = append(out, channel.Key(e.keys[i]))
	}
	if reversed {
		for i, j := 0, len(out)-1; i < j; i, j = i+1, j-1 {
			out[i], out[j] = out[j], out[i]
		}
	}
	return out
}

// buildFrame returns the real frame plus the model of every series with its real key.
func (e *c08Env) buildFrame(sp []c08Ser) (framer.Frame, []uint32, []mSer, *drv.Failure) {
	keys := make([]uint32, 0, len(sp))
	ms := make([]mSer, 0, len(sp))
	ss := make([]telem.Series, 0, len(sp))
	for _, s := range sp {
		if s.Ch < 0 || s.Ch >= len(e.c.Chans) {
			return framer.Frame{}, nil, nil, drv.Failf("harness", "bad-channel-index", "series refers to channel %d", s.Ch)
		}
		dt := e.c.Chans[s.Ch].DT
		if s.DT != "" {
			dt = s.DT
		}
		m, r := buildSeries(s, dt)
		if err := r.Validate(); err != nil {
			return framer.Frame{}, nil, nil, drv.Failf("harness", "invalid-series", "generated series is not valid: %v", err)
		}
		if int(r.Len()) != s.N {
			return framer.Frame{}, nil, nil, drv.Failf("harness", "series-len", "generated %s series has %d samples, want %d", dt, r.Len(), s.N)
		}
		keys = append(keys, e.keys[s.Ch])
		ms = append(ms, m)
		ss = append(ss, r)
	}
	return realFrame(keys, ss), keys, ms, nil
}

// --- fault injection ------------------------------------------------------------------

type c08Variant struct {
	b     []byte
	kind  string
	chunk int
}

// variants expands one fault into the corrupted byte strings it stands for. msg is the
// genuine message, prev the message delivered before it, env the number of envelope
// bytes in front of the compact format.
func variants(msg, prev []byte, f c08Fault, states []stateM, env int) []c08Variant {
	cp := func() []byte { return append([]byte{}, msg...) }
	v := func(b []byte) []c08Variant { return []c08Variant{{b: b, kind: f.K, chunk: f.Chunk}} }
	switch f.K {
	case "truncall":
		var out []c08Variant
		for i := 0; i < len(msg) && i < 600; i++ {
			out = append(out, c08Variant{b: cp()[:i], kind: f.K, chunk: f.Chunk})
		}
		return out
	case "trunc":
		if len(msg) == 0 {
			return nil
		}
		return v(cp()[:f.Pos[0]%len(msg)])
	case "flip":
		if len(msg) == 0 {
			return nil
		}
		b := cp()
		for _, p := range f.Pos {
			b[(p/8)%len(b)] ^= 1 << (p % 8)
		}
		return v(b)
	case "set32":
		if len(msg) < 4 {
			return nil
		}
		b := cp()
		binary.LittleEndian.PutUint32(b[f.Pos[0]%(len(b)-3):], f.Val)
		return v(b)
	case "len":
		if len(msg) <= env {
			return nil
		}
		b := cp()
		fields, _ := walkWire(b[env:], states)
		pos := -1
		if len(fields) > 0 {
			pos = env + fields[f.Pos[0]%len(fields)].pos
		} else if len(b) >= env+9 {
			pos = env + 5
		}
		if pos < 0 {
			return nil
		}
		binary.LittleEndian.PutUint32(b[pos:], f.Val)
		return v(b)
	case "seq":
		if len(msg) < env+5 {
			return nil
		}
		b := cp()
		binary.LittleEndian.PutUint32(b[env+1:], f.Val)
		return v(b)
	case "flags":
		if len(msg) < env+1 {
			return nil
		}
		b := cp()
		b[env] = byte(f.Val)
		return v(b)
	case "garbage":
		return v(append(append([]byte{}, msg[:min(env, len(msg))]...), f.Raw...))
	case "splice":
		switch f.Pos[0] {
		case 0:
			return v(append(cp(), msg...))
		case 1:
			return v(append(append([]byte{}, prev...), msg...))
		default:
			return v(append(cp(), prev...))
		}
	}
	return nil
}

// hostile delivers one corrupted byte string to dec and applies the safety oracle.
// dec returns the frame (if the message type carries one) and the error.
func (e *c08Env) hostile(what string, b []byte, chunk int, states []stateM, env int, dec func(b []byte, chunk int) (framer.Frame, bool, error)) *drv.Failure {
	var worst *lenField
	compact := env == 0 || len(b) > 0 && b[0] == 255
	if compact && len(b) >= env {
		body, w, clamped := clampClaims(b[env:], states)
		if clamped {
			b = append(append([]byte{}, b[:env]...), body...)
			e.st.Fault("length_clamped")
		}
		worst = w
		if w != nil && w.claim > int64(c08AllocSlack+c08AllocPerIn*len(b)) {
			e.st.Probe("hostile_claim_beyond_bound")
		}
	}
	var (
		fr      framer.Frame
		isFrame bool
	)
	err, fail := guarded(what, len(b), worst, func() error {
		var derr error
		fr, isFrame, derr = dec(b, chunk)
		return derr
	})
	e.faulted++
	if fail != nil {
		return fail
	}
	if err != nil {
		e.st.Probe("hostile_error")
		return nil
	}
	e.st.Probe("hostile_accepted")
	if isFrame && compact {
		return frameInvariants(what, b[env:], fr, states)
	}
	return nil
}

// --- pair executor ---------------------------------------------------------------------

type c08Side struct {
	cdc    *codec.Codec
	states []stateM
	cursor int
}

type c08Flight struct {
	b    []byte
	sum  uint64
	exp  map[uint32][]mSer
	seq  int
	nser int
}

func runC08(t *testing.T, c c08Case, st *drv.Stats) *drv.Failure {
	e, fail := newEnv(&c, st)
	if fail != nil {
		return fail
	}
	var f *drv.Failure
	if c.Mode == "http" {
		f = runHTTP(e)
	} else {
		f = runPair(e)
	}
	if f != nil {
		return f
	}
	st.Case(drv.Hash64(c.Mode, c.Flow, e.trace.String()), e.compared > 0 || e.faulted > 0)
	return nil
}

func (e *c08Env) plainDecode(cdc *codec.Codec) func(b []byte, chunk int) (framer.Frame, bool, error) {
	return func(b []byte, chunk int) (framer.Frame, bool, error) {
		if chunk > 0 {
			fr, err := cdc.DecodeStream(&chunkReader{b: b, n: chunk})
			return fr, true, err
		}
		fr, err := cdc.Decode(b)
		return fr, true, err
	}
}

func runPair(e *c08Env) *drv.Failure {
	c := e.c
	var opts []codec.Option
	if c.NoMerge {
		opts = append(opts, codec.DisableAlignmentCompression())
	}
	enc, dec := &c08Side{}, &c08Side{}
	if c.Mode == "static" {
		if len(c.Updates) != 1 {
			return drv.Failf("harness", "static-updates", "static case with %d channel sets", len(c.Updates))
		}
		s := e.stateOf(c.Updates[0])
		dts := func(ks []channel.Key) []telem.DataType {
			out := make([]telem.DataType, len(ks))
			for i, k := range ks {
				out[i] = telem.DataType(s.dt[uint32(k)])
			}
			return out
		}
		ek, dk := e.realKeys(c.Updates[0], false), e.realKeys(c.Updates[0], true)
		enc.cdc = codec.NewStatic(ek, dts(ek), opts...)
		dec.cdc = codec.NewStatic(dk, dts(dk))
		enc.states, dec.states = []stateM{s}, []stateM{s}
		enc.cursor, dec.cursor = 1, 1
	} else {
		svc, _, _ := c08Service()
		enc.cdc = codec.NewDynamic(svc, opts...)
		dec.cdc = codec.NewDynamic(svc)
	}
	update := func(sd *c08Side, name string, u []int) *drv.Failure {
		if n, capa := codec.VerifPending(sd.cdc); n == capa {
			// the next Update would block until an Encode/Decode drains the backlog
			e.st.Probe("update_backlog_full")
			if name == "e" {
				_, _ = sd.cdc.Encode(e.ctx, framer.Frame{})
			} else {
				_, _ = sd.cdc.Decode(nil)
			}
		}
		if len(sd.states)%4 == 2 {
			// a key set naming a channel that does not exist is refused as a whole and
			// must leave the backlog as it was (the peer will not have it either)
			pend, _ := codec.VerifPending(sd.cdc)
			before := int(codec.VerifSeqNum(sd.cdc)) + pend
			err := sd.cdc.Update(e.ctx, append(e.realKeys(u, false), c08Svc.missing))
			pend, _ = codec.VerifPending(sd.cdc)
			if after := int(codec.VerifSeqNum(sd.cdc)) + pend; err == nil || after != before {
				return drv.Failf("harness", "missing-channel-update", "Update naming a missing channel: err=%v, backlog %d -> %d; the model does not cover this", err, before, after)
			}
			e.st.Probe("update_missing_channel_refused")
		}
		if err := sd.cdc.Update(e.ctx, e.realKeys(u, name == "d")); err != nil {
			return drv.Failf("update-refused", "existing-channels", "Update(%v) on side %s: %v", u, name, err)
		}
		sd.states = append(sd.states, e.stateOf(u))
		return nil
	}
	var (
		queue    []c08Flight
		prevMsg  []byte
		lastFr   framer.Frame
		lastSnap map[uint32][]mSer
		haveLast bool
	)
	checkAlias := func(what string) *drv.Failure {
		if !haveLast {
			return nil
		}
		now, _ := frameToModel(lastFr)
		for _, k := range sortedKeys(lastSnap) {
			if listEq(lastSnap[k], now[k]) != -1 {
				return drv.Failf("decoded-frame-aliased", "changed-by-later-call", "%s: the frame returned by the previous Decode changed: channel %d was %v, now %v", what, k, lastSnap[k], now[k])
			}
		}
		return nil
	}
	genuine := func(what string, fl c08Flight, stream bool, chunk int) *drv.Failure {
		if drv.Hash64(string(fl.b)) != fl.sum {
			return drv.Failf("encoded-bytes-aliased", "changed-by-later-encode", "%s: the bytes returned by Encode changed after later Encode calls", what)
		}
		if !stream {
			chunk = 0
		} else if chunk == 0 {
			chunk = 1 << 20
		}
		var fr framer.Frame
		err, fail := guarded(what, len(fl.b), nil, func() error {
			var derr error
			fr, _, derr = e.plainDecode(dec.cdc)(fl.b, chunk)
			return derr
		})
		if fail != nil {
			return fail
		}
		if fl.seq > len(dec.states) {
			// the decoder has not seen the channel set this frame was encoded under
			e.st.Probe("decoder_behind")
			if err == nil {
				return drv.Failf("desync-not-reported", "decoder-behind", "%s: frame encoded under state %d decoded without error by a decoder that has %d states: %v", what, fl.seq, len(dec.states), fr)
			}
			fmt.Fprintf(&e.trace, "B")
			return nil
		}
		if fl.seq < len(dec.states) {
			e.st.Probe("decoder_ahead")
		}
		if err != nil {
			return drv.Failf("roundtrip-decode-error", fmt.Sprintf("flags=%06b", fl.b[0]&63), "%s: decoding a genuine message (state %d, decoder has %d states) failed: %v", what, fl.seq, len(dec.states), err)
		}
		if f := compareRoundTrip(what, fl.exp, fr, !c.NoMerge); f != nil {
			return f
		}
		if f := checkAlias(what); f != nil {
			return f
		}
		lastFr, haveLast = fr, true
		lastSnap, _ = frameToModel(fr)
		if fl.nser > 0 {
			e.compared++
		}
		return nil
	}
	for i, op := range c.Ops {
		what := fmt.Sprintf("op %d %s", i, op.K)
		fmt.Fprintf(&e.trace, "|%s", op.K)
		switch op.K {
		case "upd":
			sd, other := enc, dec
			if op.Side == "d" {
				sd, other = dec, enc
			}
			if c.Mode != "dynamic" || sd.cursor >= len(c.Updates) {
				return drv.Failf("harness", "bad-upd", "%s: no update to apply", what)
			}
			if f := update(sd, op.Side, c.Updates[sd.cursor]); f != nil {
				return f
			}
			sd.cursor++
			if d := len(sd.states) - len(other.states); d >= 2 {
				e.st.Probe("sides_two_or_more_apart")
			}
			fmt.Fprintf(&e.trace, "%s%d", op.Side, len(c.Updates[sd.cursor-1]))
		case "burst":
			if c.Mode != "dynamic" || len(enc.states) == 0 || enc.cursor != dec.cursor {
				return drv.Failf("harness", "bad-burst", "%s: burst needs both sides at the same update", what)
			}
			u := c.Updates[enc.cursor-1]
			for j := 0; j < op.N; j++ {
				if f := update(enc, "e", u); f != nil {
					return f
				}
				if f := update(dec, "d", u); f != nil {
					return f
				}
			}
			e.st.Probe("update_burst")
		case "enc":
			if len(enc.states) == 0 {
				return drv.Failf("harness", "enc-before-update", "%s", what)
			}
			fr, keys, ms, f := e.buildFrame(op.Frame)
			if f != nil {
				return f
			}
			cur := enc.states[len(enc.states)-1]
			exp := expectedOf(keys, ms, cur)
			nser := 0
			for _, l := range exp {
				nser += len(l)
			}
			e.probeFrame(op.Frame, keys, cur, exp)
			var (
				b   []byte
				err error
			)
			pf := func() (p *drv.Failure) {
				defer func() {
					if r := recover(); r != nil {
						p = drv.Failf("encode-panic", panicSig(r), "%s: Encode panicked on a valid frame: %v", what, r)
					}
				}()
				if op.Stream {
					var buf bytes.Buffer
					err = enc.cdc.EncodeStream(e.ctx, &buf, fr)
					b = append([]byte{}, buf.Bytes()...)
				} else {
					b, err = enc.cdc.Encode(e.ctx, fr)
				}
				return nil
			}()
			if pf != nil {
				return pf
			}
			if err != nil {
				return drv.Failf("valid-frame-refused", "encode", "%s: Encode refused a valid frame over the agreed channel set: %v", what, err)
			}
			if got := int(codec.VerifSeqNum(enc.cdc)); got != len(enc.states) {
				// every Update accepted before this Encode must be in force for it
				return drv.Failf("encoder-state-behind", "encode-after-updates", "%s: after %d accepted updates the encoder encoded under state number %d (it must encode under the latest agreed channel set)", what, len(enc.states), got)
			}
			if len(b) >= 1 {
				fmt.Fprintf(&e.trace, "%02x/%d", b[0], len(b))
				e.st.Probe(fmt.Sprintf("flags_%06b", b[0]&63))
			}
			queue = append(queue, c08Flight{b: b, sum: drv.Hash64(string(b)), exp: exp, seq: len(enc.states), nser: nser})
		case "dec":
			if len(queue) == 0 || len(dec.states) == 0 {
				return drv.Failf("harness", "bad-dec", "%s: nothing to deliver / decoder not updated", what)
			}
			fl := queue[0]
			queue = queue[1:]
			// pending updates are folded in by the first decode call; the model's
			// backlog already contains them
			for fi, ft := range op.Faults {
				e.st.Fault(ft.K)
				if ft.K == "dup" {
					if f := e.verdict(genuine(what+" (duplicate)", fl, op.Stream, op.Chunk)); f != nil {
						return f
					}
					continue
				}
				for vi, v := range variants(fl.b, prevMsg, ft, dec.states, 0) {
					w := fmt.Sprintf("%s fault %d %s variant %d (%d bytes)", what, fi, ft.K, vi, len(v.b))
					if f := e.verdict(e.hostile(w, v.b, v.chunk, dec.states, 0, e.plainDecode(dec.cdc))); f != nil {
						return f
					}
				}
			}
			if f := e.verdict(genuine(what, fl, op.Stream, op.Chunk)); f != nil {
				return f
			}
			prevMsg = fl.b
		case "raw":
			if len(dec.states) == 0 {
				return drv.Failf("harness", "raw-before-update", "%s", what)
			}
			e.st.Fault("raw")
			if f := e.verdict(e.hostile(what, op.Raw, 0, dec.states, 0, e.plainDecode(dec.cdc))); f != nil {
				return f
			}
			for fi, ft := range op.Faults {
				for vi, v := range variants(op.Raw, prevMsg, ft, dec.states, 0) {
					w := fmt.Sprintf("%s fault %d %s variant %d", what, fi, ft.K, vi)
					if f := e.verdict(e.hostile(w, v.b, v.chunk, dec.states, 0, e.plainDecode(dec.cdc))); f != nil {
						return f
					}
				}
			}
		default:
			return drv.Failf("harness", "bad-op", "%s", what)
		}
		if c.Mode == "dynamic" {
			// decoder's processed + pending updates must be what the model applied
			pend, _ := codec.VerifPending(dec.cdc)
			if got := int(codec.VerifSeqNum(dec.cdc)) + pend; got != len(dec.states) {
				return drv.Failf("update-lost", "decoder", "%s: the decoder holds %d processed+pending updates after %d accepted Update calls", what, got, len(dec.states))
			}
		}
	}
	return nil
}

// probeFrame counts the situations the quantifier names.
func (e *c08Env) probeFrame(sp []c08Ser, keys []uint32, cur stateM, exp map[uint32][]mSer) {
	st := e.st
	if len(sp) == 0 {
		st.Probe("frame_empty")
	}
	if len(sp) >= 128 {
		st.Probe("frame_beyond_mask")
	}
	outside := false
	for _, k := range keys {
		if !cur.has(k) {
			outside = true
		}
	}
	if outside {
		st.Probe("frame_key_outside_set")
	}
	if len(exp) == 0 && len(sp) > 0 {
		st.Probe("frame_filtered_to_empty")
	}
	distinct := map[uint32]bool{}
	for _, k := range cur.keys {
		distinct[k] = true
	}
	if len(distinct) != len(cur.keys) {
		st.Probe("state_repeated_key")
	}
	if len(exp) > 0 && len(exp) < len(distinct) {
		st.Probe("frame_subset")
	}
	merged, multi, emptySer, variable, swap := false, false, false, false, false
	for _, k := range sortedKeys(exp) {
		l := exp[k]
		if len(l) > 1 {
			multi = true
		}
		if len(normalize(l)) < len(l) {
			merged = true
		}
		for _, s := range l {
			if s.n == 0 {
				emptySer = true
			}
			if c08Variable(cur.dt[k]) {
				variable = true
			}
		}
	}
	for _, s := range sp {
		if s.DT != "" {
			swap = true
		}
	}
	if multi {
		st.Probe("frame_repeated_key")
	}
	if merged {
		st.Probe("frame_contiguous_run")
	}
	if emptySer {
		st.Probe("series_empty")
	}
	if variable {
		st.Probe("series_variable")
	}
	if swap {
		st.Probe("series_int64_timestamp_swap")
	}
}
