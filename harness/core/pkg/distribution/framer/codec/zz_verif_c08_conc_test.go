package codec_test

// Injected by /verif via `go test -overlay`; never part of the repository.
// c08-conc: the dynamic codec as the WebSocket endpoints use it: Update is called on the
// goroutine that receives requests, Encode on the goroutine that sends frames. Two tasks
// run under the seeded scheduler inside a synctest bubble with codec.go instrumented
// (every atomic operation, channel operation and select in it is a scheduling point):
// the updater applies a sequence of growing channel sets, the encoder encodes frames
// over all channels. Oracle (the statement's "round trip over the agreed channel set ...
// in every codec state (dynamic before/after updates)"): once an Update has RETURNED it
// is in force for every Encode that STARTS afterwards — the encoded message carries a
// sequence number at least as high as the number of updates that had returned when the
// call began, and, after both tasks have ended, one more Encode is under the last update
// and carries every channel of the last set. No Encode may panic with "codec was not
// updated" after an Update returned.

import (
	"context"
	"encoding/binary"
	"fmt"
	"strconv"
	"sync/atomic"
	"testing"
	"testing/synctest"
	"time"

	"github.com/synnaxlabs/synnax/pkg/distribution/channel"
	"github.com/synnaxlabs/synnax/pkg/distribution/framer/codec"
	"github.com/synnaxlabs/synnax/pkg/distribution/framer/frame"
	"github.com/synnaxlabs/x/telem"
	"pgregory.net/rapid"
	"verifsim/drv"
	"verifsim/sim"
)

type c08cCase struct {
	Seed  int64 `json:"seed"`
	Strat int   `json:"strat"`
	// Pre updates are applied, and folded in by one Encode, before the tasks start
	Pre     int `json:"pre"`
	Updates int `json:"updates"`
	Encodes int `json:"encodes"`
	// Pause: the encoder yields this many extra task steps between two encodes
	Pause int `json:"pause"`
}

func genC08Conc(t *rapid.T) c08cCase {
	return c08cCase{
		Seed:    int64(rapid.IntRange(1, 1<<30).Draw(t, "seed")),
		Strat:   rapid.IntRange(0, 2).Draw(t, "strat"),
		Pre:     rapid.IntRange(0, 1).Draw(t, "pre"),
		Updates: rapid.IntRange(1, 4).Draw(t, "updates"),
		Encodes: rapid.IntRange(1, 6).Draw(t, "encodes"),
		Pause:   rapid.IntRange(0, 2).Draw(t, "pause"),
	}
}

// c08cKeys is the channel set of update number n (1-based): keys 1..n+1, all int64.
func c08cKeys(n int) (channel.Keys, map[channel.Key]telem.DataType) {
	keys := make(channel.Keys, 0, n+1)
	dts := map[channel.Key]telem.DataType{}
	for k := 1; k <= n+1; k++ {
		keys = append(keys, channel.Key(k))
		dts[channel.Key(k)] = telem.Int64T
	}
	return keys, dts
}

func runC08Conc(t *testing.T, c c08cCase, st *drv.Stats) (fail *drv.Failure) {
	defer func() {
		if p := recover(); p != nil && fail == nil {
			fail = drv.Failf("panic", "harness:"+fmt.Sprint(p), "panic: %v", p)
		}
	}()
	total := c.Pre + c.Updates
	allKeys, _ := c08cKeys(total)
	mkFrame := func(v int64) frame.Frame {
		series := make([]telem.Series, len(allKeys))
		for i := range allKeys {
			series[i] = telem.NewSeriesV[int64](v, v+1)
		}
		return frame.NewMulti(allKeys, series)
	}
	// seqOf reads the sequence number the message was encoded under (flags byte, then
	// the number) and how many series it carries cannot exceed the keys of that state
	seqOf := func(b []byte) int {
		if len(b) < 5 {
			return -1
		}
		return int(binary.LittleEndian.Uint32(b[1:5]))
	}
	synctest.Test(t, func(t *testing.T) {
		ctx := context.Background()
		cdc := codec.NewDynamic(nil)
		for i := 1; i <= c.Pre; i++ {
			k, d := c08cKeys(i)
			codec.VerifUpdate(cdc, k, d)
		}
		if c.Pre > 0 {
			b, err := cdc.Encode(ctx, mkFrame(0))
			if err != nil || seqOf(b) != c.Pre {
				fail = drv.Failf("harness", "pre", "sequential encode after %d updates: seq %d err %v", c.Pre, seqOf(b), err)
				return
			}
		}
		synctest.Wait()
		strat := []sim.Strategy{sim.StratRandom, sim.StratSticky, sim.StratPCT}[c.Strat%3]
		sc := sim.New(sim.Config{Strategy: strat, SwitchInv: 2, PCTDepth: 3, PCTSteps: 200, Classes: sim.ClassAll, MaxSteps: 100_000, HorizonNS: int64(10 * time.Second), TickNS: 1, QuantumNS: 1_000_003}, sim.NewChoices(uint64(c.Seed)))
		sim.Install(sc)
		defer sim.Uninstall()
		tasks := sc.NewTasks()
		var returned atomic.Int64 // updates that have returned (incl. Pre)
		returned.Store(int64(c.Pre))
		var encFail *drv.Failure
		var raced atomic.Int64
		tasks.Go("updater", func() error {
			for i := c.Pre + 1; i <= total; i++ {
				sim.Yield(sim.ClassTask, "updater before update "+strconv.Itoa(i))
				k, d := c08cKeys(i)
				codec.VerifUpdate(cdc, k, d)
				returned.Store(int64(i))
			}
			return nil
		})
		tasks.Go("encoder", func() error {
			for e := 0; e < c.Encodes; e++ {
				for p := 0; p <= c.Pause; p++ {
					sim.Yield(sim.ClassTask, "encoder before encode "+strconv.Itoa(e))
				}
				floor := int(returned.Load())
				var (
					b   []byte
					err error
					pan any
				)
				func() {
					defer func() { pan = recover() }()
					b, err = cdc.Encode(ctx, mkFrame(int64(10*e)))
				}()
				after := int(returned.Load())
				if after > floor {
					raced.Add(1)
				}
				switch {
				case pan != nil && floor >= 1:
					encFail = drv.Failf("encode-panics-after-update-returned", "dynamic", "encode %d: %d updates had returned when Encode was called, yet it panicked: %v", e, floor, pan)
					return nil
				case pan != nil:
					// no update had returned when the call began: the documented
					// programming error (Encode before the first Update)
					st.Probe("encode_before_first_update_panicked")
					continue
				case err != nil:
					encFail = drv.Failf("valid-frame-refused", "conc-encode", "encode %d refused a valid frame: %v", e, err)
					return nil
				}
				if got := seqOf(b); got < floor {
					encFail = drv.Failf("encoder-state-behind", "update-returned-before-encode-began", "encode %d began after %d updates had returned but encoded under state number %d", e, floor, got)
					return nil
				}
			}
			return nil
		})
		err := sc.Run(tasks.Done)
		st.AddSteps(sc.Steps)
		for cl, n := range sc.ByClass {
			st.ProbeN("yield_"+cl.String(), n)
		}
		if err != nil {
			switch e := err.(type) {
			case *sim.ErrDeadlock:
				fail = drv.Failf("deadlock", "codec", "Update and Encode stopped making progress\n%s", e.Stacks)
			default:
				st.Inconcl("step_budget_exceeded")
			}
			sc.Abort()
			return
		}
		sim.Uninstall()
		synctest.Wait()
		if encFail != nil {
			fail = encFail
			return
		}
		if raced.Load() > 0 {
			st.Probe("update_returned_during_an_encode")
		}
		// both tasks have ended: every update is in force for the next Encode
		b, err2 := cdc.Encode(ctx, mkFrame(1000))
		if err2 != nil {
			fail = drv.Failf("valid-frame-refused", "conc-final", "final encode refused a valid frame: %v", err2)
			return
		}
		if got := seqOf(b); got != total {
			fail = drv.Failf("encoder-state-behind", "update-lost-until-the-next-update", "all %d updates had returned and both goroutines had ended, yet the next Encode is under state number %d: an update stays unapplied until another Update arrives", total, got)
			return
		}
		dec := codec.NewDynamic(nil)
		for i := 1; i <= total; i++ {
			k, d := c08cKeys(i)
			codec.VerifUpdate(dec, k, d)
		}
		fr, err3 := dec.Decode(b)
		if err3 != nil || fr.Count() != len(allKeys) {
			fail = drv.Failf("round-trip", "conc-final", "final frame over the last channel set: decoded %d of %d series, err %v", fr.Count(), len(allKeys), err3)
			return
		}
		st.Probe("concurrent_update_encode_case")
		st.Case(drv.Hash64(fmt.Sprint(c.Pre, c.Updates, c.Encodes, c.Pause), strconv.FormatUint(sc.Hash(), 16)), true)
	})
	return fail
}
