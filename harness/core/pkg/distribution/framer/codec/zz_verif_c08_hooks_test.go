package codec

import (
	"github.com/synnaxlabs/synnax/pkg/distribution/channel"
	"github.com/synnaxlabs/x/telem"
)

// Injected by /verif via `go test -overlay`; never part of the repository.
// Read-only views of the codec's sequence-number backlog for the C08 engine, which
// lives in the external test package (it also drives the HTTP framer codec, which
// imports this package).

// VerifSeqNum is the sequence number of the newest channel-set state the codec has
// processed.
func VerifSeqNum(c *Codec) uint32 { return c.mu.seqNum }

// VerifStates is the number of channel-set states in the backlog.
func VerifStates(c *Codec) int { return len(c.mu.states) }

// VerifPending returns how many updates are queued but not yet processed by an
// Encode/Decode call, and how many can be queued before Update blocks.
func VerifPending(c *Codec) (n, capacity int) { return len(c.mu.updates), cap(c.mu.updates) }

// VerifUpdate is Update without the channel-service look-up: the part of Update that
// hands the new state to the encoding/decoding goroutine.
func VerifUpdate(c *Codec, keys channel.Keys, dts map[channel.Key]telem.DataType) {
	c.update(keys, dts)
}
