package codec_test

// Injected by /verif via `go test -overlay`; never part of the repository.
// C08 reference model: what a frame is, what "the same frame up to key order and the
// merging of alignment-contiguous series" means, the wire layout walker used to keep
// claimed lengths of fault-injected messages within what the worker process can
// survive, and the guarded decode call (panic, allocation, result invariants).

import (
	"bytes"
	"encoding/binary"
	"fmt"
	"io"
	"regexp"
	"runtime/metrics"
	"sort"
	"strings"

	"github.com/synnaxlabs/synnax/pkg/distribution/channel"
	"github.com/synnaxlabs/synnax/pkg/distribution/framer"
	"github.com/synnaxlabs/synnax/pkg/distribution/framer/frame"
	"github.com/synnaxlabs/x/telem"
	"verifsim/drv"
)

var c08DTs = []string{
	"uint8", "uint16", "uint32", "uint64", "int8", "int16", "int32", "int64",
	"float32", "float64", "timestamp", "uuid", "string", "json", "bytes",
}

func c08Density(dt string) int {
	switch dt {
	case "uint8", "int8":
		return 1
	case "uint16", "int16":
		return 2
	case "uint32", "int32", "float32":
		return 4
	case "uint64", "int64", "float64", "timestamp":
		return 8
	case "uuid":
		return 16
	}
	return 0
}

func c08Variable(dt string) bool { return dt == "string" || dt == "json" || dt == "bytes" }

// mSer is the model of one series.
type mSer struct {
	dt         string
	data       []byte
	n          int
	start, end int64
	align      uint64
}

func (s mSer) String() string {
	return fmt.Sprintf("{%s n=%d al=%d-%d tr=[%d,%d) %x}", s.dt, s.n, uint32(s.align>>32), uint32(s.align), s.start, s.end, s.data)
}

// stateM is one agreed channel-set state (one Update / the static set).
type stateM struct {
	keys []uint32 // as given (may repeat)
	dt   map[uint32]string
}

func (s stateM) has(k uint32) bool { _, ok := s.dt[k]; return ok }

// splitmix-style expansion of a seed drawn by rapid into sample bytes.
type c08Rng struct{ s uint64 }

func (r *c08Rng) next() uint64 {
	r.s += 0x9E3779B97F4A7C15
	z := r.s
	z = (z ^ (z >> 30)) * 0xBF58476D1CE4E5B9
	z = (z ^ (z >> 27)) * 0x94D049BB133111EB
	return z ^ (z >> 31)
}

var c08Strs = []string{"", "a", "é", "日本", "x\ny", "\x00", "abc", "ÿ", "0123456789"}
var c08JSONs = []string{"{}", "[]", "0", "null", `"s"`, `{"a":1}`, `[1,2]`, `{"k":"\n"}`, "true"}

// buildSeries turns a series spec into the model series and the real series.
func buildSeries(sp c08Ser, dt string) (mSer, telem.Series) {
	rng := &c08Rng{s: uint64(sp.Seed)*2654435761 + 1}
	var data []byte
	if c08Variable(dt) {
		for i := 0; i < sp.N; i++ {
			var sample []byte
			sz := 0
			if i < len(sp.Sz) {
				sz = sp.Sz[i]
			}
			switch dt {
			case "string":
				sample = []byte(c08Strs[(int(rng.next()%7)+sz)%len(c08Strs)])
			case "json":
				sample = []byte(c08JSONs[(int(rng.next()%7)+sz)%len(c08JSONs)])
			default:
				sample = make([]byte, sz)
				for j := range sample {
					sample[j] = byte(rng.next())
				}
			}
			var l [4]byte
			binary.LittleEndian.PutUint32(l[:], uint32(len(sample)))
			data = append(data, l[:]...)
			data = append(data, sample...)
		}
	} else {
		data = make([]byte, sp.N*c08Density(dt))
		for j := range data {
			v := rng.next()
			switch v % 11 {
			case 0:
				data[j] = 0
			case 1:
				data[j] = 0xFF
			default:
				data[j] = byte(v >> 8)
			}
		}
	}
	if data == nil {
		data = []byte{}
	}
	m := mSer{dt: dt, data: data, n: sp.N, start: sp.S, end: sp.E, align: sp.Al}
	s := telem.Series{
		DataType:  telem.DataType(dt),
		Data:      append([]byte{}, data...),
		TimeRange: telem.TimeRange{Start: telem.TimeStamp(sp.S), End: telem.TimeStamp(sp.E)},
		Alignment: telem.Alignment(sp.Al),
	}
	return m, s
}

// expectedOf computes what the decoder must produce for a frame encoded under st:
// per channel of the state, the frame's series for that channel in (alignment, frame
// order) order; channels outside the state are not part of the agreed set.
func expectedOf(keys []uint32, sers []mSer, st stateM) map[uint32][]mSer {
	out := map[uint32][]mSer{}
	for i, k := range keys {
		if !st.has(k) {
			continue
		}
		s := sers[i]
		s.dt = c08Canon(st.dt[k])
		out[k] = append(out[k], s)
	}
	for k := range out {
		l := out[k]
		sort.SliceStable(l, func(i, j int) bool { return l[i].align < l[j].align })
	}
	return out
}

// int64 and timestamp are the same wire type to the codec; compare modulo that.
func c08Canon(dt string) string {
	if dt == "timestamp" {
		return "int64"
	}
	return dt
}

func c08Contig(a, b mSer) bool {
	return uint32(a.align>>32) == uint32(b.align>>32) && uint32(a.align)+uint32(a.n) == uint32(b.align)
}

// normalize merges every maximal run of alignment-contiguous neighbours.
func normalize(l []mSer) []mSer {
	var out []mSer
	for _, s := range l {
		if n := len(out); n > 0 && c08Contig(out[n-1], s) {
			p := out[n-1]
			p.data = append(append([]byte{}, p.data...), s.data...)
			p.n += s.n
			if s.start < p.start {
				p.start = s.start
			}
			if s.end > p.end {
				p.end = s.end
			}
			out[n-1] = p
			continue
		}
		out = append(out, s)
	}
	return out
}

func serEq(a, b mSer) bool {
	return a.dt == b.dt && a.n == b.n && a.start == b.start && a.end == b.end && a.align == b.align && bytes.Equal(a.data, b.data)
}

func listEq(a, b []mSer) int {
	if len(a) != len(b) {
		return -2
	}
	for i := range a {
		if !serEq(a[i], b[i]) {
			return i
		}
	}
	return -1
}

// frameToModel reads a decoded frame into per-key lists (decode order preserved).
func frameToModel(fr framer.Frame) (map[uint32][]mSer, []uint32) {
	out := map[uint32][]mSer{}
	var order []uint32
	ks := fr.KeysSlice()
	ss := fr.SeriesSlice()
	for i, k := range ks {
		s := ss[i]
		m := mSer{dt: c08Canon(string(s.DataType)), data: append([]byte{}, s.Data...), n: int(s.Len()),
			start: int64(s.TimeRange.Start), end: int64(s.TimeRange.End), align: uint64(s.Alignment)}
		if _, ok := out[uint32(k)]; !ok {
			order = append(order, uint32(k))
		}
		out[uint32(k)] = append(out[uint32(k)], m)
	}
	return out, order
}

func sortedKeys(m map[uint32][]mSer) []uint32 {
	ks := make([]uint32, 0, len(m))
	for k := range m {
		ks = append(ks, k)
	}
	sort.Slice(ks, func(i, j int) bool { return ks[i] < ks[j] })
	return ks
}

// compareRoundTrip is the round-trip oracle. merge: the encoder may merge
// alignment-contiguous series of a channel.
func compareRoundTrip(what string, exp map[uint32][]mSer, got framer.Frame, merge bool) *drv.Failure {
	gm, _ := frameToModel(got)
	for _, k := range sortedKeys(gm) {
		if _, ok := exp[k]; !ok {
			return drv.Failf("roundtrip-mismatch", "extra-channel", "%s: decoded frame has channel %d which the encoded frame did not carry: %v", what, k, gm[k])
		}
	}
	for _, k := range sortedKeys(exp) {
		e, g := exp[k], gm[k]
		if len(g) == 0 {
			return drv.Failf("roundtrip-mismatch", "missing-channel", "%s: channel %d (%d series) missing from the decoded frame", what, k, len(e))
		}
		for i := 1; i < len(g); i++ {
			if g[i].align < g[i-1].align {
				return drv.Failf("roundtrip-mismatch", "series-order", "%s: channel %d decoded series not in alignment order: %v", what, k, g)
			}
		}
		if !merge {
			if i := listEq(e, g); i != -1 {
				return drv.Failf("roundtrip-mismatch", "series:"+mismatchKind(e, g, i), "%s: channel %d without merging: want %v, got %v", what, k, e, g)
			}
			continue
		}
		ne, ng := normalize(e), normalize(g)
		if i := listEq(ne, ng); i != -1 {
			return drv.Failf("roundtrip-mismatch", "merged:"+mismatchKind(ne, ng, i), "%s: channel %d: want (after merging contiguous runs) %v, got %v; input series %v, decoded series %v", what, k, ne, ng, e, g)
		}
		if len(g) > len(e) || len(g) < len(ne) {
			return drv.Failf("roundtrip-mismatch", "merged:count", "%s: channel %d: %d input series, %d maximal runs, but %d decoded series", what, k, len(e), len(ne), len(g))
		}
	}
	return nil
}

func mismatchKind(e, g []mSer, i int) string {
	if i == -2 {
		return "count"
	}
	a, b := e[i], g[i]
	switch {
	case a.dt != b.dt:
		return "datatype"
	case !bytes.Equal(a.data, b.data):
		return "data"
	case a.n != b.n:
		return "len"
	case a.align != b.align:
		return "alignment"
	default:
		return "timerange"
	}
}

// --- wire walker ------------------------------------------------------------------

const (
	c08ClaimCap   = 16 << 20 // largest buffer a fault-injected length may claim
	c08AllocSlack = 1 << 20
	c08AllocPerIn = 128
)

type lenField struct {
	pos       int // offset of the uint32 in the message
	density   int // bytes per unit (1 for variable types)
	header    bool
	variable  bool
	claim     int64
	dataAvail int // bytes of message after the field(s) when the buffer is sized
}

// walkWire follows the layout of the compact format (flag byte, sequence number,
// optional shared length / time range / alignment, then per series optional key,
// optional length, data, optional time range, optional alignment) as far as the
// message allows and returns the length fields a decoder would size buffers from.
// states: the receiving side's backlog, index = sequence number - 1.
func walkWire(msg []byte, states []stateM) (fields []lenField, seqKnown bool) {
	if len(msg) < 5 {
		return nil, false
	}
	fl := msg[0]
	allPresent, trZero, trEq, lenEq, alEq, alZero := fl&1 != 0, fl&2 != 0, fl&4 != 0, fl&8 != 0, fl&16 != 0, fl&32 != 0
	seq := binary.LittleEndian.Uint32(msg[1:5])
	if seq == 0 || int64(seq) > int64(len(states)) {
		return nil, false
	}
	st := states[seq-1]
	off := 5
	hdrPos := -1
	var hdrLen uint32
	if lenEq {
		if off+4 > len(msg) {
			return nil, true
		}
		hdrPos, hdrLen = off, binary.LittleEndian.Uint32(msg[off:])
		off += 4
	}
	if trEq && !trZero {
		off += 16
	}
	if alEq && !alZero {
		off += 8
	}
	if off > len(msg) {
		return nil, true
	}
	sorted := append([]uint32{}, st.keys...)
	sort.Slice(sorted, func(i, j int) bool { return sorted[i] < sorted[j] })
	one := func(key uint32) bool {
		count := hdrLen
		pos := hdrPos
		if !lenEq {
			if off+4 > len(msg) {
				return false
			}
			pos, count = off, binary.LittleEndian.Uint32(msg[off:])
			off += 4
		}
		dt, ok := st.dt[key]
		if !ok {
			return false
		}
		den := c08Density(dt)
		if c08Variable(dt) {
			den = 1
		}
		claim := int64(count) * int64(den)
		fields = append(fields, lenField{pos: pos, density: den, header: lenEq, variable: c08Variable(dt), claim: claim, dataAvail: len(msg) - off})
		if claim > int64(len(msg)-off) {
			return false
		}
		off += int(claim)
		if !trEq {
			off += 16
		}
		if !alEq {
			off += 8
		}
		return off <= len(msg)
	}
	if allPresent {
		for _, k := range sorted {
			if !one(k) {
				break
			}
		}
		return fields, true
	}
	for off+4 <= len(msg) {
		k := binary.LittleEndian.Uint32(msg[off:])
		off += 4
		if !one(k) {
			break
		}
	}
	return fields, true
}

// clampClaims rewrites (in a copy) the first length field whose claim exceeds the cap
// so that the worker survives a decoder that trusts it; the claim stays far out of
// proportion to the message. Returns the message, the largest claim left in it and the
// field carrying it.
func clampClaims(msg []byte, states []stateM) ([]byte, *lenField, bool) {
	fields, _ := walkWire(msg, states)
	clamped := false
	for _, f := range fields {
		if f.claim > c08ClaimCap {
			out := append([]byte{}, msg...)
			binary.LittleEndian.PutUint32(out[f.pos:], uint32(c08ClaimCap/f.density))
			msg = out
			clamped = true
			break
		}
	}
	fields, _ = walkWire(msg, states)
	var worst *lenField
	for i := range fields {
		if worst == nil || fields[i].claim > worst.claim {
			worst = &fields[i]
		}
	}
	return msg, worst, clamped
}

// --- guarded decode ----------------------------------------------------------------

var c08AllocSample = []metrics.Sample{{Name: "/gc/heap/allocs:bytes"}}

func heapAllocs() uint64 {
	metrics.Read(c08AllocSample)
	return c08AllocSample[0].Value.Uint64()
}

// chunkReader hands out at most n bytes per Read (short reads of a byte stream).
type chunkReader struct {
	b []byte
	n int
}

func (c *chunkReader) Read(p []byte) (int, error) {
	if len(c.b) == 0 {
		return 0, io.EOF
	}
	n := c.n
	if n > len(p) {
		n = len(p)
	}
	if n > len(c.b) {
		n = len(c.b)
	}
	copy(p, c.b[:n])
	c.b = c.b[n:]
	return n, nil
}

var c08Digits = regexp.MustCompile(`[0-9]+`)

func panicSig(r any) string {
	s := fmt.Sprint(r)
	if i := strings.IndexByte(s, '\n'); i >= 0 {
		s = s[:i]
	}
	s = c08Digits.ReplaceAllString(s, "N")
	if len(s) > 100 {
		s = s[:100]
	}
	return s
}

// guarded runs one decode call on possibly hostile bytes and judges the safety half of
// the property: no panic, no allocation out of proportion to the input.
func guarded(what string, inputLen int, worst *lenField, call func() error) (err error, fail *drv.Failure) {
	before := heapAllocs()
	func() {
		defer func() {
			if r := recover(); r != nil {
				fail = drv.Failf("decode-panic", panicSig(r), "%s: decode panicked: %v", what, r)
			}
		}()
		err = call()
	}()
	if fail != nil {
		return nil, fail
	}
	delta := int64(heapAllocs() - before)
	bound := int64(c08AllocSlack + c08AllocPerIn*inputLen)
	if delta > bound {
		kind := "unattributed"
		if worst != nil {
			kind = "per-series-length"
			if worst.header {
				kind = "shared-length"
			}
			if worst.variable {
				kind += "/variable"
			} else {
				kind += "/fixed"
			}
		}
		claim := int64(-1)
		if worst != nil {
			claim = worst.claim
		}
		return err, drv.Failf("decode-alloc", "buffer-sized-from-wire-length:"+kind,
			"%s: decoding %d bytes allocated %d bytes (bound %d); largest length field claims %d bytes; decode returned err=%v", what, inputLen, delta, bound, claim, err)
	}
	return err, nil
}

// frameInvariants checks a frame returned for arbitrary bytes against the state the
// message's sequence number selects.
func frameInvariants(what string, msg []byte, fr framer.Frame, states []stateM) *drv.Failure {
	ks, ss := fr.KeysSlice(), fr.SeriesSlice()
	if len(ks) != len(ss) {
		return drv.Failf("garbage-frame", "keys-series-count", "%s: returned frame has %d keys and %d series", what, len(ks), len(ss))
	}
	if len(msg) < 5 {
		return drv.Failf("garbage-frame", "short-input-accepted", "%s: %d input bytes decoded without error", what, len(msg))
	}
	seq := binary.LittleEndian.Uint32(msg[1:5])
	if seq == 0 || int64(seq) > int64(len(states)) {
		return drv.Failf("garbage-frame", "unknown-seq-accepted", "%s: message with sequence number %d decoded although the decoder has %d states", what, seq, len(states))
	}
	st := states[seq-1]
	total := 0
	for i, k := range ks {
		dt, ok := st.dt[uint32(k)]
		if !ok {
			return drv.Failf("garbage-frame", "key-outside-state", "%s: returned frame has key %d which is not in state %d", what, k, seq)
		}
		if c08Canon(string(ss[i].DataType)) != c08Canon(dt) {
			return drv.Failf("garbage-frame", "datatype", "%s: key %d decoded as %s, state says %s", what, k, ss[i].DataType, dt)
		}
		if d := c08Density(dt); d > 0 && len(ss[i].Data)%d != 0 {
			return drv.Failf("garbage-frame", "partial-sample", "%s: key %d (%s) has %d data bytes", what, k, dt, len(ss[i].Data))
		}
		total += len(ss[i].Data)
	}
	if total > len(msg) {
		return drv.Failf("garbage-frame", "more-data-than-input", "%s: returned frame carries %d data bytes from a %d byte message", what, total, len(msg))
	}
	return nil
}

func realFrame(keys []uint32, sers []telem.Series) framer.Frame {
	ks := make(channel.Keys, len(keys))
	for i, k := range keys {
		ks[i] = channel.Key(k)
	}
	return frame.NewMulti(ks, sers)
}
