package codec_test

// Injected by /verif via `go test -overlay`; never part of the repository.
// C08 executor for the HTTP framer codec (core/pkg/transport/http/framer): a client and
// a server instance of the per-connection codec, for the writer, streamer and iterator
// WebSocket message types. Key sets are negotiated by the JSON request the way the
// server does it (the server's codec is updated by DECODING the request).

import (
	"fmt"
	"runtime"

	fhttp "github.com/synnaxlabs/freighter/http"
	"github.com/synnaxlabs/synnax/pkg/distribution/channel"
	"github.com/synnaxlabs/synnax/pkg/distribution/framer"
	"github.com/synnaxlabs/synnax/pkg/distribution/framer/codec"
	"github.com/synnaxlabs/synnax/pkg/distribution/framer/iterator"
	"github.com/synnaxlabs/synnax/pkg/distribution/framer/writer"
	hframer "github.com/synnaxlabs/synnax/pkg/transport/http/framer"
	xjson "github.com/synnaxlabs/x/encoding/json"
	"verifsim/drv"
)

type c08HTTPSide struct {
	cdc    *hframer.Codec
	states []stateM
}

type c08HFlight struct {
	b    []byte
	kind string // req | frame
	u    []int
	exp  map[uint32][]mSer
	seq  int
	nser int
}

func newHTTPCodec(svc *channel.Service) *hframer.Codec {
	return &hframer.Codec{Codec: codec.NewDynamic(svc), LowerPerfCodec: xjson.Codec}
}

func runHTTP(e *c08Env) *drv.Failure {
	c := e.c
	svc, _, _ := c08Service()
	cl, sv := &c08HTTPSide{cdc: newHTTPCodec(svc)}, &c08HTTPSide{cdc: newHTTPCodec(svc)}
	scratch := newHTTPCodec(svc)
	// --- message construction per flow
	encodeReq := func(keys channel.Keys) ([]byte, error) {
		switch c.Flow {
		case "writer":
			return cl.cdc.Encode(e.ctx, fhttp.WSMessage[hframer.WriterRequest]{Type: fhttp.WSMessageTypeData,
				Payload: hframer.WriterRequest{Command: writer.CommandOpen, Config: hframer.WriterConfig{Keys: keys}}})
		case "streamer":
			return cl.cdc.Encode(e.ctx, fhttp.WSMessage[hframer.StreamerRequest]{Type: fhttp.WSMessageTypeData,
				Payload: hframer.StreamerRequest{Keys: keys}})
		default:
			return cl.cdc.Encode(e.ctx, fhttp.WSMessage[hframer.IteratorRequest]{Type: fhttp.WSMessageTypeData,
				Payload: hframer.IteratorRequest{Keys: keys}})
		}
	}
	encodeFrame := func(fr framer.Frame) ([]byte, error) {
		switch c.Flow {
		case "writer":
			return cl.cdc.Encode(e.ctx, fhttp.WSMessage[hframer.WriterRequest]{Type: fhttp.WSMessageTypeData,
				Payload: hframer.WriterRequest{Command: writer.CommandWrite, Frame: fr}})
		case "streamer":
			return sv.cdc.Encode(e.ctx, fhttp.WSMessage[hframer.StreamerResponse]{Type: fhttp.WSMessageTypeData,
				Payload: hframer.StreamerResponse{Frame: fr}})
		default:
			return sv.cdc.Encode(e.ctx, fhttp.WSMessage[hframer.IteratorResponse]{Type: fhttp.WSMessageTypeData,
				Payload: hframer.IteratorResponse{Variant: iterator.ResponseVariantData, Frame: fr}})
		}
	}
	decodeOn := func(cd *hframer.Codec, b []byte, chunk int, v any) error {
		if chunk > 0 {
			return cd.DecodeStream(e.ctx, &chunkReader{b: b, n: chunk}, v)
		}
		return cd.Decode(e.ctx, b, v)
	}
	// decodeAtServer / decodeAtClient: the message type the endpoint of this flow reads.
	decodeAtServer := func(cd *hframer.Codec) func(b []byte, chunk int) (framer.Frame, bool, error) {
		return func(b []byte, chunk int) (framer.Frame, bool, error) {
			switch c.Flow {
			case "writer":
				var m fhttp.WSMessage[hframer.WriterRequest]
				err := decodeOn(cd, b, chunk, &m)
				return m.Payload.Frame, true, err
			case "streamer":
				var m fhttp.WSMessage[hframer.StreamerRequest]
				return framer.Frame{}, false, decodeOn(cd, b, chunk, &m)
			default:
				var m fhttp.WSMessage[hframer.IteratorRequest]
				return framer.Frame{}, false, decodeOn(cd, b, chunk, &m)
			}
		}
	}
	decodeAtClient := func(b []byte, chunk int) (framer.Frame, bool, error) {
		switch c.Flow {
		case "writer":
			var m fhttp.WSMessage[hframer.WriterResponse]
			return framer.Frame{}, false, decodeOn(cl.cdc, b, chunk, &m)
		case "streamer":
			var m fhttp.WSMessage[hframer.StreamerResponse]
			err := decodeOn(cl.cdc, b, chunk, &m)
			return m.Payload.Frame, true, err
		default:
			var m fhttp.WSMessage[hframer.IteratorResponse]
			err := decodeOn(cl.cdc, b, chunk, &m)
			return m.Payload.Frame, true, err
		}
	}
	// hostileTo delivers corrupted bytes to an endpoint. Bytes that the server would
	// read as a JSON request can change its key set, which the peer would not follow;
	// those go to a scratch instance of the same codec (safety verdict only).
	hostileTo := func(what, side string, b []byte, chunk int) *drv.Failure {
		if side == "c" {
			if len(cl.states) == 0 {
				e.st.Probe("http_raw_skipped_client_not_negotiated")
				return nil
			}
			return e.hostile(what, b, chunk, cl.states, 1, decodeAtClient)
		}
		compact := c.Flow == "writer" && len(b) > 0 && b[0] == 255
		if !compact {
			if n, capa := codec.VerifPending(scratch.Codec); n >= capa-1 {
				scratch = newHTTPCodec(svc)
			}
			e.st.Probe("http_hostile_json_to_server")
			return e.hostile(what, b, chunk, nil, 1, decodeAtServer(scratch))
		}
		if len(sv.states) == 0 {
			e.st.Probe("http_data_before_negotiation")
		}
		return e.hostile(what, b, chunk, sv.states, 1, decodeAtServer(sv.cdc))
	}
	applyFaults := func(what, side string, msg, prev []byte, faults []c08Fault, states []stateM, again func(string) *drv.Failure) *drv.Failure {
		for fi, ft := range faults {
			e.st.Fault(ft.K)
			if ft.K == "dup" {
				if again != nil {
					if f := e.verdict(again(what + " (duplicate)")); f != nil {
						return f
					}
				}
				continue
			}
			for vi, v := range variants(msg, prev, ft, states, 1) {
				w := fmt.Sprintf("%s fault %d %s variant %d (%d bytes)", what, fi, ft.K, vi, len(v.b))
				if f := e.verdict(hostileTo(w, side, v.b, v.chunk)); f != nil {
					return f
				}
			}
		}
		return nil
	}
	// serverReq delivers a genuine key-set request to the server.
	serverReq := func(what string, fl c08HFlight) *drv.Failure {
		blocked, waiting := false, 0
		var err error
		if n, capa := codec.VerifPending(sv.cdc.Codec); n == capa {
			// the server only drains its backlog when it encodes a frame
			waiting = n
			done := make(chan error, 1)
			go func() {
				_, _, derr := decodeAtServer(sv.cdc)(fl.b, 0)
				done <- derr
			}()
			finished := false
			for i := 0; i < 20000 && !finished; i++ {
				runtime.Gosched()
				select {
				case err = <-done:
					finished = true
				default:
				}
			}
			if !finished {
				blocked = true
				_, _ = sv.cdc.Codec.Encode(e.ctx, framer.Frame{})
				err = <-done
			}
		} else {
			var fail *drv.Failure
			err, fail = guarded(what, len(fl.b), nil, func() error {
				_, _, derr := decodeAtServer(sv.cdc)(fl.b, 0)
				return derr
			})
			if fail != nil {
				return fail
			}
		}
		if err != nil {
			return drv.Failf("valid-request-refused", c.Flow, "%s: server could not decode a genuine key-set request: %v", what, err)
		}
		sv.states = append(sv.states, e.stateOf(fl.u))
		pend, _ := codec.VerifPending(sv.cdc.Codec)
		if got := int(codec.VerifSeqNum(sv.cdc.Codec)) + pend; got != len(sv.states) {
			return drv.Failf("update-lost", "http-server", "%s: the server side holds %d processed+pending updates after %d accepted key-set requests", what, got, len(sv.states))
		}
		if blocked {
			return drv.Failf("decode-blocks", "update-backlog-full:"+c.Flow,
				"%s: decoding a key-set request did not return while %d earlier key sets were waiting for the next encoded frame (it returned only after the harness encoded a frame)", what, waiting)
		}
		return nil
	}
	genuineFrame := func(side string, fl c08HFlight) func(string) *drv.Failure {
		return func(what string) *drv.Failure {
			var (
				fr     framer.Frame
				states = cl.states
			)
			err, fail := guarded(what, len(fl.b), nil, func() error {
				var derr error
				if side == "s" {
					fr, _, derr = decodeAtServer(sv.cdc)(fl.b, 0)
					states = sv.states
				} else {
					fr, _, derr = decodeAtClient(fl.b, 0)
				}
				return derr
			})
			if fail != nil {
				return fail
			}
			if fl.seq > len(states) {
				return drv.Failf("harness", "http-decoder-behind", "%s: frame of state %d reached a side with %d states", what, fl.seq, len(states))
			}
			if fl.seq < len(states) {
				e.st.Probe("decoder_ahead")
			}
			if err != nil {
				return drv.Failf("roundtrip-decode-error", "http:"+c.Flow, "%s: decoding a genuine %s frame message failed: %v", what, c.Flow, err)
			}
			if f := compareRoundTrip(what, fl.exp, fr, true); f != nil {
				return f
			}
			if fl.nser > 0 {
				e.compared++
			}
			return nil
		}
	}
	sendReq := func(what string, u []int) (c08HFlight, *drv.Failure) {
		keys := channel.Keys(e.realKeys(u, false))
		if len(keys) == 0 && c.Flow != "writer" {
			return c08HFlight{}, drv.Failf("harness", "empty-key-request", "%s: the %s endpoint ignores requests without keys", what, c.Flow)
		}
		b, err := encodeReq(keys)
		if err != nil {
			return c08HFlight{}, drv.Failf("harness", "encode-request", "%s: %v", what, err)
		}
		if n, capa := codec.VerifPending(cl.cdc.Codec); n == capa {
			_, _ = cl.cdc.Codec.Decode(nil)
		}
		if err := cl.cdc.Update(e.ctx, keys); err != nil {
			return c08HFlight{}, drv.Failf("update-refused", "existing-channels", "%s: client Update: %v", what, err)
		}
		cl.states = append(cl.states, e.stateOf(u))
		return c08HFlight{b: b, kind: "req", u: u}, nil
	}

	var (
		c2s, s2c   []c08HFlight
		prevS      []byte
		prevC      []byte
		nextUpdate int
	)
	for i, op := range c.Ops {
		what := fmt.Sprintf("op %d %s/%s", i, c.Flow, op.K)
		fmt.Fprintf(&e.trace, "|%s", op.K)
		switch op.K {
		case "req":
			if nextUpdate >= len(c.Updates) {
				return drv.Failf("harness", "bad-req", "%s: no key set left", what)
			}
			fl, f := sendReq(what, c.Updates[nextUpdate])
			if f != nil {
				return f
			}
			nextUpdate++
			c2s = append(c2s, fl)
		case "frame":
			fr, keys, ms, f := e.buildFrame(op.Frame)
			if f != nil {
				return f
			}
			from := sv
			if c.Flow == "writer" {
				from = cl
			}
			if len(from.states) == 0 {
				return drv.Failf("harness", "frame-before-negotiation", "%s", what)
			}
			cur := from.states[len(from.states)-1]
			exp := expectedOf(keys, ms, cur)
			nser := 0
			for _, l := range exp {
				nser += len(l)
			}
			e.probeFrame(op.Frame, keys, cur, exp)
			var (
				b   []byte
				err error
			)
			if pf := func() (p *drv.Failure) {
				defer func() {
					if r := recover(); r != nil {
						p = drv.Failf("encode-panic", panicSig(r), "%s: Encode panicked on a valid frame: %v", what, r)
					}
				}()
				b, err = encodeFrame(fr)
				return nil
			}(); pf != nil {
				return pf
			}
			if err != nil {
				return drv.Failf("valid-frame-refused", "http:"+c.Flow, "%s: Encode refused a valid frame: %v", what, err)
			}
			if len(b) > 1 && b[0] == 255 {
				e.st.Probe("http_compact_frame")
				e.st.Probe(fmt.Sprintf("flags_%06b", b[1]&63))
				fmt.Fprintf(&e.trace, "%02x/%d", b[1], len(b))
			} else {
				e.st.Probe("http_json_frame")
			}
			fl := c08HFlight{b: append([]byte{}, b...), kind: "frame", exp: exp, seq: len(from.states), nser: nser}
			if c.Flow == "writer" {
				c2s = append(c2s, fl)
			} else {
				s2c = append(s2c, fl)
			}
		case "deliver":
			if op.Side == "s" {
				if len(c2s) == 0 {
					return drv.Failf("harness", "bad-deliver", "%s: nothing in flight to the server", what)
				}
				fl := c2s[0]
				c2s = c2s[1:]
				if fl.kind == "req" {
					// corrupted requests first (scratch instance), then the genuine one
					if f := applyFaults(what, "s", fl.b, prevS, op.Faults, nil, nil); f != nil {
						return f
					}
					if f := e.verdict(serverReq(what, fl)); f != nil {
						return f
					}
				} else {
					if f := applyFaults(what, "s", fl.b, prevS, op.Faults, sv.states, genuineFrame("s", fl)); f != nil {
						return f
					}
					if f := e.verdict(genuineFrame("s", fl)(what)); f != nil {
						return f
					}
				}
				prevS = fl.b
			} else {
				if len(s2c) == 0 {
					return drv.Failf("harness", "bad-deliver", "%s: nothing in flight to the client", what)
				}
				fl := s2c[0]
				s2c = s2c[1:]
				if f := applyFaults(what, "c", fl.b, prevC, op.Faults, cl.states, genuineFrame("c", fl)); f != nil {
					return f
				}
				if f := e.verdict(genuineFrame("c", fl)(what)); f != nil {
					return f
				}
				prevC = fl.b
			}
		case "raw":
			e.st.Fault("raw")
			if f := e.verdict(hostileTo(what, op.Side, op.Raw, 0)); f != nil {
				return f
			}
			states := sv.states
			if op.Side == "c" {
				states = cl.states
			}
			if f := applyFaults(what, op.Side, op.Raw, nil, op.Faults, states, nil); f != nil {
				return f
			}
		case "burst":
			if len(cl.states) == 0 || len(cl.states) != len(sv.states) || nextUpdate == 0 {
				return drv.Failf("harness", "bad-burst", "%s: burst needs a negotiated, quiet connection", what)
			}
			u := c.Updates[nextUpdate-1]
			for j := 0; j < op.N; j++ {
				fl, f := sendReq(what, u)
				if f != nil {
					return f
				}
				if f := e.verdict(serverReq(fmt.Sprintf("%s request %d", what, j), fl)); f != nil {
					return f
				}
			}
			e.st.Probe("update_burst")
		default:
			return drv.Failf("harness", "bad-op", "%s", what)
		}
	}
	return nil
}
