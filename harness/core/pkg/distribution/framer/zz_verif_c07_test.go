package framer_test

// Injected by /verif via `go test -overlay`; never part of the repository.
// core-framer engine (C07): a whole in-memory Synnax cluster (1-3 nodes: aspen membership
// and kv gossip, channel service, distribution writer/iterator services with their peer
// transports, one in-memory cesium per node) provisioned per case inside a synctest
// bubble (virtual clock for gossip intervals and Eventually polling). A case places 1-3
// index groups (an index channel and 0-2 data channels, fixed and variable length) on
// drawn leaseholders plus optional free virtual channels, then runs a sequential script of
// writers opened through drawn gateway nodes on drawn subsets of the groups (frames that
// mix local, remote and free channels), iterators opened through drawn gateways on drawn
// channel subsets and bounds, local reads on every node's own cesium, and opens on
// channels that do not exist. Oracle: a per-channel timestamp->value map (what a
// single-node store given the same writes holds, C01's model).

import (
	"context"
	"fmt"
	"sort"
	"strconv"
	"strings"
	"testing"
	"testing/synctest"
	"time"

	"github.com/onsi/gomega"
	"github.com/synnaxlabs/cesium"
	"github.com/synnaxlabs/synnax/pkg/distribution/channel"
	"github.com/synnaxlabs/synnax/pkg/distribution/framer/frame"
	"github.com/synnaxlabs/synnax/pkg/distribution/framer/iterator"
	"github.com/synnaxlabs/synnax/pkg/distribution/framer/writer"
	"github.com/synnaxlabs/synnax/pkg/distribution/mock"
	"github.com/synnaxlabs/synnax/pkg/distribution/node"
	"github.com/synnaxlabs/x/telem"
	"pgregory.net/rapid"
	"verifsim/drv"
)

func TestVerif(t *testing.T) {
	drv.Main(t,
		drv.Wrap(drv.Engine[c07Case]{Property: "C07", Name: "c07", Gen: genC07, Run: runC07, BatchChecks: 10, GCEvery: 2}),
	)
}

type c07Group struct {
	Lease int      `json:"lease"`
	Data  []string `json:"data"` // data types of the data channels: "int64", "string"
}

type c07Op struct {
	K       string `json:"k"` // write read local badopen
	Gateway int    `json:"gateway"`
	Groups  []int  `json:"groups,omitempty"` // indices into the case's groups
	Free    bool   `json:"free,omitempty"`   // write: include the free virtual channel
	Frames  []int  `json:"frames,omitempty"` // write: samples per frame
	Gap     int64  `json:"gap,omitempty"`    // write: distance between samples
	Slot    int    `json:"slot,omitempty"`   // write: which 100-unit slot of the time axis it fills (slots are used once, in any order)
	A       int64  `json:"a,omitempty"`      // read: bounds (in units of the time axis used by writes)
	B       int64  `json:"b,omitempty"`
	Span    int64  `json:"span,omitempty"`  // read: 0 = one step over everything, else fixed span sweep
	Iter    bool   `json:"iter,omitempty"`  // badopen: iterator instead of writer
	Mixed   bool   `json:"mixed,omitempty"` // badopen: the missing key comes together with existing ones
	Lease   int    `json:"lease,omitempty"` // badopen: node the missing key claims to be leased to
	// write: every frame also carries series of the channels of a group that is NOT one of
	// the writer's (as a frame taken from a wider stream does), masked out with KeepKeys:
	// such series must go nowhere. Extra is that group's index + 1.
	Extra int `json:"extra,omitempty"`
	// write: auto-commit off: nothing may be visible anywhere before Commit
	NoAuto bool `json:"no_auto,omitempty"`
	// read: open on wide bounds, then SetBounds to [A,B)
	Rebound bool `json:"rebound,omitempty"`
	// read: walk backwards (SeekLast, Prev)
	Rev bool `json:"rev,omitempty"`
}

type c07Case struct {
	Nodes  int        `json:"nodes"`
	Groups []c07Group `json:"groups"`
	Free   bool       `json:"free"`
	Ops    []c07Op    `json:"ops"`
}

const c07Unit = int64(telem.Second)

func genC07(t *rapid.T) c07Case {
	c := c07Case{Nodes: rapid.IntRange(1, 3).Draw(t, "nodes"), Free: rapid.IntRange(0, 2).Draw(t, "free") == 0}
	for g := rapid.IntRange(1, 3).Draw(t, "groups"); g > 0; g-- {
		grp := c07Group{Lease: rapid.IntRange(1, c.Nodes).Draw(t, "lease")}
		for d := rapid.IntRange(0, 2).Draw(t, "ndata"); d > 0; d-- {
			grp.Data = append(grp.Data, rapid.SampledFrom([]string{"int64", "int64", "string"}).Draw(t, "dt"))
		}
		c.Groups = append(c.Groups, grp)
	}
	subset := func(label string) []int {
		var out []int
		for i := range c.Groups {
			if rapid.IntRange(0, 2).Draw(t, label) > 0 {
				out = append(out, i)
			}
		}
		if len(out) == 0 {
			out = []int{rapid.IntRange(0, len(c.Groups)-1).Draw(t, label+"1")}
		}
		return out
	}
	writes := 0
	usedSlots := map[int]bool{}
	for n := rapid.IntRange(2, 8).Draw(t, "n"); n > 0; n-- {
		gw := rapid.IntRange(1, c.Nodes).Draw(t, "gw")
		switch k := rapid.IntRange(0, 9).Draw(t, "k"); {
		case k < 4 || writes == 0:
			op := c07Op{K: "write", Gateway: gw, Groups: subset("wg"), Free: c.Free && rapid.Bool().Draw(t, "wfree"), Gap: int64(rapid.IntRange(1, 3).Draw(t, "gap"))}
			// slots are filled in a drawn order, so later writers create domains before
			// existing ones
			for {
				op.Slot = rapid.IntRange(1, 12).Draw(t, "slot")
				if !usedSlots[op.Slot] {
					usedSlots[op.Slot] = true
					break
				}
			}
			for f := rapid.IntRange(1, 3).Draw(t, "nframes"); f > 0; f-- {
				op.Frames = append(op.Frames, rapid.IntRange(1, 3).Draw(t, "ns"))
			}
			if rapid.IntRange(0, 2).Draw(t, "extra") == 0 {
				inOp := map[int]bool{}
				for _, gi := range op.Groups {
					inOp[gi] = true
				}
				var others []int
				for gi := range c.Groups {
					if !inOp[gi] {
						others = append(others, gi)
					}
				}
				if len(others) > 0 {
					op.Extra = others[rapid.IntRange(0, len(others)-1).Draw(t, "extra_g")] + 1
				}
			}
			op.NoAuto = rapid.IntRange(0, 2).Draw(t, "noauto") == 0
			c.Ops = append(c.Ops, op)
			writes++
		case k < 8:
			op := c07Op{K: "read", Gateway: gw, Groups: subset("rg"), A: int64(rapid.IntRange(90, 1300).Draw(t, "a"))}
			op.B = op.A + int64(rapid.IntRange(1, 400).Draw(t, "len"))
			if rapid.IntRange(0, 2).Draw(t, "whole") == 0 {
				op.A, op.B = 0, 1<<30
			}
			if rapid.Bool().Draw(t, "sweep") {
				op.Span = int64(rapid.IntRange(1, 7).Draw(t, "span"))
			}
			op.Rebound = rapid.IntRange(0, 3).Draw(t, "rebound") == 0
			op.Rev = rapid.IntRange(0, 3).Draw(t, "rev") == 0
			c.Ops = append(c.Ops, op)
		case k < 9:
			c.Ops = append(c.Ops, c07Op{K: "local"})
		default:
			c.Ops = append(c.Ops, c07Op{K: "badopen", Gateway: gw, Iter: rapid.Bool().Draw(t, "biter"), Mixed: rapid.Bool().Draw(t, "bmixed"),
				Lease: rapid.IntRange(1, c.Nodes).Draw(t, "blease"), Groups: subset("bg")})
		}
	}
	c.Ops = append(c.Ops, c07Op{K: "read", Gateway: rapid.IntRange(1, c.Nodes).Draw(t, "fgw"), Groups: subset("fg"), A: 0, B: 1 << 30}, c07Op{K: "local"})
	return c
}

type c07Chan struct {
	ch    channel.Channel
	dt    string
	group int
	index bool
}

func runC07(t *testing.T, c c07Case, st *drv.Stats) (fail *drv.Failure) {
	defer func() {
		if p := recover(); p != nil && fail == nil {
			msg := fmt.Sprint(p)
			if strings.Contains(msg, "deadlock: main bubble goroutine has exited") {
				fail = drv.Failf("harness", "bubble-exit", "goroutines left blocked when the case ended: %s", msg)
				return
			}
			fail = drv.Failf("panic", drvFirstLine(msg), "panic: %v", p)
		}
	}()
	gomega.RegisterFailHandler(func(message string, _ ...int) { panic("gomega: " + message) })
	gomega.SetDefaultEventuallyTimeout(20 * time.Second)
	gomega.SetDefaultEventuallyPollingInterval(20 * time.Millisecond)
	synctest.Test(t, func(t *testing.T) { fail = runC07Body(c, st) })
	return fail
}

func drvFirstLine(s string) string {
	if i := strings.IndexByte(s, '\n'); i >= 0 {
		s = s[:i]
	}
	if len(s) > 120 {
		s = s[:120]
	}
	return s
}

func runC07Body(c c07Case, st *drv.Stats) (fail *drv.Failure) {
	ctx := context.Background()
	cluster := mock.ProvisionCluster(ctx, c.Nodes)
	defer func() {
		if err := cluster.Close(); err != nil && fail == nil {
			fail = drv.Failf("unexpected-error", "cluster-close", "closing the cluster: %v", err)
		}
	}()
	// ---- channels: created through node 1 with explicit leaseholders -----------------
	var chans []*c07Chan
	byGroup := map[int][]*c07Chan{}
	for gi, g := range c.Groups {
		idx := channel.Channel{Name: "g" + strconv.Itoa(gi) + "_idx", IsIndex: true, DataType: telem.TimeStampT, Leaseholder: node.Key(g.Lease)}
		if err := cluster.Nodes[1].Channel.Create(ctx, &idx); err != nil {
			return drv.Failf("unexpected-error", "create-index", "create index channel of group %d on node %d: %v", gi, g.Lease, err)
		}
		ic := &c07Chan{ch: idx, dt: "timestamp", group: gi, index: true}
		chans = append(chans, ic)
		byGroup[gi] = append(byGroup[gi], ic)
		for di, dt := range g.Data {
			d := channel.Channel{Name: "g" + strconv.Itoa(gi) + "_d" + strconv.Itoa(di), DataType: telem.Int64T, Leaseholder: node.Key(g.Lease), LocalIndex: idx.LocalKey}
			if dt == "string" {
				d.DataType = telem.StringT
			}
			if err := cluster.Nodes[1].Channel.Create(ctx, &d); err != nil {
				return drv.Failf("unexpected-error", "create-data", "create data channel %d of group %d on node %d: %v", di, gi, g.Lease, err)
			}
			dc := &c07Chan{ch: d, dt: dt, group: gi}
			chans = append(chans, dc)
			byGroup[gi] = append(byGroup[gi], dc)
		}
	}
	var free *c07Chan
	if c.Free {
		f := channel.Channel{Name: "free0", DataType: telem.Int64T, Leaseholder: node.KeyFree, Virtual: true}
		if err := cluster.Nodes[1].Channel.Create(ctx, &f); err != nil {
			return drv.Failf("unexpected-error", "create-free", "create free virtual channel: %v", err)
		}
		free = &c07Chan{ch: f, dt: "int64", group: -1}
	}
	// every node must learn of every channel before it can serve as a gateway
	var allKeys channel.Keys
	for _, ch := range chans {
		allKeys = append(allKeys, ch.ch.Key())
	}
	if free != nil {
		allKeys = append(allKeys, free.ch.Key())
	}
	for ni := 1; ni <= c.Nodes; ni++ {
		deadline := time.Now().Add(30 * time.Second)
		for {
			var got []channel.Channel
			err := cluster.Nodes[node.Key(ni)].Channel.NewRetrieve().Entries(&got).Where(channel.MatchKeys(allKeys...)).Exec(ctx, nil)
			if err == nil && len(got) == len(allKeys) {
				break
			}
			if time.Now().After(deadline) {
				return drv.Failf("metadata-not-propagated", "channels", "node %d still does not know all %d channels 30 s (virtual) after they were created: knows %d, err %v", ni, len(allKeys), len(got), err)
			}
			time.Sleep(50 * time.Millisecond)
		}
	}
	// ---- model ----------------------------------------------------------------------
	model := map[channel.Key]map[int64]string{}
	for _, ch := range chans {
		model[ch.ch.Key()] = map[int64]string{}
	}
	next := int64(1) // next free position on the time axis (units of c07Unit)
	fallback, lowest := int64(2000), int64(1<<40)
	seq := int64(0)
	valueOf := func(ch *c07Chan, ts int64) (telem.Series, string) { return telem.Series{}, "" }
	_ = valueOf
	readAll := func(fr frame.Frame, ch *c07Chan) []string {
		var out []string
		for _, s := range fr.Get(ch.ch.Key()).Series {
			switch ch.dt {
			case "timestamp":
				for _, v := range telem.UnmarshalSeries[telem.TimeStamp](s) {
					out = append(out, strconv.FormatInt(int64(v), 10))
				}
			case "string":
				out = append(out, telem.UnmarshalSeries[string](s)...)
			default:
				for _, v := range telem.UnmarshalSeries[int64](s) {
					out = append(out, strconv.FormatInt(v, 10))
				}
			}
		}
		return out
	}
	want := func(ch *c07Chan, a, b int64) []string {
		var tss []int64
		for ts := range model[ch.ch.Key()] {
			if ts >= a && ts < b {
				tss = append(tss, ts)
			}
		}
		sort.Slice(tss, func(i, j int) bool { return tss[i] < tss[j] })
		out := make([]string, 0, len(tss))
		for _, ts := range tss {
			out = append(out, model[ch.ch.Key()][ts])
		}
		return out
	}
	placement := func(groups []int, gw int) string {
		local, remote := false, false
		for _, gi := range groups {
			if c.Groups[gi].Lease == gw {
				local = true
			} else {
				remote = true
			}
		}
		switch {
		case local && remote:
			return "mixed"
		case remote:
			return "remote"
		}
		return "local"
	}
	writes := 0
	for oi, op := range c.Ops {
		what := fmt.Sprintf("op %d %s via node %d groups %v", oi, op.K, op.Gateway, op.Groups)
		switch op.K {
		case "write":
			var keys channel.Keys
			var wch []*c07Chan
			for _, gi := range op.Groups {
				for _, ch := range byGroup[gi] {
					keys = append(keys, ch.ch.Key())
					wch = append(wch, ch)
				}
			}
			if op.Free && free != nil {
				keys = append(keys, free.ch.Key())
				wch = append(wch, free)
			}
			next = int64(op.Slot) * 100
			if op.Slot == 0 {
				next = fallback
				fallback += 100
			}
			if next < lowest {
				st.Probe("write_before_existing_data")
			}
			if lowest > next {
				lowest = next
			}
			start := next
			wcfg := writer.Config{Keys: keys, Start: telem.TimeStamp(start * c07Unit), Sync: new(true)}
			if op.NoAuto {
				wcfg.EnableAutoCommit = new(false)
			}
			w, err := cluster.Nodes[node.Key(op.Gateway)].Framer.OpenWriter(ctx, wcfg)
			if err != nil {
				return drv.Failf("unexpected-error", "open-writer:"+placement(op.Groups, op.Gateway), "%s: open writer: %v", what, err)
			}
			type pending struct {
				key channel.Key
				ts  int64
				val string
			}
			var staged []pending
			for _, ns := range op.Frames {
				var tss []int64
				for i := 0; i < ns; i++ {
					tss = append(tss, next)
					next += op.Gap
				}
				series := make([]telem.Series, 0, len(wch))
				for _, ch := range wch {
					switch {
					case ch.index:
						vals := make([]telem.TimeStamp, len(tss))
						for i, ts := range tss {
							vals[i] = telem.TimeStamp(ts * c07Unit)
							staged = append(staged, pending{ch.ch.Key(), ts, strconv.FormatInt(ts*c07Unit, 10)})
						}
						series = append(series, telem.NewSeriesV(vals...))
					case ch.dt == "string":
						vals := make([]string, len(tss))
						for i, ts := range tss {
							seq++
							vals[i] = "s" + strconv.FormatInt(seq, 10)
							if ch.group >= 0 {
								staged = append(staged, pending{ch.ch.Key(), ts, vals[i]})
							}
						}
						series = append(series, telem.NewSeriesV(vals...))
					default:
						vals := make([]int64, len(tss))
						for i, ts := range tss {
							seq++
							vals[i] = seq
							if ch.group >= 0 {
								staged = append(staged, pending{ch.ch.Key(), ts, strconv.FormatInt(seq, 10)})
							}
						}
						series = append(series, telem.NewSeriesV(vals...))
					}
				}
				fr := frame.NewMulti(keys, series)
				if op.Extra > 0 && op.Extra-1 < len(c.Groups) {
					// a wider frame, narrowed to the writer's channels by its mask
					wideKeys := append(channel.Keys{}, keys...)
					wideSeries := append([]telem.Series{}, series...)
					for _, ch := range byGroup[op.Extra-1] {
						wideKeys = append(wideKeys, ch.ch.Key())
						switch {
						case ch.index:
							vals := make([]telem.TimeStamp, len(tss))
							for i, ts := range tss {
								vals[i] = telem.TimeStamp(ts * c07Unit)
							}
							wideSeries = append(wideSeries, telem.NewSeriesV(vals...))
						case ch.dt == "string":
							vals := make([]string, len(tss))
							for i := range tss {
								vals[i] = "extra"
							}
							wideSeries = append(wideSeries, telem.NewSeriesV(vals...))
						default:
							wideSeries = append(wideSeries, telem.NewSeriesV(make([]int64, len(tss))...))
						}
					}
					fr = frame.NewMulti(wideKeys, wideSeries).KeepKeys(keys)
					st.Probe("write_masked_wider_frame")
					if c.Groups[op.Extra-1].Lease != op.Gateway {
						st.Probe("write_masked_frame_with_series_of_a_remote_leaseholder")
					}
				}
				authorized, err := w.Write(fr)
				if err != nil || !authorized {
					_ = w.Close()
					return drv.Failf("unexpected-error", "write:"+placement(op.Groups, op.Gateway), "%s: write: authorized=%v err=%v", what, authorized, err)
				}
			}
			if op.NoAuto {
				// nothing of this writer is committed yet: no leaseholder's engine shows it
				for _, gi := range op.Groups {
					lease := node.Key(c.Groups[gi].Lease)
					for _, ch := range byGroup[gi] {
						fr, err := cluster.Nodes[lease].Storage.TS.Read(ctx, telem.TimeRangeMax, ch.ch.Key().StorageKey())
						if err != nil {
							_ = w.Close()
							return drv.Failf("unexpected-error", "local-read-before-commit", "%s: read channel %v on its leaseholder %d: %v", what, ch.ch.Key(), lease, err)
						}
						n := int64(0)
						for _, s := range fr.Get(ch.ch.Key().StorageKey()).Series {
							n += s.Len()
						}
						if int(n) != len(model[ch.ch.Key()]) {
							_ = w.Close()
							return drv.Failf("uncommitted-data-visible", placement(op.Groups, op.Gateway), "%s: auto-commit is off and Commit has not been called, but leaseholder %d shows %d samples of channel %v where %d are committed", what, lease, n, ch.ch.Key(), len(model[ch.ch.Key()]))
						}
					}
				}
				st.Probe("write_without_auto_commit")
			}
			if _, err := w.Commit(); err != nil {
				_ = w.Close()
				return drv.Failf("unexpected-error", "commit:"+placement(op.Groups, op.Gateway), "%s: commit: %v", what, err)
			}
			for _, p := range staged {
				model[p.key][p.ts] = p.val
			}
			// a commit is acknowledged only when every involved leaseholder committed: the
			// data is in each leaseholder's own engine right now
			for _, gi := range op.Groups {
				lease := node.Key(c.Groups[gi].Lease)
				for _, ch := range byGroup[gi] {
					fr, err := cluster.Nodes[lease].Storage.TS.Read(ctx, telem.TimeRangeMax, ch.ch.Key().StorageKey())
					if err != nil {
						_ = w.Close()
						return drv.Failf("unexpected-error", "local-read-after-commit", "%s: read channel %v on its leaseholder %d: %v", what, ch.ch.Key(), lease, err)
					}
					n := int64(0)
					for _, s := range fr.Get(ch.ch.Key().StorageKey()).Series {
						n += s.Len()
					}
					if int(n) != len(model[ch.ch.Key()]) {
						_ = w.Close()
						return drv.Failf("commit-acknowledged-before-leaseholder-committed", placement(op.Groups, op.Gateway), "%s: Commit returned, but leaseholder %d holds %d samples of channel %v where %d were acknowledged", what, lease, n, ch.ch.Key(), len(model[ch.ch.Key()]))
					}
				}
			}
			if err := w.Close(); err != nil {
				return drv.Failf("unexpected-error", "close-writer", "%s: close writer: %v", what, err)
			}
			next += 2
			writes++
			st.Probe("write_" + placement(op.Groups, op.Gateway))
			if op.Free && free != nil {
				st.Probe("write_with_free_channel")
			}
		case "read":
			var keys channel.Keys
			var rch []*c07Chan
			for _, gi := range op.Groups {
				for _, ch := range byGroup[gi] {
					keys = append(keys, ch.ch.Key())
					rch = append(rch, ch)
				}
			}
			a, b := op.A, op.B
			bounds := telem.TimeRange{Start: telem.TimeStamp(a * c07Unit), End: telem.TimeStamp(b * c07Unit)}
			openBounds := bounds
			if op.Rebound {
				openBounds = telem.TimeRangeMax
			}
			it, err := cluster.Nodes[node.Key(op.Gateway)].Framer.OpenIterator(ctx, iterator.Config{Keys: keys, Bounds: openBounds})
			if err != nil {
				return drv.Failf("unexpected-error", "open-iterator:"+placement(op.Groups, op.Gateway), "%s: open iterator: %v", what, err)
			}
			if op.Rebound {
				it.SetBounds(bounds)
				st.Probe("read_after_set_bounds")
			}
			got := map[channel.Key][]string{}
			collect := func() {
				fr := it.Value()
				for _, ch := range rch {
					got[ch.ch.Key()] = append(got[ch.ch.Key()], readAll(fr, ch)...)
				}
			}
			// The statement is about the samples returned. The boolean acknowledgement of a
			// command that went to several leaseholders is whatever the last responder said
			// (iterator/synchronizer.go forwards the last response, not the merged one), so
			// a false SeekFirst/Next does not mean "no data": the frame is read after every
			// step regardless, and disagreements are only counted.
			var chunks []map[channel.Key][]string
			if op.Rev {
				// backwards: every step's frame is one chunk; chunks are put back in
				// ascending order afterwards
				it.SeekLast()
				grab := func() {
					fr := it.Value()
					ck := map[channel.Key][]string{}
					for _, ch := range rch {
						ck[ch.ch.Key()] = readAll(fr, ch)
					}
					chunks = append(chunks, ck)
				}
				if op.Span == 0 {
					it.Prev(telem.TimeSpanMax)
					grab()
				} else {
					hi, lo := b, a
					if hi > 2600 {
						hi = 2600
					}
					if lo < 0 {
						lo = 0
					}
					for s := (hi-lo)/op.Span + 3; s > 0; s-- {
						it.Prev(telem.TimeSpan(op.Span * c07Unit))
						grab()
					}
				}
				for i := len(chunks) - 1; i >= 0; i-- {
					for k, v := range chunks[i] {
						got[k] = append(got[k], v...)
					}
				}
				st.Probe("read_backwards")
			}
			seekOK := op.Rev || it.SeekFirst()
			anyData := false
			if op.Rev {
				// collected above
			} else if op.Span == 0 {
				ok := it.Next(telem.TimeSpanMax)
				before := len(got)
				collect()
				for _, v := range got {
					anyData = anyData || len(v) > 0
				}
				_ = before
				if anyData && (!ok || !seekOK) {
					st.Probe("ack_false_although_data_was_returned")
				}
			} else {
				hi := b
				if hi > 2600 {
					hi = 2600
				}
				steps := (hi-a)/op.Span + 3
				for s := int64(0); s < steps; s++ {
					it.Next(telem.TimeSpan(op.Span * c07Unit))
					collect()
				}
			}
			if err := it.Close(); err != nil {
				return drv.Failf("unexpected-error", "close-iterator", "%s: close iterator: %v", what, err)
			}
			for _, ch := range rch {
				w := want(ch, a, b)
				if strings.Join(got[ch.ch.Key()], ",") != strings.Join(w, ",") {
					mode := "one-step"
					if op.Span > 0 {
						mode = "sweep"
					}
					kind := "data"
					if ch.index {
						kind = "index"
					}
					return drv.Failf("cluster-read-mismatch", placement(op.Groups, op.Gateway)+":"+mode+":"+kind+":"+ch.dt, "%s bounds [%d,%d) span %d: channel %v (group %d, leaseholder %d) returned %v, a single store given the same writes holds %v", what, a, b, op.Span, ch.ch.Key(), ch.group, c.Groups[ch.group].Lease, got[ch.ch.Key()], w)
				}
			}
			st.Probe("read_" + placement(op.Groups, op.Gateway))
		case "local":
			for _, ch := range chans {
				lease := node.Key(c.Groups[ch.group].Lease)
				for ni := 1; ni <= c.Nodes; ni++ {
					ts := cluster.Nodes[node.Key(ni)].Storage.TS
					fr, err := ts.Read(ctx, telem.TimeRangeMax, ch.ch.Key().StorageKey())
					if node.Key(ni) != lease {
						if err == nil {
							n := int64(0)
							for _, s := range fr.Get(ch.ch.Key().StorageKey()).Series {
								n += s.Len()
							}
							if n > 0 {
								return drv.Failf("stored-off-leaseholder", "data-on-other-node", "node %d holds %d samples of channel %v, which is leased to node %d", ni, n, ch.ch.Key(), lease)
							}
						}
						continue
					}
					if err != nil {
						return drv.Failf("unexpected-error", "local-read", "read channel %v on its leaseholder %d: %v", ch.ch.Key(), lease, err)
					}
					var got []string
					for _, s := range fr.Get(ch.ch.Key().StorageKey()).Series {
						switch ch.dt {
						case "timestamp":
							for _, v := range telem.UnmarshalSeries[telem.TimeStamp](s) {
								got = append(got, strconv.FormatInt(int64(v), 10))
							}
						case "string":
							got = append(got, telem.UnmarshalSeries[string](s)...)
						default:
							for _, v := range telem.UnmarshalSeries[int64](s) {
								got = append(got, strconv.FormatInt(v, 10))
							}
						}
					}
					if w := want(ch, 0, 1<<30); strings.Join(got, ",") != strings.Join(w, ",") {
						return drv.Failf("leaseholder-store-mismatch", ch.dt, "leaseholder %d holds %v for channel %v, the writes amount to %v", lease, got, ch.ch.Key(), w)
					}
				}
			}
			st.Probe("local_stores_checked")
		case "badopen":
			lease := op.Lease
			if lease == 0 {
				lease = op.Gateway
			}
			bogus := channel.NewKey(node.Key(lease), 4000+channel.LocalKey(oi))
			bkeys := channel.Keys{bogus}
			if op.Mixed {
				for _, gi := range op.Groups {
					for _, ch := range byGroup[gi] {
						bkeys = append(bkeys, ch.ch.Key())
					}
				}
				st.Probe("open_on_missing_channel_among_existing_ones")
			}
			if lease != op.Gateway {
				st.Probe("open_on_missing_channel_leased_elsewhere")
			}
			if op.Iter {
				it, err := cluster.Nodes[node.Key(op.Gateway)].Framer.OpenIterator(ctx, iterator.Config{Keys: bkeys, Bounds: telem.TimeRangeMax})
				if err == nil {
					_ = it.Close()
					return drv.Failf("open-on-missing-channel-succeeded", "iterator", "%s: opening an iterator on channel %v, which does not exist, succeeded", what, bogus)
				}
			} else {
				w, err := cluster.Nodes[node.Key(op.Gateway)].Framer.OpenWriter(ctx, writer.Config{Keys: bkeys, Start: telem.TimeStamp(3000 * c07Unit), Sync: new(true)})
				if err == nil {
					_ = w.Close()
					return drv.Failf("open-on-missing-channel-succeeded", "writer", "%s: opening a writer on channel %v, which does not exist, succeeded", what, bogus)
				}
			}
			st.Probe("open_on_missing_channel_refused")
		}
	}
	var shape strings.Builder
	fmt.Fprintf(&shape, "%d|%v|%v|", c.Nodes, c.Groups, c.Free)
	for _, op := range c.Ops {
		fmt.Fprintf(&shape, "%s%d%v%d,", op.K[:2], op.Gateway, op.Groups, op.Span)
	}
	st.Case(drv.Hash64(shape.String()), writes >= 1 && c.Nodes >= 2)
	_ = cesium.ErrDBClosed
	return nil
}
