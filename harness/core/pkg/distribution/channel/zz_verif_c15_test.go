package channel_test

// Injected by /verif via `go test -overlay`; never part of the repository.
// core-channel engine (C15): a whole in-memory Synnax cluster (1-3 nodes: aspen membership
// and kv gossip, channel service, framer services, one pebble and one cesium per node, all
// on in-memory file systems owned by the harness) is provisioned per case inside a synctest
// bubble. The cluster is wired exactly as core/pkg/distribution/mock wires it (same
// networks, same options); the harness keeps the wiring itself so that it can close and
// reopen one node's distribution layer and time-series engine over the same storage, and
// list the engine's directory. The cluster's goroutines run freely (op tier).
//
// A case is a name-validation setting plus a script of batched creates (all channel kinds,
// explicit leaseholders, RetrieveIfNameExists / OverwriteIfNameExistsAndDifferentProperties),
// renames (Rename / RenameMany / MapRename), deletes (Delete / DeleteMany / DeleteByName /
// DeleteManyByNames) and restarts, each through a drawn gateway node. Names come from a
// small pool so that collisions, invalid names and "_time" suffixes are common; data
// channels refer to index channels that exist, that live on another node, or that do not
// exist; targets may be deleted, never created, or internal channels.
//
// Oracle: the set of live channels (key, leaseholder, name, data type, index, is_index,
// virtual) predicted from the requests. After every request, once metadata has propagated
// (virtual time), it is compared with cluster metadata (every channel's copy at its
// authority; every other node must hold the same) and with every node's engine (directory
// listing + RetrieveChannel): exactly the non-free channels leased to the node; free
// channels live in metadata only. Keys are checked for uniqueness, leaseholder and reuse;
// names (validation on) for validity and uniqueness; deleted channels for being refused
// by retrieval, writers and iterators at both layers. A FAILED request may leave behind
// any part of what it asked for (the statement does not make requests atomic); what it
// left is taken over and the two stores are compared as after any other request.
//
// Triage aids (never set by the check): VERIF_C15_ONLY, VERIF_C15_DEBUG, VERIF_C15_OUTLOG.

import (
	"context"
	"encoding/json"
	"fmt"
	"math/rand"
	"os"
	"regexp"
	"sort"
	"strconv"
	"strings"
	"sync"
	"testing"
	"testing/synctest"
	"time"

	"github.com/cockroachdb/pebble/v2"
	"github.com/cockroachdb/pebble/v2/vfs"
	"github.com/google/uuid"
	"github.com/synnaxlabs/aspen"
	aspentransmock "github.com/synnaxlabs/aspen/transport/mock"
	"github.com/synnaxlabs/cesium"
	"github.com/synnaxlabs/synnax/pkg/distribution"
	"github.com/synnaxlabs/synnax/pkg/distribution/channel"
	"github.com/synnaxlabs/synnax/pkg/distribution/framer"
	"github.com/synnaxlabs/synnax/pkg/distribution/framer/deleter"
	"github.com/synnaxlabs/synnax/pkg/distribution/framer/iterator"
	"github.com/synnaxlabs/synnax/pkg/distribution/framer/relay"
	"github.com/synnaxlabs/synnax/pkg/distribution/framer/writer"
	"github.com/synnaxlabs/synnax/pkg/distribution/node"
	tmock "github.com/synnaxlabs/synnax/pkg/distribution/transport/mock"
	"github.com/synnaxlabs/synnax/pkg/storage"
	"github.com/synnaxlabs/synnax/pkg/storage/ts"
	"github.com/synnaxlabs/x/address"
	"github.com/synnaxlabs/x/gorp"
	xfs "github.com/synnaxlabs/x/io/fs"
	"github.com/synnaxlabs/x/kv/pebblekv"
	"github.com/synnaxlabs/x/telem"
	"pgregory.net/rapid"
	"verifsim/drv"
	"verifsim/simrt"
)

func TestVerif(t *testing.T) {
	drv.Main(t,
		drv.Wrap(drv.Engine[c15Case]{Property: "C15", Name: "c15", Gen: genC15, Run: runC15, BatchChecks: 10, GCEvery: 2}),
		drv.Wrap(drv.Engine[c15cCase]{Property: "C15", Name: "c15-counter", Gen: genC15Counter, Run: runC15Counter, BatchChecks: 100}),
	)
}

// ---- case ---------------------------------------------------------------------------

type c15Spec struct {
	Name string `json:"name"`
	// index fixed var virtual vindex free freeidx calc
	Kind string `json:"kind"`
	// 0 = not given (the gateway becomes the leaseholder); ignored by free kinds
	Lease int `json:"lease"`
	// data channels: >=0 ordinal (mod n) into the index channels created so far, -1 a
	// local key nothing has, -2 no index
	Idx int `json:"idx,omitempty"`
	// data channels: take the leaseholder of the referenced index instead of Lease
	Follow bool `json:"follow,omitempty"`
}

type c15Op struct {
	K       string    `json:"k"` // create rename delete restart
	Gateway int       `json:"gw"`
	Specs   []c15Spec `json:"specs,omitempty"`
	Opt     string    `json:"opt,omitempty"` // "", retrieve, overwrite
	// rename/delete targets: >=0 ordinal (mod n) into all channels created so far (also
	// deleted ones), -1 a key nothing has, -2 the gateway's internal control channel
	Refs  []int    `json:"refs,omitempty"`
	Names []string `json:"names,omitempty"` // rename: new names
	// many (RenameMany/DeleteMany) single (Rename/Delete/DeleteByName on the first target)
	// names (MapRename / DeleteManyByNames)
	API string `json:"api,omitempty"`
	// the request runs inside a transaction of the gateway's store that is committed if it
	// succeeds and discarded if it fails, as the API layer issues it; otherwise through
	// the service's embedded writer (no transaction: every table write applies at once)
	Tx bool `json:"tx,omitempty"`
}

type c15Case struct {
	// Seed feeds the process-wide randomness the nodes reach: math/rand (gossip peer
	// choice, pledge jitter) and google/uuid (cluster key)
	Seed     int64   `json:"seed"`
	Nodes    int     `json:"nodes"`
	Validate bool    `json:"validate"`
	Ops      []c15Op `json:"ops"`
}

var (
	c15GoodNames = []string{"a", "b", "c", "d", "e", "f", "g", "a_time", "c_time", "a", "c"}
	c15BadNames  = []string{"", "1a", "a b", "a-b"}
	c15Kinds     = []string{"index", "index", "index", "index", "fixed", "fixed", "fixed", "fixed", "var", "var", "virtual", "virtual", "virtual", "free", "free", "free", "freeidx", "calc", "calc", "calc", "vindex"}
)

func c15DrawName(t *rapid.T, label string) string {
	if rapid.IntRange(0, 29).Draw(t, label+"_bad") == 0 {
		return rapid.SampledFrom(c15BadNames).Draw(t, label)
	}
	return rapid.SampledFrom(c15GoodNames).Draw(t, label)
}

func c15DrawRef(t *rapid.T, label string) int {
	switch r := rapid.IntRange(0, 15).Draw(t, label+"_sel"); {
	case r == 0:
		return -1
	case r == 1:
		return -2
	}
	return rapid.IntRange(0, 11).Draw(t, label)
}

func genC15(t *rapid.T) c15Case {
	c := c15Case{Seed: int64(rapid.IntRange(1, 1<<20).Draw(t, "seed")), Nodes: rapid.IntRange(1, 3).Draw(t, "nodes"), Validate: rapid.IntRange(0, 2).Draw(t, "validate") > 0}
	lease := func(label string) int {
		if rapid.IntRange(0, 39).Draw(t, label+"_ghost") == 0 {
			return c.Nodes + 1
		}
		return rapid.IntRange(0, c.Nodes).Draw(t, label)
	}
	for n, i := rapid.IntRange(2, 9).Draw(t, "n"), 0; i < n; i++ {
		gw := rapid.IntRange(1, c.Nodes).Draw(t, "gw")
		k := rapid.IntRange(0, 19).Draw(t, "k")
		switch {
		case k < 9 || i == 0:
			op := c15Op{K: "create", Gateway: gw}
			switch rapid.IntRange(0, 5).Draw(t, "opt") {
			case 0:
				op.Opt = "retrieve"
			case 1:
				op.Opt = "overwrite"
			}
			taken := map[string]bool{}
			for s := rapid.IntRange(1, 4).Draw(t, "nspecs"); s > 0; s-- {
				sp := c15Spec{Name: c15DrawName(t, "name"), Kind: rapid.SampledFrom(c15Kinds).Draw(t, "kind"), Lease: lease("lease")}
				if i == 0 && len(op.Specs) == 0 && rapid.IntRange(0, 3).Draw(t, "first_index") > 0 {
					sp.Kind = "index" // something for data channels to refer to
				}
				if op.Opt != "" && !c.Validate {
					// what the two options do to names that occur twice in one batch depends
					// on the order in which the service works through the batch, which is no
					// one's contract: such batches carry distinct names (also counting the
					// "_time" index a calculated channel brings along). With name validation
					// on the outcome is defined (the request is refused: duplicate name), so
					// there repeated names stay in.
					if taken[sp.Name] || (sp.Kind == "calc" && taken[sp.Name+"_time"]) {
						continue
					}
					taken[sp.Name] = true
					if sp.Kind == "calc" {
						taken[sp.Name+"_time"] = true
					}
				}
				if sp.Kind == "fixed" || sp.Kind == "var" {
					sp.Idx = rapid.IntRange(0, 7).Draw(t, "idx")
					if miss := rapid.IntRange(0, 11).Draw(t, "idx_miss"); miss < 2 {
						sp.Idx = miss - 2
					}
					sp.Follow = rapid.IntRange(0, 4).Draw(t, "follow") > 0
				}
				op.Specs = append(op.Specs, sp)
			}
			if len(op.Specs) == 0 {
				op.Specs = []c15Spec{{Name: "d", Kind: "index"}}
			}
			op.Tx = rapid.Bool().Draw(t, "ctx")
			c.Ops = append(c.Ops, op)
		case k < 13:
			op := c15Op{K: "rename", Gateway: gw, API: rapid.SampledFrom([]string{"many", "many", "single", "names"}).Draw(t, "rapi")}
			for s := rapid.IntRange(1, 3).Draw(t, "nren"); s > 0; s-- {
				op.Refs = append(op.Refs, c15DrawRef(t, "rref"))
				op.Names = append(op.Names, c15DrawName(t, "rname"))
			}
			op.Tx = rapid.Bool().Draw(t, "rtx")
			c.Ops = append(c.Ops, op)
		case k < 18:
			op := c15Op{K: "delete", Gateway: gw, API: rapid.SampledFrom([]string{"many", "many", "single", "names"}).Draw(t, "dapi")}
			for s := rapid.IntRange(1, 3).Draw(t, "ndel"); s > 0; s-- {
				op.Refs = append(op.Refs, c15DrawRef(t, "dref"))
			}
			op.Tx = rapid.Bool().Draw(t, "dtx")
			c.Ops = append(c.Ops, op)
		default:
			c.Ops = append(c.Ops, c15Op{K: "restart", Gateway: gw})
		}
	}
	return c
}

// ---- cluster (the wiring of core/pkg/distribution/mock, kept by the harness) ----------

type c15FramerTransport struct {
	iter    iterator.Transport
	writer  writer.Transport
	relay   relay.Transport
	deleter deleter.Transport
}

var _ framer.Transport = c15FramerTransport{}

func (m c15FramerTransport) Iterator() iterator.Transport { return m.iter }
func (m c15FramerTransport) Writer() writer.Transport     { return m.writer }
func (m c15FramerTransport) Relay() relay.Transport       { return m.relay }
func (m c15FramerTransport) Deleter() deleter.Transport   { return m.deleter }

type c15Node struct {
	key   node.Key
	addr  address.Address
	peers []address.Address
	kvFS  vfs.FS
	tsFS  *xfs.MemFS
	store *storage.Layer
	layer *distribution.Layer
}

type c15Cluster struct {
	validate   bool
	nodes      map[node.Key]*c15Node
	order      []*c15Node
	writerNet  *tmock.FramerWriterNetwork
	iterNet    *tmock.FramerIteratorNetwork
	channelNet *tmock.ChannelNetwork
	relayNet   *tmock.FramerRelayNetwork
	deleteNet  *tmock.FramerDeleterNetwork
	aspenNet   *aspentransmock.Network
	addrs      *address.Factory
}

const c15TSDir = "cesium"

func c15NewCluster(validate bool) *c15Cluster {
	return &c15Cluster{
		validate:   validate,
		nodes:      map[node.Key]*c15Node{},
		writerNet:  tmock.NewWriterNetwork(),
		iterNet:    tmock.NewIteratorNetwork(),
		channelNet: tmock.NewChannelNetwork(),
		relayNet:   tmock.NewRelayNetwork(),
		deleteNet:  tmock.NewDeleterNetwork(),
		aspenNet:   aspentransmock.NewNetwork(),
		addrs:      address.NewLocalFactory(0),
	}
}

func (c *c15Cluster) openStorage(ctx context.Context, n *c15Node) error {
	pdb, err := pebble.Open("", &pebble.Options{FS: n.kvFS, Logger: pebblekv.NewNoopLogger()})
	if err != nil {
		return err
	}
	kvdb := pebblekv.Wrap(pdb, pebblekv.DisableObservation())
	tsdb, err := ts.Open(ctx, ts.Config{FS: n.tsFS, Dirname: c15TSDir})
	if err != nil {
		_ = kvdb.Close()
		return err
	}
	n.store = &storage.Layer{KV: kvdb, TS: tsdb}
	return nil
}

func (c *c15Cluster) closeStorage(n *c15Node) error {
	if n.store == nil {
		return nil
	}
	var e1 error
	if n.store.TS != nil {
		e1 = n.store.TS.Close()
	}
	e2 := n.store.KV.Close()
	n.store = nil
	if e1 != nil {
		return e1
	}
	return e2
}

func (c *c15Cluster) openLayer(ctx context.Context, n *c15Node) error {
	v := c.validate
	l, err := distribution.OpenLayer(ctx, distribution.LayerConfig{
		Storage: n.store,
		FrameTransport: c15FramerTransport{
			iter:    c.iterNet.New(n.addr, 1),
			writer:  c.writerNet.New(n.addr, 1),
			relay:   c.relayNet.New(n.addr, 1),
			deleter: c.deleteNet.New(n.addr),
		},
		ChannelTransport:     c.channelNet.New(n.addr),
		AspenTransport:       c.aspenNet.NewTransport(),
		AdvertiseAddress:     n.addr,
		PeerAddresses:        n.peers,
		AspenOptions:         []aspen.Option{aspen.WithPropagationConfig(aspen.FastPropagationConfig)},
		EnableServiceSignals: new(false),
		ValidateChannelNames: &v,
	})
	if err != nil {
		return err
	}
	n.layer = l
	return nil
}

func (c *c15Cluster) provision(ctx context.Context) error {
	n := &c15Node{peers: c.addrs.Generated(), addr: c.addrs.Next(), kvFS: vfs.NewMem(), tsFS: xfs.NewMem()}
	if err := c.openStorage(ctx, n); err != nil {
		return err
	}
	if err := c.openLayer(ctx, n); err != nil {
		_ = c.closeStorage(n)
		return err
	}
	n.key = n.layer.Cluster.HostKey()
	c.nodes[n.key] = n
	c.order = append(c.order, n)
	return c.waitTopology()
}

func (c *c15Cluster) waitTopology() error {
	deadline := time.Now().Add(20 * time.Second)
	for {
		ok := true
		for _, n := range c.order {
			if n.layer == nil || len(n.layer.Cluster.Nodes()) != len(c.order) {
				ok = false
			}
		}
		if ok {
			return nil
		}
		if time.Now().After(deadline) {
			return fmt.Errorf("cluster topology did not stabilize within 20 s (virtual)")
		}
		time.Sleep(simrt.UniqueDur(10 * time.Millisecond))
	}
}

func (c *c15Cluster) close() error {
	var first error
	for _, n := range c.order {
		if n.layer != nil {
			if err := n.layer.Close(); err != nil && first == nil {
				first = err
			}
			n.layer = nil
		}
	}
	for _, n := range c.order {
		if err := c.closeStorage(n); err != nil && first == nil {
			first = err
		}
	}
	return first
}

// ---- model -----------------------------------------------------------------------------

// c15Row is the part of a channel the statement speaks about (plus what the harness needs
// to classify it).
type c15Row struct {
	Key      channel.Key
	Lease    node.Key
	Name     string
	DT       telem.DataType
	Index    channel.Key
	IsIndex  bool
	Virtual  bool
	Internal bool
	Expr     string
}

func (r c15Row) String() string {
	return fmt.Sprintf("{key %d (node %d, local %d) name %q type %s index %d is_index %v virtual %v}", r.Key, r.Key.Leaseholder(), r.Key.LocalKey(), r.Name, r.DT, r.Index, r.IsIndex, r.Virtual)
}

func (r c15Row) kind() string {
	switch {
	case r.Expr != "":
		return "calculated"
	case r.Lease == node.KeyFree && r.IsIndex:
		return "free-index"
	case r.Lease == node.KeyFree:
		return "free"
	case r.Virtual && r.IsIndex:
		return "virtual-index"
	case r.Virtual:
		return "virtual"
	case r.IsIndex:
		return "index"
	}
	return "data"
}

// diff names the first field of the statement's tuple in which two rows differ.
func (r c15Row) diff(o c15Row, withLease bool) string {
	switch {
	case r.Key != o.Key:
		return "key"
	case withLease && r.Lease != o.Lease:
		return "leaseholder"
	case r.Name != o.Name:
		return "name"
	case r.DT != o.DT:
		return "data_type"
	case r.Index != o.Index:
		return "index"
	case r.IsIndex != o.IsIndex:
		return "is_index"
	case r.Virtual != o.Virtual:
		return "virtual"
	}
	return ""
}

func c15FromChannel(ch channel.Channel) c15Row {
	return c15Row{Key: ch.Key(), Lease: ch.Leaseholder, Name: ch.Name, DT: ch.DataType, Index: ch.Index(), IsIndex: ch.IsIndex, Virtual: ch.Virtual, Internal: ch.Internal, Expr: ch.Expression}
}

var c15ValidName = regexp.MustCompile(`^[a-zA-Z_][a-zA-Z0-9_]*$`)

func c15SortedKeys[V any](m map[channel.Key]V) []channel.Key {
	out := make([]channel.Key, 0, len(m))
	for k := range m {
		out = append(out, k)
	}
	sort.Slice(out, func(i, j int) bool { return out[i] < out[j] })
	return out
}

// ---- run -------------------------------------------------------------------------------

func runC15(t *testing.T, c c15Case, st *drv.Stats) (fail *drv.Failure) {
	defer func() {
		if p := recover(); p != nil && fail == nil {
			msg := fmt.Sprint(p)
			if strings.Contains(msg, "deadlock: main bubble goroutine has exited") {
				fail = drv.Failf("harness", "bubble-exit", "goroutines left blocked when the case ended: %s", msg)
				return
			}
			fail = drv.Failf("panic", c15FirstLine(msg), "panic: %v", p)
		}
	}()
	c15LastInconclusive = ""
	rand.Seed(c.Seed + 15) // workers run with GODEBUG=randseednop=0
	uuid.SetRand(&c15DetReader{x: uint64(c.Seed)*2654435761 + 15})
	defer uuid.SetRand(nil)
	synctest.Test(t, func(t *testing.T) { fail = (&c15Run{c: c, st: st}).body() })
	if p := os.Getenv("VERIF_C15_OUTLOG"); p != "" { // triage aid: one line per executed case
		if f, err := os.OpenFile(p, os.O_CREATE|os.O_APPEND|os.O_WRONLY, 0o644); err == nil {
			cj, _ := json.Marshal(c)
			out := "pass"
			if c15LastInconclusive != "" {
				out = "inconclusive " + c15LastInconclusive
			}
			if fail != nil {
				out = fail.Class + " " + fail.Sig + " :: " + fail.Msg
			}
			fmt.Fprintf(f, "%x %s\n", drv.Hash64(string(cj)), out)
			_ = f.Close()
		}
	}
	if fail != nil && c15Only != nil && !c15Only.MatchString(fail.Class+" "+fail.Sig) {
		return nil
	}
	return fail
}

// c15Only (VERIF_C15_ONLY=<regexp over "class signature">) is a triage aid: every other
// failure is dropped, so that the shrinker works on the one being looked at. Never set by
// the check.
var c15TraceN int
var c15LastInconclusive string

// c15Debug (VERIF_C15_DEBUG=1): print every request and the model after it (triage aid).
var c15Debug = os.Getenv("VERIF_C15_DEBUG") != ""

type c15DetReader struct {
	mu sync.Mutex
	x  uint64
}

func (d *c15DetReader) Read(p []byte) (int, error) {
	d.mu.Lock()
	defer d.mu.Unlock()
	for i := range p {
		d.x ^= d.x << 13
		d.x ^= d.x >> 7
		d.x ^= d.x << 17
		p[i] = byte(d.x >> 24)
	}
	return len(p), nil
}

var c15Only = func() *regexp.Regexp {
	if v := os.Getenv("VERIF_C15_ONLY"); v != "" {
		return regexp.MustCompile(v)
	}
	return nil
}()

func c15FirstLine(s string) string {
	if i := strings.IndexByte(s, '\n'); i >= 0 {
		s = s[:i]
	}
	if len(s) > 120 {
		s = s[:120]
	}
	return s
}

type c15Run struct {
	c       c15Case
	st      *drv.Stats
	ctx     context.Context
	cl      *c15Cluster
	live    map[channel.Key]c15Row
	ever    map[channel.Key]bool // every key any channel ever had
	deleted map[channel.Key]c15Row
	created []channel.Key // creation order, never shrinks
	indexes []channel.Key // leased, persisted index channels in creation order
	trace   strings.Builder
	ghost   int
	stop    bool // some node's metadata stayed stale: the rest of the script would run against an unknown state
	// overwrittenBy: for channels removed by an overwriting create, the leaseholder of the
	// channel that replaced them
	overwrittenBy map[channel.Key]node.Key
	// idxStale: some node's name lookup has been seen to disagree with its own metadata
	// (see checkNameLookup); later name-related failures carry the marker in their signature
	idxStale string
	// autoNames: the names of the index channels the current create makes up for its
	// calculated channels
	autoNames map[string]bool
	// lookupFail: the first disagreement between a node's retrieval by name and its own
	// metadata. The statement speaks of names, not of look-ups, so the case goes on (the
	// service finds name conflicts and by-name targets through this look-up: failures that
	// follow carry a marker) and ends with this failure if nothing else went wrong.
	lookupFail *drv.Failure
	// dupRetrieve: a create with RetrieveIfNameExists has met a name that several existing
	// channels carry (possible with name validation off, or after the index of a calculated
	// channel was created twice). The service then takes fewer keys from its counter than
	// it hands out; key collisions that follow carry the marker in their signature.
	dupRetrieve string
	staleWhat   string
}

func (r *c15Run) svc(k int) *channel.Service { return r.cl.nodes[node.Key(k)].layer.Channel }

func c15TxNote(op c15Op) string {
	if op.Tx {
		return " in a transaction"
	}
	return ""
}

// write issues one request through op's gateway: with the service's embedded writer, or
// inside a transaction that is committed on success and discarded on failure.
func (r *c15Run) write(op c15Op, f func(w channel.Writer) error) error {
	n := r.cl.nodes[node.Key(op.Gateway)]
	if !op.Tx {
		r.st.Probe("request_without_transaction")
		return f(n.layer.Channel.Writer)
	}
	r.st.Probe("request_in_transaction")
	return n.layer.DB.WithTx(r.ctx, func(tx gorp.Tx) error { return f(n.layer.Channel.NewWriter(tx)) })
}

// via classifies how a request entered relative to the channel's leaseholder.
func (r *c15Run) via(gw int, lease node.Key) string {
	switch {
	case lease == node.KeyFree && gw == int(node.KeyBootstrapper):
		return "free-at-bootstrapper"
	case lease == node.KeyFree:
		return "free-via-peer"
	case int(lease) == gw:
		return "local"
	}
	return "remote"
}

func (r *c15Run) metaView(n *c15Node) (map[channel.Key]c15Row, error) {
	var got []channel.Channel
	if err := n.layer.Channel.NewRetrieve().Entries(&got).Exec(r.ctx, nil); err != nil {
		return nil, err
	}
	out := make(map[channel.Key]c15Row, len(got))
	for _, ch := range got {
		out[ch.Key()] = c15FromChannel(ch)
	}
	return out, nil
}

func c15SameView(a, b map[channel.Key]c15Row) bool {
	if len(a) != len(b) {
		return false
	}
	for k, ra := range a {
		rb, ok := b[k]
		if !ok || ra != rb {
			return false
		}
	}
	return true
}

// c15Authority is the node whose copy of a channel's metadata is the cluster's: the
// leaseholder, and the bootstrapper for free channels (Channel.SetOptions).
func c15Authority(k channel.Key) node.Key {
	if l := k.Leaseholder(); l != node.KeyFree {
		return l
	}
	return node.KeyBootstrapper
}

// settle lets metadata propagate in virtual time and returns the cluster's metadata: for
// every channel the copy held by its authority. Requests are served by the authorities
// themselves, so that view is current when a request returns; the other nodes learn of it
// through aspen's gossip. With want != nil settle returns as soon as every node's view
// equals want (or the authorities differ from want for good); with want == nil (after a
// failed request, whose effect the model cannot predict) as soon as all views agree and
// have not changed for a few gossip rounds.
//
// Aspen's gossip may die out before an operation has reached every node (property C06's
// business and a known finding there; about one case in a thousand here). Which rounds
// die is decided by goroutine timing the harness does not control, so the case must not
// depend on it: when the views still disagree after 1.5 s (150 gossip rounds), settle
// starts a fresh rumor for every channel some node is behind on, at the channel's
// authority, in a form that changes nothing: for a channel that exists, a rename to the
// name it has; for one that is gone but lingers on a peer (the service does not write
// when asked to delete a missing key), the entry is put back and deleted again directly
// in the authority's metadata store. Then it waits again. stale reports that even four
// such rounds did not help.
func (r *c15Run) settle(want map[channel.Key]c15Row) (auth map[channel.Key]c15Row, stale bool, err error) {
	if want == nil {
		time.Sleep(simrt.UniqueDur(60 * time.Millisecond))
	}
	for attempt := 0; ; attempt++ {
		var behind map[channel.Key]c15Row
		var done bool
		auth, behind, done, err = r.settleOnce(want)
		if err != nil || done || len(behind) == 0 {
			return auth, false, err
		}
		if attempt == 4 {
			r.staleWhat = fmt.Sprintf("behind on %v", c15SortedKeys(behind))
			return auth, true, nil
		}
		r.st.Probe("gossip_died_out_rumor_restarted")
		for _, k := range c15SortedKeys(behind) {
			n := r.cl.nodes[c15Authority(k)]
			if row, ok := auth[k]; ok {
				_ = n.layer.Channel.RenameMany(r.ctx, channel.Keys{k}, []string{row.Name}, true)
				continue
			}
			row := behind[k]
			ch := channel.Channel{Name: row.Name, Leaseholder: row.Lease, DataType: row.DT, IsIndex: row.IsIndex, LocalKey: k.LocalKey(), LocalIndex: row.Index.LocalKey(), Virtual: row.Virtual, Internal: row.Internal, Expression: row.Expr}
			if err := gorp.NewCreate[channel.Key, channel.Channel]().Entry(&ch).Exec(r.ctx, n.layer.DB); err == nil {
				_ = gorp.NewDelete[channel.Key, channel.Channel]().Where(gorp.MatchKeys[channel.Key, channel.Channel](k)).Exec(r.ctx, n.layer.DB)
			}
		}
	}
}

// settleOnce polls for at most 1.5 s. done: nothing more to wait for (views agree, or the
// authorities contradict want). behind: the channels on which some node's view differs
// from the authorities' when the time ran out (with a lagging node's copy).
func (r *c15Run) settleOnce(want map[channel.Key]c15Row) (auth map[channel.Key]c15Row, behind map[channel.Key]c15Row, done bool, err error) {
	deadline := time.Now().Add(1500 * time.Millisecond)
	var prev map[channel.Key]c15Row
	stable, wrong := 0, 0
	for {
		views := map[node.Key]map[channel.Key]c15Row{}
		auth = map[channel.Key]c15Row{}
		for _, n := range r.cl.order {
			v, err := r.metaView(n)
			if err != nil {
				return nil, nil, false, fmt.Errorf("retrieving all channels on node %d: %w", n.key, err)
			}
			views[n.key] = v
			for k, row := range v {
				if c15Authority(k) == n.key {
					auth[k] = row
				}
			}
		}
		agree := true
		for _, n := range r.cl.order {
			agree = agree && c15SameView(auth, views[n.key])
		}
		if want != nil {
			if !c15SameView(auth, want) {
				if wrong++; wrong >= 5 {
					return auth, nil, true, nil
				}
			} else if agree {
				return auth, nil, true, nil
			}
		} else if agree {
			if prev != nil && c15SameView(prev, auth) {
				stable++
			} else {
				stable = 0
			}
			prev = auth
			if stable >= 3 {
				return auth, nil, true, nil
			}
		} else {
			prev, stable = nil, 0
		}
		if time.Now().After(deadline) {
			if agree {
				return auth, nil, true, nil
			}
			diff := map[channel.Key]c15Row{}
			for _, n := range r.cl.order {
				for _, k := range c15SortedKeys(views[n.key]) {
					row := views[n.key][k]
					if a, ok := auth[k]; !ok || a != row {
						diff[k] = row
					}
				}
				for k, a := range auth {
					if _, ok := views[n.key][k]; !ok {
						diff[k] = a
					}
				}
			}
			return auth, diff, false, nil
		}
		time.Sleep(simrt.UniqueDur(30 * time.Millisecond))
	}
}

// engineView lists what a node's time-series engine holds: every numeric directory of the
// engine's root that the engine also serves through RetrieveChannel, plus every key of
// probe that it serves without a directory.
func (r *c15Run) engineView(n *c15Node, probe []channel.Key) (map[channel.Key]c15Row, []string, error) {
	infos, err := n.tsFS.List(c15TSDir)
	if err != nil {
		return nil, nil, err
	}
	var names []string
	for _, i := range infos {
		names = append(names, i.Name())
	}
	sort.Strings(names)
	out := map[channel.Key]c15Row{}
	var odd []string
	add := func(k channel.Key) bool {
		ch, err := n.store.TS.RetrieveChannel(r.ctx, k.StorageKey())
		if err != nil {
			return false
		}
		out[k] = c15Row{Key: channel.Key(ch.Key), Lease: n.key, Name: ch.Name, DT: ch.DataType, Index: channel.Key(ch.Index), IsIndex: ch.IsIndex, Virtual: ch.Virtual}
		return true
	}
	for _, name := range names {
		k, err := strconv.ParseUint(name, 10, 32)
		if err != nil {
			odd = append(odd, name)
			continue
		}
		if !add(channel.Key(k)) {
			odd = append(odd, name)
		}
	}
	for _, k := range probe {
		if _, ok := out[k]; !ok {
			add(k)
		}
	}
	return out, odd, nil
}

type c15Ctx struct {
	op      string // create rename delete restart init
	api     string
	opt     string
	outcome string // ok failed
	gw      int
	tx      bool
}

func (x c15Ctx) sig() string {
	s := x.op
	if x.tx {
		s += "@tx"
	}
	if x.opt != "" {
		s += "+" + x.opt
	}
	return s + ":" + x.outcome
}

// byName: the request finds the channels it works on by their names.
func (x c15Ctx) byName() bool { return x.opt != "" || x.api == "names" }

// staleMark: the marker for failures of requests that find channels by name, once a
// node's name look-up has been seen to be off.
func (r *c15Run) staleMark(x c15Ctx) string {
	if x.byName() {
		return r.idxStale
	}
	return ""
}

// checkStores compares the model with every node's metadata and every node's engine.
func (r *c15Run) checkStores(x c15Ctx, what string, auth map[channel.Key]c15Row) *drv.Failure {
	for _, k := range c15SortedKeys(r.live) {
		want := r.live[k]
		got, ok := auth[k]
		if !ok {
			return drv.Failf("metadata-mismatch", x.sig()+":missing:"+want.kind()+":"+r.via(x.gw, want.Lease)+r.staleMark(x), "%s: cluster metadata (node %d's, the channel's authority) does not hold channel %v, which exists", what, c15Authority(k), want)
		}
		if want.Expr != "" {
			// the index of a calculated channel is a channel the service makes up; the
			// statement compares it between the two stores, and a calculated channel is in one
			want.Index = got.Index
			r.live[k] = want
		}
		if d := want.diff(got, true); d != "" {
			if d == "name" && x.op == "rename" && x.api == "names" && x.outcome == "ok" {
				return drv.Failf("by-name-request-missed-channel", "rename:"+want.kind()+":"+r.via(x.gw, want.Lease)+r.idxStale, "%s reported success, but cluster metadata (node %d's) still holds %v", what, c15Authority(k), got)
			}
			return drv.Failf("metadata-mismatch", x.sig()+":field-"+d+":"+want.kind()+":"+r.via(x.gw, want.Lease)+r.staleMark(x), "%s: cluster metadata (node %d's) holds %v where the requests amount to %v", what, c15Authority(k), got, want)
		}
		if got.Key.Leaseholder() != got.Lease {
			return drv.Failf("key-leaseholder-mismatch", "metadata:"+want.kind(), "%s: cluster metadata holds channel %v whose key embeds node %d but whose leaseholder is %d", what, got, got.Key.Leaseholder(), got.Lease)
		}
	}
	for _, k := range c15SortedKeys(auth) {
		if _, ok := r.live[k]; !ok {
			got := auth[k]
			how := "never-created"
			if _, was := r.deleted[k]; was {
				how = "deleted"
			}
			if how == "deleted" && x.op == "delete" && x.api == "names" && x.outcome == "ok" {
				return drv.Failf("by-name-request-missed-channel", "delete:"+got.kind()+":"+r.via(x.gw, got.Lease)+r.idxStale, "%s reported success, but cluster metadata (node %d's) still holds %v", what, c15Authority(k), got)
			}
			return drv.Failf("metadata-mismatch", x.sig()+":extra-"+how+":"+got.kind()+":"+r.via(x.gw, got.Lease)+r.staleMark(x), "%s: cluster metadata (node %d's) holds channel %v, which is %s", what, c15Authority(k), got, how)
		}
	}
	probe := append(c15SortedKeys(r.live), c15SortedKeys(r.deleted)...)
	for _, n := range r.cl.order {
		eng, odd, err := r.engineView(n, probe)
		if err != nil {
			return drv.Failf("unexpected-error", "engine-list", "%s: listing node %d's engine directory: %v", what, n.key, err)
		}
		if len(odd) > 0 {
			r.st.Probe("engine_dir_entry_without_channel")
		}
		for _, k := range c15SortedKeys(r.live) {
			want := r.live[k]
			if want.Lease != n.key {
				continue
			}
			got, ok := eng[k]
			if !ok {
				return drv.Failf("engine-mismatch", x.sig()+":missing:"+want.kind()+":"+r.via(x.gw, want.Lease), "%s: the engine of node %d, the leaseholder, does not hold channel %v, which exists in metadata (engine directory: entries without a channel %v)", what, n.key, want, odd)
			}
			if d := want.diff(got, false); d != "" {
				return drv.Failf("engine-mismatch", x.sig()+":field-"+d+":"+want.kind()+":"+r.via(x.gw, want.Lease), "%s: the engine of node %d holds %v where metadata holds %v", what, n.key, got, want)
			}
		}
		for _, k := range c15SortedKeys(eng) {
			if w, ok := r.live[k]; ok && w.Lease == n.key {
				continue
			}
			got := eng[k]
			how, rel := "never-in-metadata", ""
			if w, ok := r.live[k]; ok {
				how = "leased-to-node-" + strconv.Itoa(int(w.Lease))
			} else if _, was := r.deleted[k]; was {
				how, rel = "deleted", ":"+r.via(x.gw, got.Key.Leaseholder())
				if by, ok := r.overwrittenBy[k]; ok && by == n.key {
					how = "overwritten-by-channel-of-same-leaseholder"
				} else if ok {
					how = "overwritten-by-channel-of-other-leaseholder"
				}
			}
			return drv.Failf("engine-mismatch", x.sig()+":extra-"+how+":"+got.kind()+rel, "%s: the engine of node %d holds channel %v, which metadata does not have (%s)", what, n.key, got, how)
		}
	}
	return nil
}

// checkDeleted: a deleted channel can no longer be retrieved, written or read at either
// layer.
func (r *c15Run) checkDeleted(x c15Ctx, what string, keys []channel.Key) *drv.Failure {
	for i, k := range keys {
		row := r.deleted[k]
		gwN := r.cl.order[(x.gw+i)%len(r.cl.order)]
		for _, n := range r.cl.order {
			var got []channel.Channel
			err := n.layer.Channel.NewRetrieve().Where(channel.MatchKeys(k)).Entries(&got).Exec(r.ctx, nil)
			if err == nil && len(got) > 0 {
				return drv.Failf("deleted-channel-usable", "metadata:retrieve:"+row.kind(), "%s: deleted channel %v can still be retrieved from node %d's metadata", what, row, n.key)
			}
			var byName []channel.Channel
			if c15ValidName.MatchString(row.Name) {
				_ = n.layer.Channel.NewRetrieve().Where(channel.MatchNames(row.Name)).Entries(&byName).Exec(r.ctx, nil)
				for _, ch := range byName {
					if ch.Key() == k {
						return drv.Failf("deleted-channel-usable", "metadata:retrieve-by-name:"+row.kind(), "%s: deleted channel %v can still be retrieved by name from node %d's metadata", what, row, n.key)
					}
				}
			}
		}
		w, err := gwN.layer.Framer.OpenWriter(r.ctx, writer.Config{Keys: channel.Keys{k}, Start: telem.TimeStamp(10 * telem.Second), Sync: new(true)})
		if err == nil {
			_ = w.Close()
			return drv.Failf("deleted-channel-usable", "framer:open-writer:"+row.kind(), "%s: a writer on deleted channel %v could be opened through node %d", what, row, gwN.key)
		}
		it, err := gwN.layer.Framer.OpenIterator(r.ctx, iterator.Config{Keys: channel.Keys{k}, Bounds: telem.TimeRangeMax})
		if err == nil {
			_ = it.Close()
			return drv.Failf("deleted-channel-usable", "framer:open-iterator:"+row.kind(), "%s: an iterator on deleted channel %v could be opened through node %d", what, row, gwN.key)
		}
		for _, n := range r.cl.order {
			if _, err := n.store.TS.RetrieveChannel(r.ctx, k.StorageKey()); err == nil {
				return drv.Failf("deleted-channel-usable", "engine:retrieve:"+row.kind(), "%s: deleted channel %v can still be retrieved from node %d's engine", what, row, n.key)
			}
			ew, err := n.store.TS.OpenWriter(r.ctx, cesium.WriterConfig{Channels: []cesium.ChannelKey{k.StorageKey()}, Start: telem.TimeStamp(10 * telem.Second)})
			if err == nil {
				_ = ew.Close()
				return drv.Failf("deleted-channel-usable", "engine:open-writer:"+row.kind(), "%s: a writer on deleted channel %v could be opened on node %d's engine", what, row, n.key)
			}
			ei, err := n.store.TS.OpenIterator(cesium.IteratorConfig{Channels: []cesium.ChannelKey{k.StorageKey()}, Bounds: telem.TimeRangeMax})
			if err == nil {
				_ = ei.Close()
				return drv.Failf("deleted-channel-usable", "engine:open-iterator:"+row.kind(), "%s: an iterator on deleted channel %v could be opened on node %d's engine", what, row, n.key)
			}
		}
		r.st.Probe("deleted_channel_refused_everywhere")
	}
	return nil
}

// checkNames: with name validation on, a channel created or renamed by the operation has
// a valid name no other existing channel has.
func (r *c15Run) checkNames(x c15Ctx, what string, touched []channel.Key, how map[channel.Key]string) *drv.Failure {
	if !r.c.Validate {
		return nil
	}
	for _, k := range touched {
		row, ok := r.live[k]
		if !ok {
			continue
		}
		if !c15ValidName.MatchString(row.Name) {
			return drv.Failf("invalid-name-accepted", x.sig()+":"+how[k]+":"+row.kind(), "%s: with name validation on, channel %v now has the invalid name %q", what, row, row.Name)
		}
		for _, ok2 := range c15SortedKeys(r.live) {
			if o := r.live[ok2]; ok2 != k && o.Name == row.Name {
				const auto = "created-as-index-of-calculated"
				reason := how[k] + ":" + row.kind() + ":other-" + o.kind()
				switch {
				case how[k] == auto && how[ok2] == auto:
					reason = "index-of-calculated-channel-created-twice"
				case how[k] == auto || how[ok2] == auto:
					reason = "index-of-calculated-channel-takes-existing-name"
				}
				return drv.Failf("name-not-unique", x.sig()+":"+reason+r.idxStale, "%s: with name validation on, channel %v (%s by this request) has the name of existing channel %v", what, row, how[k], o)
			}
		}
	}
	return nil
}

func (r *c15Run) addLive(row c15Row) {
	r.live[row.Key] = row
	r.ever[row.Key] = true
	r.created = append(r.created, row.Key)
	if row.IsIndex && !row.Virtual && row.Lease != node.KeyFree {
		r.indexes = append(r.indexes, row.Key)
	}
}

func (r *c15Run) remove(k channel.Key) {
	if row, ok := r.live[k]; ok {
		r.deleted[k] = row
		delete(r.live, k)
	}
}

// adopt takes over what a FAILED request left behind (the statement does not make
// requests atomic), provided every change is one the request asked for.
func (r *c15Run) adopt(x c15Ctx, what string, obs map[channel.Key]c15Row, mayCreate map[string]bool, mayDelete map[channel.Key]bool, mayRename map[channel.Key]string) (touched []channel.Key, how map[channel.Key]string, gone []channel.Key, fail *drv.Failure) {
	how = map[channel.Key]string{}
	for _, k := range c15SortedKeys(obs) {
		got := obs[k]
		old, ok := r.live[k]
		if !ok {
			if r.ever[k] {
				return nil, nil, nil, drv.Failf("key-reused", x.sig()+":"+got.kind()+r.dupRetrieve, "%s: after the failed request metadata holds %v under a key that an earlier channel had", what, got)
			}
			if !mayCreate[got.Name] {
				return nil, nil, nil, drv.Failf("unrequested-change", x.sig()+":created:"+got.kind(), "%s: the failed request left channel %v behind, which it did not ask for", what, got)
			}
			r.addLive(got)
			touched = append(touched, k)
			how[k] = "created"
			if r.autoNames[got.Name] && got.kind() == "free-index" {
				how[k] = "created-as-index-of-calculated"
			}
			r.st.Probe("failed_request_partly_applied")
			continue
		}
		if d := old.diff(got, true); d != "" {
			if x.op == "create" && mayCreate[got.Name] {
				// a create never touches an existing channel: a new one was stored under its key
				return nil, nil, nil, drv.Failf("key-not-unique", "existing-channel:replaced-by-failed-create"+r.dupRetrieve, "%s: the failed request stored %v under the key of existing channel %v", what, got, old)
			}
			if nn, ok := mayRename[k]; !(ok && d == "name" && nn == got.Name) {
				return nil, nil, nil, drv.Failf("unrequested-change", x.sig()+":changed-"+d+":"+old.kind(), "%s: the failed request changed channel %v into %v", what, old, got)
			}
			old.Name = got.Name
			if old.diff(got, true) != "" {
				return nil, nil, nil, drv.Failf("unrequested-change", x.sig()+":changed-more-than-name:"+old.kind(), "%s: the failed request changed channel %v into %v", what, r.live[k], got)
			}
			r.live[k] = old
			touched = append(touched, k)
			how[k] = "renamed"
			r.st.Probe("failed_request_partly_applied")
		}
	}
	for _, k := range c15SortedKeys(r.live) {
		if _, ok := obs[k]; ok {
			continue
		}
		if !mayDelete[k] {
			return nil, nil, nil, drv.Failf("unrequested-change", x.sig()+":deleted:"+r.live[k].kind(), "%s: the failed request removed channel %v from metadata, which it did not ask for", what, r.live[k])
		}
		r.remove(k)
		gone = append(gone, k)
		r.st.Probe("failed_request_partly_applied")
	}
	return touched, how, gone, nil
}

func c15CopyView(m map[channel.Key]c15Row) map[channel.Key]c15Row {
	out := make(map[channel.Key]c15Row, len(m))
	for k, v := range m {
		out[k] = v
	}
	return out
}

func (r *c15Run) body() (fail *drv.Failure) {
	r.ctx = context.Background()
	r.cl = c15NewCluster(r.c.Validate)
	r.live, r.ever, r.deleted = map[channel.Key]c15Row{}, map[channel.Key]bool{}, map[channel.Key]c15Row{}
	r.overwrittenBy = map[channel.Key]node.Key{}
	defer func() {
		if err := r.cl.close(); err != nil && fail == nil {
			fail = drv.Failf("unexpected-error", "cluster-close", "closing the cluster: %v", err)
		}
	}()
	for i := 0; i < r.c.Nodes; i++ {
		if err := r.cl.provision(r.ctx); err != nil {
			return drv.Failf("harness", "provision", "provisioning node %d: %v", i+1, err)
		}
	}
	for i, n := range r.cl.order {
		if int(n.key) != i+1 {
			return drv.Failf("harness", "node-keys", "node %d got key %d", i+1, n.key)
		}
	}
	// the channels the cluster creates for itself (one internal control channel per node)
	// are channels of the cluster like any other: they start the model
	auth, stale, err := r.settle(nil)
	if err != nil {
		return drv.Failf("unexpected-error", "retrieve-all", "%v", err)
	}
	if stale {
		r.st.Inconcl("metadata_not_propagated_to_every_node")
		c15LastInconclusive = "at start: " + r.staleWhat
		return nil
	}
	for _, k := range c15SortedKeys(auth) {
		r.addLive(auth[k])
	}
	r.created, r.indexes = nil, nil
	if f := r.checkStores(c15Ctx{op: "init", outcome: "ok", gw: 1}, "after provisioning", auth); f != nil {
		return f
	}
	nontrivial := false
	for oi, op := range r.c.Ops {
		var f *drv.Failure
		switch op.K {
		case "create":
			f = r.doCreate(oi, op)
		case "rename":
			f = r.doRename(oi, op)
		case "delete":
			f = r.doDelete(oi, op)
		case "restart":
			f = r.doRestart(oi, op)
		}
		if f != nil {
			return f
		}
		if r.stop {
			if r.lookupFail != nil {
				return r.lookupFail
			}
			r.st.Inconcl("metadata_not_propagated_to_every_node")
			c15LastInconclusive = r.staleWhat
			return nil
		}
		if len(r.deleted) > 0 && len(r.live) > r.c.Nodes {
			nontrivial = true
		}
	}
	// closing sweep: nothing deleted during the case has come back
	x := c15Ctx{op: "end", outcome: "ok", gw: 1}
	if f := r.checkDeleted(x, "at the end of the case", c15SortedKeys(r.deleted)); f != nil {
		return f
	}
	if r.lookupFail != nil {
		return r.lookupFail
	}
	if d := os.Getenv("VERIF_TRACEDIR"); d != "" {
		c15TraceN++
		cj, _ := json.Marshal(r.c)
		_ = os.WriteFile(d+"/"+strconv.Itoa(c15TraceN)+".trace", []byte(string(cj)+"\n"+strings.ReplaceAll(r.trace.String(), ";", "\n")), 0o644)
	}
	r.st.Case(drv.Hash64(r.trace.String()), nontrivial)
	return nil
}

func (r *c15Run) finish(x c15Ctx, what string, touched []channel.Key, how map[channel.Key]string, gone []channel.Key) *drv.Failure {
	if c15Debug {
		fmt.Fprintf(os.Stderr, "c15: %s -> %s\n", what, x.outcome)
		for _, k := range c15SortedKeys(r.live) {
			fmt.Fprintf(os.Stderr, "c15:     model %v\n", r.live[k])
		}
	}
	auth, stale, err := r.settle(r.live)
	if err != nil {
		return drv.Failf("unexpected-error", "retrieve-all", "%s: %v", what, err)
	}
	if f := r.checkStores(x, what, auth); f != nil {
		return f
	}
	if f := r.checkNames(x, what, touched, how); f != nil {
		return f
	}
	if stale {
		r.stop = true
		return nil
	}
	r.checkNameLookup(x, what)
	return r.checkDeleted(x, what, gone)
}

// checkNameLookup notes when a node's retrieval by name disagrees with the very same
// node's metadata, which by now equals the model on every node (see lookupFail).
func (r *c15Run) checkNameLookup(x c15Ctx, what string) {
	if r.idxStale != "" {
		return
	}
	names := map[string]bool{}
	for _, nm := range c15GoodNames {
		names[nm] = true
	}
	for _, row := range r.deleted {
		names[row.Name] = true
	}
	var sorted []string
	for nm := range names {
		if c15ValidName.MatchString(nm) {
			sorted = append(sorted, nm)
		}
	}
	sort.Strings(sorted)
	for _, n := range r.cl.order {
		for _, nm := range sorted {
			var gk, wk []channel.Key
			for _, k := range c15SortedKeys(r.live) {
				if r.live[k].Name == nm {
					wk = append(wk, k)
				}
			}
			// the look-up is maintained by an observer of the key-value store, which may
			// run a little after the store itself has changed
			for try := 0; try < 12; try++ {
				var got []channel.Channel
				if err := n.layer.Channel.NewRetrieve().Where(channel.MatchNames(nm)).Entries(&got).Exec(r.ctx, nil); err != nil {
					got = nil
				}
				gk = nil
				for _, ch := range got {
					gk = append(gk, ch.Key())
				}
				sort.Slice(gk, func(i, j int) bool { return gk[i] < gk[j] })
				if fmt.Sprint(gk) == fmt.Sprint(wk) {
					break
				}
				time.Sleep(simrt.UniqueDur(50 * time.Millisecond))
			}
			if fmt.Sprint(gk) != fmt.Sprint(wk) {
				r.idxStale = ":name-index-stale"
				r.st.Probe("name_lookup_disagrees_with_metadata_after_" + x.op)
				role := "peer"
				for _, k := range append(append([]channel.Key{}, gk...), wk...) {
					if c15Authority(k) == n.key {
						role = "authority"
					}
				}
				r.lookupFail = drv.Failf("name-lookup-mismatch", x.sig()+":on-the-channels-"+role, "%s: afterwards node %d finds channels %v under the name %q, while its own metadata (equal to every other node's) holds that name for channels %v", what, n.key, gk, nm, wk)
				return
			}
		}
	}
}

// failed handles a request that returned an error: what it left behind is adopted (if it
// is something the request asked for) and the stores are compared as after any request.
func (r *c15Run) failed(x c15Ctx, what string, err error, mayCreate map[string]bool, mayDelete map[channel.Key]bool, mayRename map[channel.Key]string) *drv.Failure {
	auth, _, verr := r.settle(nil)
	if verr != nil {
		return drv.Failf("unexpected-error", "retrieve-all", "%s: %v", what, verr)
	}
	what += fmt.Sprintf(" (failed: %s)", c15FirstLine(err.Error()))
	touched, how, gone, f := r.adopt(x, what, auth, mayCreate, mayDelete, mayRename)
	if f != nil {
		return f
	}
	return r.finish(x, what, touched, how, gone)
}

// ---- create ----------------------------------------------------------------------------

type c15Want struct {
	spec    c15Spec
	lease   node.Key
	dt      telem.DataType
	isIndex bool
	virtual bool
	expr    string
	index   channel.LocalKey
}

func (w c15Want) sameProps(e c15Row) bool {
	return e.DT == w.dt && e.IsIndex == w.isIndex && e.Virtual == w.virtual && e.Expr == w.expr && !e.Internal
}

func (r *c15Run) doCreate(oi int, op c15Op) *drv.Failure {
	x := c15Ctx{op: "create", opt: op.Opt, gw: op.Gateway, tx: op.Tx}
	var chans []channel.Channel
	var wants []c15Want
	mayCreate := map[string]bool{}
	autoNames := map[string]bool{}
	r.autoNames = autoNames
	for _, sp := range op.Specs {
		ch := channel.Channel{Name: sp.Name, Leaseholder: node.Key(sp.Lease)}
		w := c15Want{spec: sp}
		switch sp.Kind {
		case "index":
			ch.DataType, ch.IsIndex = telem.TimeStampT, true
		case "fixed", "var":
			ch.DataType = telem.Float64T
			if sp.Kind == "var" {
				ch.DataType = telem.StringT
			}
			switch {
			case sp.Idx >= 0 && len(r.indexes) > 0:
				ik := r.indexes[sp.Idx%len(r.indexes)]
				ch.LocalIndex = ik.LocalKey()
				if sp.Follow {
					ch.Leaseholder = ik.Leaseholder()
				}
			case sp.Idx == -1 || sp.Idx >= 0:
				ch.LocalIndex = channel.LocalKey(700 + oi)
			}
		case "virtual":
			ch.DataType, ch.Virtual = telem.Int64T, true
		case "vindex":
			ch.DataType, ch.Virtual, ch.IsIndex = telem.TimeStampT, true, true
		case "free":
			ch.DataType, ch.Virtual, ch.Leaseholder = telem.Int64T, true, node.KeyFree
		case "freeidx":
			ch.DataType, ch.Virtual, ch.IsIndex, ch.Leaseholder = telem.TimeStampT, true, true, node.KeyFree
		case "calc":
			ch.DataType, ch.Expression = telem.Float32T, "return 1"
		}
		w.lease, w.dt, w.isIndex, w.virtual, w.expr, w.index = ch.Leaseholder, ch.DataType, ch.IsIndex, ch.Virtual, ch.Expression, ch.LocalIndex
		if w.lease == 0 {
			w.lease = node.Key(op.Gateway)
		}
		if w.expr != "" { // a calculated channel is free and virtual whatever was asked
			w.lease, w.virtual = node.KeyFree, true
			mayCreate[sp.Name+"_time"] = true
			autoNames[sp.Name+"_time"] = true
		}
		mayCreate[sp.Name] = true
		chans = append(chans, ch)
		wants = append(wants, w)
	}
	var opts []channel.CreateOption
	switch op.Opt {
	case "retrieve":
		opts = append(opts, channel.RetrieveIfNameExists())
		for nm := range mayCreate {
			n := 0
			for _, e := range r.live {
				if e.Name == nm {
					n++
				}
			}
			if n > 1 && r.dupRetrieve == "" {
				r.dupRetrieve = ":after-retrieve-if-name-exists-met-a-name-several-channels-have"
				r.st.Probe("retrieve_if_name_exists_met_a_name_several_channels_have")
			}
		}
	case "overwrite":
		opts = append(opts, channel.OverwriteIfNameExistsAndDifferentProperties())
	}
	what := fmt.Sprintf("op %d: create%s %v through node %d%s", oi, map[string]string{"": "", "retrieve": " (RetrieveIfNameExists)", "overwrite": " (OverwriteIfNameExistsAndDifferentProperties)"}[op.Opt], op.Specs, op.Gateway, c15TxNote(op))
	var err error
	if len(chans) == 1 && oi%2 == 1 && chans[0].Expression == "" { // Create hands back one channel: not for calculated ones, which come with an index
		err = r.write(op, func(w channel.Writer) error { return w.Create(r.ctx, &chans[0], opts...) })
	} else {
		err = r.write(op, func(w channel.Writer) error { return w.CreateMany(r.ctx, &chans, opts...) })
	}
	if err != nil {
		x.outcome = "failed"
		fmt.Fprintf(&r.trace, "%d:create:err:%s;", oi, c15FirstLine(err.Error()))
		r.st.Probe("create_failed")
		if len(op.Specs) > 1 {
			r.st.Probe("create_batch_failed")
		}
		mayDelete := map[channel.Key]bool{}
		if op.Opt == "overwrite" {
			for _, k := range c15SortedKeys(r.live) {
				if e := r.live[k]; mayCreate[e.Name] {
					mayDelete[k] = true
					for _, w := range wants {
						if w.spec.Name == e.Name {
							r.overwrittenBy[k] = w.lease
						}
					}
				}
			}
		}
		f := r.failed(x, what, err, mayCreate, mayDelete, nil)
		for k := range mayDelete {
			if _, still := r.live[k]; still {
				delete(r.overwrittenBy, k)
			}
		}
		return f
	}
	x.outcome = "ok"
	r.st.Probe("create_ok")
	// ---- every requested channel is among the returned ones; extras are the index
	// channels the service creates for calculated channels
	matched := make([]int, len(chans)) // returned position -> spec position, -1 = extra
	used := make([]bool, len(wants))
	for i := range chans {
		matched[i] = -1
	}
	for pass := 0; pass < 3; pass++ {
		for i, ch := range chans {
			for j, w := range wants {
				if matched[i] >= 0 {
					break
				}
				if used[j] || w.spec.Name != ch.Name {
					continue
				}
				if pass < 2 && !(ch.IsIndex == w.isIndex && ch.DataType == w.dt && (ch.Expression != "") == (w.expr != "")) {
					continue
				}
				if pass < 1 && !(ch.Leaseholder == w.lease && ch.Virtual == w.virtual) {
					continue
				}
				matched[i], used[j] = j, true
			}
		}
	}
	for j, u := range used {
		if !u {
			return drv.Failf("create-result-mismatch", "requested-channel-not-returned:"+wants[j].spec.Kind, "%s succeeded but did not return a channel for %v (returned %v)", what, wants[j].spec, chans)
		}
	}
	var touched, gone []channel.Key
	how := map[channel.Key]string{}
	before := c15CopyView(r.live)
	// overwrite: existing channels with a requested name and other properties go away
	if op.Opt == "overwrite" {
		// the index channels made up for calculated channels overwrite like requested ones
		all := append([]c15Want(nil), wants...)
		for _, w := range wants {
			if w.expr != "" {
				all = append(all, c15Want{spec: c15Spec{Name: w.spec.Name + "_time", Kind: "auto-index"}, lease: node.KeyFree, dt: telem.TimeStampT, isIndex: true, virtual: true})
			}
		}
		for _, k := range c15SortedKeys(before) {
			e := before[k]
			for _, w := range all {
				if w.spec.Name == e.Name && !w.sameProps(e) {
					r.remove(k)
					r.overwrittenBy[k] = w.lease
					gone = append(gone, k)
					r.st.Probe("overwrite_replaced_a_channel")
					if e.Lease != w.lease {
						r.st.Probe("overwrite_replaced_a_channel_of_another_leaseholder")
					}
					break
				}
			}
		}
	}
	seen := map[channel.Key]bool{}
	seenName := map[channel.Key]string{}
	auto := map[channel.Key]bool{}
	newRows := map[int]c15Row{}
	for i, ch := range chans {
		k := ch.Key()
		kindName := "auto-index"
		if matched[i] >= 0 {
			kindName = wants[matched[i]].spec.Kind
		}
		if seen[k] {
			if op.Opt != "" && seenName[k] == ch.Name {
				// a later part of the batch found the channel an earlier part had created
				r.st.Probe("create_returned_a_channel_of_the_same_request_twice")
				continue
			}
			return drv.Failf("key-not-unique", "same-request:"+kindName+r.dupRetrieve, "%s returned key %d twice: %v", what, k, chans)
		}
		seen[k] = true
		seenName[k] = ch.Name
		if e, ok := before[k]; ok {
			// an existing channel was handed back
			if op.Opt == "" {
				return drv.Failf("key-not-unique", "existing-channel:"+kindName+r.dupRetrieve, "%s returned %v under the key of existing channel %v", what, ch, e)
			}
			if e.Name != ch.Name || e.DT != ch.DataType || e.IsIndex != ch.IsIndex || e.Virtual != ch.Virtual || e.Expr != ch.Expression {
				// the two options hand back existing channels, found by name, as they are
				return drv.Failf("key-not-unique", "existing-channel:"+kindName+r.dupRetrieve, "%s returned %v (type %s, is_index %v, virtual %v) under the key of existing channel %v", what, ch, ch.DataType, ch.IsIndex, ch.Virtual, e)
			}
			if _, still := r.live[k]; !still {
				return drv.Failf("create-result-mismatch", "overwrite-returned-differing-channel:"+kindName, "%s returned existing channel %v although its properties differ from the request (returned: %v)", what, e, chans)
			}
			r.st.Probe("create_returned_existing_channel")
			continue
		}
		if r.ever[k] {
			return drv.Failf("key-reused", x.sig()+":"+kindName+r.dupRetrieve, "%s gave new channel %v the key %d, which deleted channel %v had", what, ch, k, r.deleted[k])
		}
		var row c15Row
		if j := matched[i]; j >= 0 {
			w := wants[j]
			if op.Opt == "retrieve" {
				for _, ek := range c15SortedKeys(before) {
					if before[ek].Name == w.spec.Name {
						r.st.Probe("retrieve_if_name_exists_created_although_name_existed")
					}
				}
			}
			row = c15Row{Key: k, Lease: w.lease, Name: w.spec.Name, DT: w.dt, IsIndex: w.isIndex, Virtual: w.virtual, Expr: w.expr}
			switch {
			case w.isIndex:
				row.Index = k
			case w.index != 0:
				row.Index = channel.NewKey(w.lease, w.index)
			case w.expr != "":
				row.Index = ch.Index() // checked below against the auto-created index
			}
		} else {
			// auto-created index of a calculated channel of this request
			base, isTime := strings.CutSuffix(ch.Name, "_time")
			okBase := false
			for _, w := range wants {
				okBase = okBase || (isTime && w.expr != "" && w.spec.Name == base)
			}
			if !okBase {
				return drv.Failf("create-result-mismatch", "unrequested-channel-returned", "%s returned %v, which was not requested", what, ch)
			}
			row = c15Row{Key: k, Lease: node.KeyFree, Name: ch.Name, DT: telem.TimeStampT, IsIndex: true, Virtual: true, Index: k}
			auto[k] = true
			r.st.Probe("calculated_auto_index_created")
		}
		if k.Leaseholder() != row.Lease || ch.Leaseholder != row.Lease {
			return drv.Failf("key-leaseholder-mismatch", "create:"+kindName+":"+r.via(op.Gateway, row.Lease), "%s: new channel %v has key %d (embeds node %d) and leaseholder %d, the request puts it on node %d", what, ch, k, k.Leaseholder(), ch.Leaseholder, row.Lease)
		}
		newRows[i] = row
	}
	for _, i := range func() []int {
		var is []int
		for i := range newRows {
			is = append(is, i)
		}
		sort.Ints(is)
		return is
	}() {
		row := newRows[i]
		if row.Expr != "" {
			ok := false
			for _, o := range newRows {
				ok = ok || (o.Key == row.Index && o.Name == row.Name+"_time")
			}
			if e, live := r.live[row.Index]; live && e.Name == row.Name+"_time" {
				ok = true
			}
			if !ok {
				r.st.Probe("calculated_channel_without_its_time_index")
			}
		}
		r.addLive(row)
		touched = append(touched, row.Key)
		how[row.Key] = "created"
		if auto[row.Key] {
			how[row.Key] = "created-as-index-of-calculated"
		}
		r.st.Probe("created_" + row.kind() + "_" + r.via(op.Gateway, row.Lease))
	}
	fmt.Fprintf(&r.trace, "%d:create:ok:%v;", oi, c15SortedKeys(seen))
	if len(op.Specs) > 1 {
		r.st.Probe("create_batch_ok")
	}
	return r.finish(x, what, touched, how, gone)
}

// ---- targets ---------------------------------------------------------------------------

func (r *c15Run) target(ref, gw int) (channel.Key, string) {
	switch {
	case ref == -2:
		for _, k := range c15SortedKeys(r.live) {
			if e := r.live[k]; e.Internal && int(e.Lease) == gw {
				return k, "internal"
			}
		}
	case ref >= 0 && len(r.created) > 0:
		k := r.created[ref%len(r.created)]
		if _, ok := r.live[k]; ok {
			return k, "live"
		}
		return k, "deleted"
	}
	r.ghost++
	return channel.NewKey(node.Key(gw), channel.LocalKey(900+r.ghost)), "ghost"
}

// ---- rename ----------------------------------------------------------------------------

func (r *c15Run) doRename(oi int, op c15Op) *drv.Failure {
	x := c15Ctx{op: "rename", api: op.API, gw: op.Gateway, tx: op.Tx}
	var keys channel.Keys
	var names []string
	var kinds []string
	for i, ref := range op.Refs {
		k, kind := r.target(ref, op.Gateway)
		if keys.Contains(k) {
			continue
		}
		keys, names, kinds = append(keys, k), append(names, op.Names[i]), append(kinds, kind)
	}
	api := op.API
	var err error
	var what string
	mayRename := map[channel.Key]string{}
	switch api {
	case "single":
		keys, names, kinds = keys[:1], names[:1], kinds[:1]
		what = fmt.Sprintf("op %d: Rename(%d -> %q) [%s] through node %d%s", oi, keys[0], names[0], kinds[0], op.Gateway, c15TxNote(op))
		err = r.write(op, func(w channel.Writer) error { return w.Rename(r.ctx, keys[0], names[0], false) })
		mayRename[keys[0]] = names[0]
	case "names":
		// MapRename addresses channels by their current names: every live channel with
		// that name is renamed. One entry only: the service turns the map into a list in
		// Go's map order, and when a request fails half way the order decides what the
		// failure leaves behind.
		m := map[string]string{}
		for i, k := range keys {
			if e, ok := r.live[k]; ok && c15ValidName.MatchString(e.Name) && len(m) == 0 {
				m[e.Name] = names[i]
			}
		}
		if len(m) == 0 {
			fmt.Fprintf(&r.trace, "%d:rename:skip;", oi)
			return nil
		}
		keys, names = nil, nil
		for _, k := range c15SortedKeys(r.live) {
			if nn, ok := m[r.live[k].Name]; ok {
				keys, names = append(keys, k), append(names, nn)
				mayRename[k] = nn
			}
		}
		what = fmt.Sprintf("op %d: MapRename(%v) (channels %v) through node %d%s", oi, m, keys, op.Gateway, c15TxNote(op))
		err = r.write(op, func(w channel.Writer) error { return w.MapRename(r.ctx, m, false) })
	default:
		what = fmt.Sprintf("op %d: RenameMany(%v -> %q) %v through node %d%s", oi, keys, names, kinds, op.Gateway, c15TxNote(op))
		err = r.write(op, func(w channel.Writer) error { return w.RenameMany(r.ctx, keys, names, false) })
		for i, k := range keys {
			mayRename[k] = names[i]
		}
	}
	if err != nil {
		x.outcome = "failed"
		fmt.Fprintf(&r.trace, "%d:rename:err:%s;", oi, c15FirstLine(err.Error()))
		r.st.Probe("rename_failed")
		if len(keys) > 1 {
			r.st.Probe("rename_batch_failed")
		}
		return r.failed(x, what, err, nil, nil, mayRename)
	}
	x.outcome = "ok"
	fmt.Fprintf(&r.trace, "%d:rename:ok;", oi)
	r.st.Probe("rename_ok")
	var touched []channel.Key
	how := map[channel.Key]string{}
	for i, k := range keys {
		e, ok := r.live[k]
		if !ok {
			r.st.Probe("rename_of_missing_channel_reported_success")
			continue
		}
		if e.Internal {
			r.st.Probe("rename_of_internal_channel_reported_success")
		}
		e.Name = names[i]
		r.live[k] = e
		touched = append(touched, k)
		how[k] = "renamed"
		r.st.Probe("renamed_" + e.kind() + "_" + r.via(op.Gateway, e.Lease))
	}
	if len(touched) > 1 {
		r.st.Probe("rename_batch_ok")
	}
	return r.finish(x, what, touched, how, nil)
}

// ---- delete ----------------------------------------------------------------------------

func (r *c15Run) doDelete(oi int, op c15Op) *drv.Failure {
	x := c15Ctx{op: "delete", api: op.API, gw: op.Gateway, tx: op.Tx}
	var keys channel.Keys
	var kinds []string
	for _, ref := range op.Refs {
		k, kind := r.target(ref, op.Gateway)
		if keys.Contains(k) {
			continue
		}
		keys, kinds = append(keys, k), append(kinds, kind)
	}
	var err error
	var what string
	mayDelete := map[channel.Key]bool{}
	switch op.API {
	case "single":
		keys, kinds = keys[:1], kinds[:1]
		what = fmt.Sprintf("op %d: Delete(%d) [%s] through node %d%s", oi, keys[0], kinds[0], op.Gateway, c15TxNote(op))
		err = r.write(op, func(w channel.Writer) error { return w.Delete(r.ctx, keys[0], false) })
	case "names":
		var names []string
		for _, k := range keys {
			if e, ok := r.live[k]; ok && c15ValidName.MatchString(e.Name) && !strings.Contains(strings.Join(names, "\x00")+"\x00", e.Name+"\x00") {
				names = append(names, e.Name)
			}
		}
		if len(names) == 0 {
			names = []string{"zz_nothing"}
		}
		keys = nil
		for _, k := range c15SortedKeys(r.live) {
			for _, nme := range names {
				if r.live[k].Name == nme {
					keys = append(keys, k)
				}
			}
		}
		if len(names) == 1 && oi%2 == 0 {
			what = fmt.Sprintf("op %d: DeleteByName(%q) (channels %v) through node %d%s", oi, names[0], keys, op.Gateway, c15TxNote(op))
			err = r.write(op, func(w channel.Writer) error { return w.DeleteByName(r.ctx, names[0], false) })
		} else {
			what = fmt.Sprintf("op %d: DeleteManyByNames(%q) (channels %v) through node %d%s", oi, names, keys, op.Gateway, c15TxNote(op))
			err = r.write(op, func(w channel.Writer) error { return w.DeleteManyByNames(r.ctx, names, false) })
		}
	default:
		what = fmt.Sprintf("op %d: DeleteMany(%v) %v through node %d%s", oi, keys, kinds, op.Gateway, c15TxNote(op))
		err = r.write(op, func(w channel.Writer) error { return w.DeleteMany(r.ctx, keys, false) })
	}
	for _, k := range keys {
		mayDelete[k] = true
	}
	if err != nil {
		x.outcome = "failed"
		fmt.Fprintf(&r.trace, "%d:delete:err:%s;", oi, c15FirstLine(err.Error()))
		r.st.Probe("delete_failed")
		if len(keys) > 1 {
			r.st.Probe("delete_batch_failed")
		}
		return r.failed(x, what, err, nil, mayDelete, nil)
	}
	x.outcome = "ok"
	fmt.Fprintf(&r.trace, "%d:delete:ok;", oi)
	r.st.Probe("delete_ok")
	var gone []channel.Key
	for _, k := range keys {
		e, ok := r.live[k]
		if !ok {
			r.st.Probe("delete_of_missing_channel_reported_success")
			continue
		}
		if e.Internal {
			r.st.Probe("delete_of_internal_channel_reported_success")
		}
		r.remove(k)
		gone = append(gone, k)
		r.st.Probe("deleted_" + e.kind() + "_" + r.via(op.Gateway, e.Lease))
	}
	if len(gone) > 1 {
		r.st.Probe("delete_batch_ok")
	}
	return r.finish(x, what, nil, nil, gone)
}

// ---- restart ---------------------------------------------------------------------------

func (r *c15Run) doRestart(oi int, op c15Op) *drv.Failure {
	// The distribution layer cannot be reopened over a time-series engine that stays open
	// (the engine refuses to have its control-update channel configured twice), so a restart
	// closes the distribution layer and the time-series engine and reopens both over the
	// same in-memory file system. The key-value engine (pebble) stays open underneath: a
	// reopened pebble flushes its log through sync.Pool'ed writers whose channels belong to
	// an earlier case's bubble, which synctest forbids.
	x := c15Ctx{op: "restart", gw: op.Gateway, outcome: "ok"}
	n := r.cl.nodes[node.Key(op.Gateway)]
	what := fmt.Sprintf("op %d: restart of node %d's services", oi, n.key)
	if err := n.layer.Close(); err != nil {
		n.layer = nil
		return drv.Failf("unexpected-error", "restart:close-layer", "%s: closing the distribution layer: %v", what, err)
	}
	n.layer = nil
	if err := n.store.TS.Close(); err != nil {
		return drv.Failf("unexpected-error", "restart:close-engine", "%s: closing the time-series engine: %v", what, err)
	}
	tsdb, err := ts.Open(r.ctx, ts.Config{FS: n.tsFS, Dirname: c15TSDir})
	if err != nil {
		n.store.TS = nil
		return drv.Failf("unexpected-error", "restart:open-engine", "%s: reopening the time-series engine: %v", what, err)
	}
	n.store = &storage.Layer{KV: n.store.KV, TS: tsdb}
	if err := r.cl.openLayer(r.ctx, n); err != nil {
		return drv.Failf("unexpected-error", "restart:open-layer", "%s: reopening the distribution layer: %v", what, err)
	}
	if got := n.layer.Cluster.HostKey(); got != n.key {
		return drv.Failf("unexpected-error", "restart:host-key", "%s: the node came back as node %d", what, got)
	}
	if err := r.cl.waitTopology(); err != nil {
		return drv.Failf("unexpected-error", "restart:topology", "%s: %v", what, err)
	}
	fmt.Fprintf(&r.trace, "%d:restart;", oi)
	r.st.Probe("restart_services")
	return r.finish(x, what, nil, nil, nil)
}
