package channel

// Injected by /verif via `go test -overlay`; never part of the repository.
// The channel service's persisted key counter (counter.go) for the c15-counter engine,
// which lives in the external test package.

import (
	"context"

	"github.com/synnaxlabs/x/kv"
)

// VerifCounter is the service's local-key counter over a store of the harness's choosing.
type VerifCounter struct{ c *counter }

// VerifOpenCounter opens the counter the way OpenService does.
func VerifOpenCounter(ctx context.Context, db kv.ReadWriter, key []byte) (VerifCounter, error) {
	c, err := openCounter(ctx, db, key)
	return VerifCounter{c: c}, err
}

// Add reserves delta local keys: the keys handed out are (next-delta, next].
func (v VerifCounter) Add(ctx context.Context, delta uint32) (uint32, error) {
	next, err := v.c.add(ctx, LocalKey(delta))
	return uint32(next), err
}
