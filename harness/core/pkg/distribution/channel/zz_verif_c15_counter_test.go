package channel_test

// Injected by /verif via `go test -overlay`; never part of the repository.
// c15-counter: the mechanism behind "a key is never reused ... [across] restarts of a
// node's services": the persisted per-node counter of counter.go (kv.AtomicInt64Counter).
// createGateway reserves keys from it BEFORE taking the service's lock, so creates that
// reach a leaseholder at the same time (from its own clients and from other nodes'
// gateways) reserve concurrently. 2-3 tasks reserve blocks of keys under the seeded
// scheduler inside a synctest bubble; the store is the repository's in-memory kv behind a
// wrapper in which every Set is a scheduling point (a write to the cluster store is not
// instantaneous). Then the services "restart": the counter is opened again over the same
// store. Oracles: blocks handed out never overlap; the reopened counter is not below any
// key handed out (otherwise the next create after the restart reuses a key); a final
// reservation after the restart overlaps nothing.

import (
	"context"
	"fmt"
	"io"
	"sort"
	"strconv"
	"sync"
	"testing"
	"testing/synctest"
	"time"

	"github.com/synnaxlabs/synnax/pkg/distribution/channel"
	xkv "github.com/synnaxlabs/x/kv"
	"github.com/synnaxlabs/x/kv/memkv"
	"pgregory.net/rapid"
	"verifsim/drv"
	"verifsim/sim"
)

type c15cCase struct {
	Seed  int64 `json:"seed"`
	Strat int   `json:"strat"`
	// Tasks[i] = sizes of the blocks task i reserves, in order
	Tasks [][]int `json:"tasks"`
	// Mid: a restart also happens after the first round (all tasks rejoin afterwards
	// with the second half of their blocks)
	Mid bool `json:"mid"`
}

func genC15Counter(t *rapid.T) c15cCase {
	c := c15cCase{Seed: int64(rapid.IntRange(1, 1<<30).Draw(t, "seed")), Strat: rapid.IntRange(0, 2).Draw(t, "strat"), Mid: rapid.IntRange(0, 3).Draw(t, "mid") == 0}
	for n := rapid.IntRange(1, 3).Draw(t, "ntasks"); n > 0; n-- {
		var blocks []int
		for m := rapid.IntRange(1, 4).Draw(t, "nblocks"); m > 0; m-- {
			blocks = append(blocks, rapid.IntRange(1, 4).Draw(t, "delta"))
		}
		c.Tasks = append(c.Tasks, blocks)
	}
	return c
}

// c15YieldKV makes every write to the store a scheduling point.
type c15YieldKV struct{ xkv.DB }

func (k c15YieldKV) Set(ctx context.Context, key, value []byte, opts ...any) error {
	sim.Yield(sim.ClassKV, "set")
	return k.DB.Set(ctx, key, value, opts...)
}

func (k c15YieldKV) Get(ctx context.Context, key []byte, opts ...any) ([]byte, io.Closer, error) {
	return k.DB.Get(ctx, key, opts...)
}

type c15Block struct {
	lo, hi uint32 // keys lo..hi inclusive
	who    string
}

func runC15Counter(t *testing.T, c c15cCase, st *drv.Stats) (fail *drv.Failure) {
	defer func() {
		if p := recover(); p != nil && fail == nil {
			fail = drv.Failf("panic", "counter:"+fmt.Sprint(p), "panic: %v", p)
		}
	}()
	synctest.Test(t, func(t *testing.T) {
		ctx := context.Background()
		db := memkv.New()
		defer func() { _ = db.Close() }()
		store := c15YieldKV{DB: db}
		key := []byte("1.distribution.channel.leasedCounter")
		var (
			mu     sync.Mutex
			blocks []c15Block
			steps  int
			hash   uint64
		)
		overlap := func(b c15Block) *c15Block {
			for i := range blocks {
				if b.lo <= blocks[i].hi && blocks[i].lo <= b.hi {
					return &blocks[i]
				}
			}
			return nil
		}
		round := func(name string, part func(blocks []int) []int) *drv.Failure {
			ctr, err := channel.VerifOpenCounter(ctx, store, key)
			if err != nil {
				return drv.Failf("unexpected-error", "open-counter", "%s: open: %v", name, err)
			}
			// what the (re)opened counter starts from must not be below any key handed out
			probe, err := ctr.Add(ctx, 0)
			if err != nil {
				return drv.Failf("unexpected-error", "counter-read", "%s: %v", name, err)
			}
			var top uint32
			var topWho string
			for _, b := range blocks {
				if b.hi > top {
					top, topWho = b.hi, b.who
				}
			}
			if probe < top {
				return drv.Failf("key-reused-after-restart", "persisted-counter-below-handed-out-key", "%s: the counter reopened over the same store starts at %d, but key %d was handed out before (%s): the next create reuses keys %d..%d", name, probe, top, topWho, probe+1, top)
			}
			synctest.Wait()
			strat := []sim.Strategy{sim.StratRandom, sim.StratSticky, sim.StratPCT}[c.Strat%3]
			sc := sim.New(sim.Config{Strategy: strat, SwitchInv: 2, PCTDepth: 3, PCTSteps: 100, Classes: sim.ClassAll, MaxSteps: 50_000, HorizonNS: int64(10 * time.Second), TickNS: 1, QuantumNS: 1_000_003}, sim.NewChoices(uint64(c.Seed)+uint64(len(blocks))))
			sim.Install(sc)
			tasks := sc.NewTasks()
			var tf *drv.Failure
			for ti, all := range c.Tasks {
				ti, mine := ti, part(all)
				tasks.Go("task"+strconv.Itoa(ti), func() error {
					for bi, d := range mine {
						sim.Yield(sim.ClassTask, "task"+strconv.Itoa(ti)+" before reserve")
						next, err := ctr.Add(ctx, uint32(d))
						if err != nil {
							return err
						}
						b := c15Block{lo: next - uint32(d) + 1, hi: next, who: fmt.Sprintf("%s task %d block %d", name, ti, bi)}
						mu.Lock()
						if o := overlap(b); o != nil && tf == nil {
							tf = drv.Failf("key-not-unique", "concurrent-reservations-overlap", "%s reserved keys %d..%d, which overlap %d..%d of %s", b.who, b.lo, b.hi, o.lo, o.hi, o.who)
						}
						blocks = append(blocks, b)
						mu.Unlock()
					}
					return nil
				})
			}
			err = sc.Run(tasks.Done)
			steps += sc.Steps
			hash = drv.Hash64(strconv.FormatUint(hash, 16), strconv.FormatUint(sc.Hash(), 16))
			for cl, n := range sc.ByClass {
				st.ProbeN("yield_"+cl.String(), n)
			}
			if err != nil {
				sc.Abort()
				sim.Uninstall()
				if e, ok := err.(*sim.ErrDeadlock); ok {
					return drv.Failf("deadlock", "counter", "%s\n%s", name, e.Stacks)
				}
				st.Inconcl("step_budget_exceeded")
				return drv.Failf("harness", "budget", "%s: %v", name, err)
			}
			sim.Uninstall()
			synctest.Wait()
			for _, e := range tasks.Errors {
				return drv.Failf("unexpected-error", "reserve", "%s: %s", name, e)
			}
			return tf
		}
		half := func(first bool) func([]int) []int {
			return func(b []int) []int {
				if !c.Mid {
					if first {
						return b
					}
					return nil
				}
				if first {
					return b[:(len(b)+1)/2]
				}
				return b[(len(b)+1)/2:]
			}
		}
		if fail = round("before the restart", half(true)); fail != nil {
			return
		}
		if c.Mid {
			st.Probe("restart_between_rounds")
			if fail = round("after the first restart", half(false)); fail != nil {
				return
			}
		}
		// restart, then one more reservation
		if fail = round("after the last restart", func([]int) []int { return []int{1} }); fail != nil {
			return
		}
		st.AddSteps(steps)
		if len(c.Tasks) > 1 {
			st.Probe("concurrent_reservations_case")
		}
		sort.Slice(blocks, func(i, j int) bool { return blocks[i].lo < blocks[j].lo })
		st.Case(drv.Hash64(fmt.Sprint(c.Tasks, c.Mid), strconv.FormatUint(hash, 16)), len(c.Tasks) > 1)
	})
	return fail
}
