package cesium

import (
	"encoding/binary"
	"fmt"
	"strconv"
	"testing"

	"github.com/synnaxlabs/cesium/internal/index"
	"github.com/synnaxlabs/cesium/internal/unary"
	"github.com/synnaxlabs/x/errors"
	"github.com/synnaxlabs/x/telem"
	"pgregory.net/rapid"
	"verifsim/drv"
)

// C10: iterator steps return exactly the samples inside the view the iterator reports;
// consecutive steps in one direction have adjacent views; a full traversal visits every
// in-bounds sample exactly once. Driven on the per-channel iterator (which reports its
// view) obtained from the real database, over layouts produced by C01/C04 scripts.

var c10Opts = genOpts{MaxGroups: 2, MaxDataPerGroup: 2, MaxWriters: 5, MaxWrites: 6, MaxReads: 2,
	Deletes: true, GC: true, MaxDeletes: 3, MaxGC: 2, Iter: true, MaxIters: 3}

type c10Case struct {
	Script vScript `json:"script"`
}

func (p *planner) iterOp() {
	keys := p.allKeys()
	k := keys[rapid.IntRange(0, len(keys)-1).Draw(p.t, "ik")]
	a, b := p.rng("ib")
	op := vOp{K: "iter", Keys: []uint32{k}, A: a, B: b, Chunk: int64(rapid.IntRange(1, 7).Draw(p.t, "ichunk"))}
	n := rapid.IntRange(2, 40).Draw(p.t, "icmds")
	span := func() int64 {
		switch rapid.IntRange(0, 5).Draw(p.t, "spk") {
		case 0:
			return 1
		case 1:
			return int64(rapid.IntRange(1, 20).Draw(p.t, "sp"))
		case 2:
			return int64(rapid.IntRange(20, 600).Draw(p.t, "sp"))
		case 3:
			return int64(rapid.IntRange(600, 5000).Draw(p.t, "sp"))
		case 4:
			return int64(telem.TimeSpanMax)
		}
		return int64(rapid.IntRange(1, 100).Draw(p.t, "sp"))
	}
	seek := func() vCmd {
		switch rapid.IntRange(0, 3).Draw(p.t, "sk") {
		case 0:
			return vCmd{C: "first"}
		case 1:
			return vCmd{C: "last"}
		case 2:
			return vCmd{C: "le", TS: p.boundary("sle"), Raw: rapid.Bool().Draw(p.t, "sle_raw")}
		}
		return vCmd{C: "ge", TS: p.boundary("sge"), Raw: rapid.Bool().Draw(p.t, "sge_raw")}
	}
	// A command list is a series of walks: a seek followed by a run of steps that are
	// either all auto-span or all fixed-span (directions may reverse inside a walk), so
	// that the two stepping modes are judged separately.
	for len(op.Cmds) < n {
		if len(op.Cmds) > 0 && rapid.IntRange(0, 4).Draw(p.t, "newbounds") == 0 {
			na, nb := p.rng("nb")
			op.Cmds = append(op.Cmds, vCmd{C: "bounds", A: na, B: nb})
		}
		op.Cmds = append(op.Cmds, seek())
		auto := rapid.IntRange(0, 2).Draw(p.t, "autow") == 0
		dir := rapid.IntRange(0, 1).Draw(p.t, "dir")
		steps := rapid.IntRange(1, 14).Draw(p.t, "walk")
		for k := 0; k < steps; k++ {
			if rapid.IntRange(0, 7).Draw(p.t, "rev") == 0 {
				dir = 1 - dir
			}
			c := vCmd{}
			switch {
			case dir == 0 && auto:
				c.C = "anext"
			case dir == 0:
				c.C = "next"
				c.Span = span()
			case auto:
				c.C = "aprev"
			default:
				c.C = "prev"
				c.Span = span()
			}
			op.Cmds = append(op.Cmds, c)
		}
	}
	p.ops = append(p.ops, op)
}

func genC10(t *rapid.T) c10Case {
	sc := genScript(t, c10Opts)
	if rapid.IntRange(0, 1).Draw(t, "gcth") == 0 {
		sc.Schema.GCThresh = 0.0000001
	}
	return c10Case{Script: sc}
}

func c10Step(r *vRun, i int, op vOp) (bool, *drv.Failure) {
	if op.K != "iter" {
		return c04Step(r, i, op)
	}
	key := op.Keys[0]
	ch := r.chans[key]
	u, ok := r.db.mu.dbs.unary[key]
	if !ok {
		return false, drv.Failf("harness", "no-channel", "op %d: channel %d not open", i, key)
	}
	if op.A >= op.B {
		op.B = op.A + 1
	}
	bounds := telem.TimeRange{Start: telem.TimeStamp(op.A), End: telem.TimeStamp(op.B)}
	it, err := u.OpenIterator(unary.IteratorConfig{Bounds: bounds, AutoChunkSize: op.Chunk})
	if err != nil {
		return false, drv.Failf("unexpected-error", "iter-open:"+errSig(err), "op %d open iterator: %v", i, err)
	}
	defer func() { _ = it.Close() }()
	// The public iterator (cesium.Iterator over the stream iterator's command dispatch)
	// is driven with the same commands and must agree with the per-channel iterator on
	// every acknowledgement and every returned frame. Command lists with auto-span
	// steps are not mirrored (recorded known finding: they can panic, which inside the
	// stream iterator's goroutine would take the process down).
	var pit *Iterator
	mirrored := true
	for _, c := range op.Cmds {
		if c.C == "anext" || c.C == "aprev" {
			mirrored = false
		}
	}
	if mirrored {
		pit, err = r.db.OpenIterator(IteratorConfig{Channels: []ChannelKey{ChannelKey(key)}, Bounds: bounds, AutoChunkSize: op.Chunk})
		if err != nil {
			return false, drv.Failf("unexpected-error", "iter-open-public:"+errSig(err), "op %d open public iterator: %v", i, err)
		}
		defer func() { _ = pit.Close() }()
	}
	differs := func(ci int, c vCmd, pok, uok bool) *drv.Failure {
		if pok != uok {
			return drv.Failf("iter-public-differs", c.C+":ack", "op %d iter ch %d cmd %d %s(ts=%d span=%d): the public iterator acknowledged %v, the channel's iterator %v", i, key, ci, c.C, c.TS, c.Span, pok, uok)
		}
		return nil
	}
	what := func(ci int, c vCmd) string {
		return fmt.Sprintf("op %d iter ch %d (%s) bounds [%d,%d) chunk %d cmd %d %s(ts=%d span=%d)", i, key, ch.DT, bounds.Start, bounds.End, op.Chunk, ci, c.C, c.TS, c.Span)
	}
	// how the previous command left the iterator: "" (fresh/seek) or the step direction
	lastDir := ""
	// judged: the last seek succeeded, so the iterator is validly positioned; steps
	// after a failed seek (nothing stored in the bounds) are not judged
	judged := false
	clamp := func(ts int64) telem.TimeStamp {
		if ts < int64(bounds.Start) {
			ts = int64(bounds.Start)
		}
		if ts > int64(bounds.End) {
			ts = int64(bounds.End)
		}
		return telem.TimeStamp(ts)
	}
	// target of a le/ge seek: clamped into the bounds unless the command says otherwise
	target := func(c vCmd) telem.TimeStamp {
		if c.Raw {
			if c.TS < int64(bounds.Start) || c.TS > int64(bounds.End) {
				r.st.Probe("iter_seek_target_outside_bounds")
			}
			return telem.TimeStamp(c.TS)
		}
		return clamp(c.TS)
	}
	walkFwd, walkBwd := false, false // directions stepped since the last seek
	fwdRun, bwdRun := false, false   // a SeekFirst/SeekLast-started run in one direction is in progress
	var seen map[int64]int
	for ci, c := range op.Cmds {
		prev := it.View()
		switch c.C {
		case "bounds":
			if c.A >= c.B {
				c.B = c.A + 1
			}
			bounds = telem.TimeRange{Start: telem.TimeStamp(c.A), End: telem.TimeStamp(c.B)}
			it.SetBounds(bounds)
			if pit != nil {
				pit.SetBounds(bounds)
			}
			lastDir, fwdRun, bwdRun, judged, walkFwd, walkBwd = "", false, false, false, false, false
			continue
		case "first":
			judged = it.SeekFirst(r.ctx)
			if pit != nil {
				if f := differs(ci, c, pit.SeekFirst(), judged); f != nil {
					return false, f
				}
			}
			v := it.View()
			if n := r.model.Count(key, int64(bounds.Start), int64(v.Start)); n > 0 && v.Start > bounds.Start {
				return false, drv.Failf("iter-seek", "first-skips:"+dtClass(ch), "%s: SeekFirst positioned the view at %d but %d stored samples lie in [%d,%d)", what(ci, c), v.Start, n, bounds.Start, v.Start)
			}
			lastDir, fwdRun, bwdRun, walkFwd, walkBwd = "", true, false, false, false
			seen = map[int64]int{}
			continue
		case "last":
			judged = it.SeekLast(r.ctx)
			if pit != nil {
				if f := differs(ci, c, pit.SeekLast(), judged); f != nil {
					return false, f
				}
			}
			v := it.View()
			if n := r.model.Count(key, int64(v.End), int64(bounds.End)); n > 0 && v.End < bounds.End {
				return false, drv.Failf("iter-seek", "last-skips:"+dtClass(ch), "%s: SeekLast positioned the view at %d but %d stored samples lie in [%d,%d)", what(ci, c), v.End, n, v.End, bounds.End)
			}
			lastDir, fwdRun, bwdRun, walkFwd, walkBwd = "", false, true, false, false
			seen = map[int64]int{}
			continue
		case "le":
			judged = it.SeekLE(r.ctx, target(c))
			if pit != nil {
				if f := differs(ci, c, pit.SeekLE(target(c)), judged); f != nil {
					return false, f
				}
			}
			lastDir, fwdRun, bwdRun, walkFwd, walkBwd = "", false, false, false, false
			continue
		case "ge":
			judged = it.SeekGE(r.ctx, target(c))
			if pit != nil {
				if f := differs(ci, c, pit.SeekGE(target(c)), judged); f != nil {
					return false, f
				}
			}
			lastDir, fwdRun, bwdRun, walkFwd, walkBwd = "", false, false, false, false
			continue
		}
		fwd := c.C == "next" || c.C == "anext"
		auto := c.C == "anext" || c.C == "aprev"
		span := telem.TimeSpan(c.Span)
		if auto {
			span = unary.AutoSpan
		}
		var okStep bool
		var pan any
		func() {
			defer func() { pan = recover() }()
			if fwd {
				okStep = it.Next(r.ctx, span)
			} else {
				okStep = it.Prev(r.ctx, span)
			}
		}()
		if pan != nil {
			return false, drv.Failf("iter-panic", c.C+":"+dtClass(ch)+":"+drv_firstLine(fmt.Sprint(pan)), "%s: panic: %v (view before %v)", what(ci, c), pan, prev)
		}
		if pit != nil {
			var pok bool
			if fwd {
				pok = pit.Next(span)
			} else {
				pok = pit.Prev(span)
			}
			if f := differs(ci, c, pok, okStep); f != nil {
				return false, f
			}
			if okStep {
				ug, pg := decodeVals(it.Value().Get(ChannelKey(key))), decodeVals(pit.Value().Get(ChannelKey(key)))
				same := len(ug) == len(pg)
				for x := 0; same && x < len(ug); x++ {
					same = string(ug[x]) == string(pg[x])
				}
				if !same {
					return false, drv.Failf("iter-public-differs", c.C+":frame", "%s: the public iterator returned %s, the channel's iterator %s", what(ci, c), shortVals(pg), shortVals(ug))
				}
			}
			r.st.Probe("iter_public_mirrored_step")
		}
		v := it.View()
		kind := c.C
		if fwd {
			walkFwd = true
		} else {
			walkBwd = true
		}
		if walkFwd && walkBwd {
			// the walk since the last seek has stepped in both directions
			kind += ":reversed-walk"
			r.reversedWalks++
		}
		if auto {
			r.autoSteps++
		}
		if !judged {
			r.st.Probe("iter_step_after_failed_seek_unjudged")
			continue
		}
		r.st.Probe("iter_" + c.C)
		if err := it.Error(); err != nil {
			// an auto step that runs off the stored data reports "discontinuous"; that
			// is tolerated only when nothing is left in the direction of travel
			left := 0
			if fwd {
				left = r.model.Count(key, int64(prev.End), int64(bounds.End))
			} else {
				left = r.model.Count(key, int64(bounds.Start), int64(prev.Start))
			}
			if !auto || !errors.Is(err, index.ErrDiscontinuous) || left > 0 {
				return false, drv.Failf("iter-error", kind+":"+dtClass(ch)+":"+errSig(err), "%s: error with %d samples left in the direction of travel: %v (view %v -> %v)", what(ci, c), left, err, prev, v)
			}
			r.st.Probe("iter_auto_exhausted_error")
			lastDir, fwdRun, bwdRun = "", false, false
			continue
		}
		// views of consecutive steps in one direction are adjacent
		dirName := "fwd"
		if !fwd {
			dirName = "bwd"
		}
		// (a seek may leave the view outside the bounds; the step starts from the nearest
		// point inside them)
		if fwd && v.Start != clamp(int64(prev.End)) && !(v.Span() == 0 && v.Start == bounds.End) {
			return false, drv.Failf("iter-adjacency", kind+":"+dtClass(ch), "%s: view %v does not start where the previous view %v ended", what(ci, c), v, prev)
		}
		if !fwd && v.End != clamp(int64(prev.Start)) && !(v.Span() == 0 && v.End == bounds.Start) {
			return false, drv.Failf("iter-adjacency", kind+":"+dtClass(ch), "%s: view %v does not end where the previous view %v started", what(ci, c), v, prev)
		}
		if v.Start < bounds.Start || v.End > bounds.End {
			if !(bounds.Span() <= 0) {
				return false, drv.Failf("iter-bounds", kind+":"+dtClass(ch), "%s: view %v outside bounds %v", what(ci, c), v, bounds)
			}
		}
		// returned samples == stored samples inside the reported view
		want := r.model.Read(key, int64(v.Start), int64(v.End))
		got := decodeVals(it.Value().Get(ChannelKey(key)))
		mism := ""
		if len(got) != len(want) {
			mism = "count"
		} else {
			for x := range want {
				if string(want[x].Val) != string(got[x]) {
					mism = "value"
					break
				}
			}
		}
		if mism != "" {
			inexact := "exact-start"
			// does the step begin at a point that is not exactly a stored sample?
			ref := prev.End
			if !fwd {
				ref = prev.Start
			}
			if r.model.Count(key, int64(ref), int64(ref)+1) == 0 {
				inexact = "inexact-start"
			}
			return false, drv.Failf("iter-view-mismatch", kind+":"+inexact+":"+mism+":"+dtClass(ch),
				"%s: reported view %v (previous %v) holds %d stored samples %v but the step returned %d: %s (ok=%v)",
				what(ci, c), v, prev, len(want), tsOf(want), len(got), shortVals(got), okStep)
		}
		if auto && int64(len(got)) > op.Chunk {
			return false, drv.Failf("iter-chunk", kind+":"+dtClass(ch), "%s: auto step returned %d samples > chunk size %d", what(ci, c), len(got), op.Chunk)
		}
		if len(want) > 0 {
			if int64(v.Start) > want[0].TS-1 || true {
				// probes: view edges between samples
				if r.model.Count(key, int64(v.End)-1, int64(v.End)) == 0 && r.model.Count(key, int64(v.End), int64(v.End)+1) == 0 {
					r.st.Probe("iter_view_ends_between_samples")
				}
			}
		} else {
			r.st.Probe("iter_empty_view")
		}
		// exactly-once over a run in one direction started by SeekFirst/SeekLast
		if (fwd && fwdRun) || (!fwd && bwdRun) {
			for _, s := range want {
				seen[s.TS]++
				if seen[s.TS] > 1 {
					return false, drv.Failf("iter-duplicate", kind+":"+dtClass(ch), "%s: sample %d delivered twice in one traversal", what(ci, c), s.TS)
				}
			}
			if (fwd && v.End == bounds.End) || (!fwd && v.Start == bounds.Start) {
				total := r.model.Count(key, int64(bounds.Start), int64(bounds.End))
				if len(seen) != total {
					return false, drv.Failf("iter-incomplete", kind+":"+dtClass(ch), "%s: traversal reached the end of the bounds having visited %d of %d stored samples", what(ci, c), len(seen), total)
				}
				r.st.Probe("iter_full_traversal_" + dirName)
				r.iters++
			}
		} else {
			fwdRun, bwdRun = false, false
		}
		if fwd && bwdRun || !fwd && fwdRun {
			fwdRun, bwdRun = false, false
		}
		if lastDir != "" && lastDir != dirName {
			r.st.Probe("iter_direction_reversal")
		}
		lastDir = dirName
		_ = binary.LittleEndian
		_ = strconv.Itoa
	}
	return false, nil
}

func runC10(t *testing.T, c c10Case, st *drv.Stats) *drv.Failure {
	var run *vRun
	f := runSeq(t, c.Script, st, func(r *vRun) {
		run = r
		r.extraStep = c10Step
		r.nontrivial = func(r *vRun) bool { return r.commits >= 2 && r.iters >= 1 }
	})
	if f != nil && f.Class == "unexpected-error" && run != nil {
		// a later failure (e.g. a file reader left open) is attributed to the stepping
		// modes the run used, so it can be matched against the recorded findings
		if run.autoSteps > 0 {
			f.Sig = "after-auto-span-steps:" + f.Sig
		} else if run.reversedWalks > 0 {
			f.Sig = "after-reversed-walk:" + f.Sig
		}
	}
	return f
}
