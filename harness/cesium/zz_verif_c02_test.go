package cesium

import (
	"fmt"
	"hash/fnv"
	"sort"
	"strconv"
	"strings"
	"testing"
	"testing/synctest"

	xfs "github.com/synnaxlabs/x/io/fs"
	"github.com/synnaxlabs/x/telem"
	"pgregory.net/rapid"
	"verifsim/drv"
	"verifsim/simfs"
)

// C02: cesium survives a crash at any point. A script is executed once on the simulated
// disk, which records every mutation; then EVERY prefix of the mutation log (and torn
// variants of writes) is rebuilt into a fresh disk image, the database is reopened on it
// and every channel is read back and compared with the set of states the property
// allows for that crash point.

var c02Opts = genOpts{MaxGroups: 2, MaxDataPerGroup: 2, MaxWriters: 4, MaxWrites: 5, MaxReads: 2,
	Deletes: true, GC: true, MaxDeletes: 3, MaxGC: 2, NoReopen: false, Rename: true}

type c02Case struct {
	Script vScript `json:"script"`
	// Pick seeds the sampling of crash points when a log exceeds the per-script budget.
	Pick uint64 `json:"pick"`
	// MaxPoints is the per-script budget of crash points (all points when the log is shorter).
	MaxPoints int `json:"max_points"`
}

func genC02(t *rapid.T) c02Case {
	sc := genScript(t, c02Opts)
	switch rapid.IntRange(0, 2).Draw(t, "gcth") {
	case 0:
		sc.Schema.GCThresh = 0.0000001
	case 1:
		sc.Schema.GCThresh = float32(rapid.IntRange(1, 90).Draw(t, "gcthv")) / 100
	}
	// channel creation and deletion in the middle of the script (channels 101 = index,
	// 102 = its data channel; they never hold data)
	if len(sc.Ops) > 0 && rapid.IntRange(0, 2).Draw(t, "mkchan") > 0 {
		at := rapid.IntRange(0, len(sc.Ops)).Draw(t, "mkchan_at")
		ops := append([]vOp{}, sc.Ops[:at]...)
		ops = append(ops, vOp{K: "mkchan", Keys: []uint32{101, 102}})
		ops = append(ops, sc.Ops[at:]...)
		if rapid.Bool().Draw(t, "rmchan") {
			rat := rapid.IntRange(at+1, len(ops)).Draw(t, "rmchan_at")
			ops2 := append([]vOp{}, ops[:rat]...)
			ops2 = append(ops2, vOp{K: "rmchan", Keys: []uint32{102, 101}})
			ops2 = append(ops2, ops[rat:]...)
			ops = ops2
		}
		sc.Ops = ops
	}
	return c02Case{Script: sc, Pick: rapid.Uint64().Draw(t, "pick"), MaxPoints: 500}
}

type c02Mark struct {
	op       string
	inv, ret int
	durable  []uint32 // channels whose state at return is guaranteed persisted
	renamed  []uint32 // channels whose name at return is guaranteed persisted
}

type c02Version struct {
	from int // op index (position in marks) at whose return the channel first had this content
	vals []string
}

type c02NameVersion struct {
	from int
	name string
}

type c02Rec struct {
	names     map[uint32][]c02NameVersion
	sch       vSchema
	log       []simfs.Op
	created   int // log length once all channels were created
	marks     []c02Mark
	versions  map[uint32][]c02Version
	written   map[uint32]map[string]bool
	taint     string
	rollover  bool
	gcRewrote bool
}

func valsOf(r *vRun, k uint32) []string {
	all := r.model.All(k)
	out := make([]string, len(all))
	for i, s := range all {
		out[i] = string(s.Val)
	}
	return out
}

func sameVals(a, b []string) bool {
	if len(a) != len(b) {
		return false
	}
	for i := range a {
		if a[i] != b[i] {
			return false
		}
	}
	return true
}

func (rec *c02Rec) snapshot(r *vRun, at int) {
	for _, c := range r.sch.Chans {
		nv := rec.names[c.Key]
		if len(nv) == 0 || nv[len(nv)-1].name != r.names[c.Key] {
			rec.names[c.Key] = append(nv, c02NameVersion{from: at, name: r.names[c.Key]})
		}
	}
	for _, c := range r.sch.Chans {
		v := valsOf(r, c.Key)
		vs := rec.versions[c.Key]
		if len(vs) == 0 || !sameVals(vs[len(vs)-1].vals, v) {
			rec.versions[c.Key] = append(vs, c02Version{from: at, vals: v})
		}
	}
}

// c02Produce runs the script fault-free and records marks, versions and the mutation log.
func c02Produce(t *testing.T, sc vScript, st *drv.Stats) (rec *c02Rec, fail *drv.Failure) {
	synctest.Test(t, func(t *testing.T) {
		defer func() {
			if p := recover(); p != nil {
				fail = drv.Failf("panic", drv_firstLine(fmt.Sprint(p)), "panic: %v\n%s", p, stackTrim())
			}
		}()
		r := newRun(st, sc.Schema)
		r.extraStep = c04Step
		rec = &c02Rec{sch: sc.Schema, versions: map[uint32][]c02Version{}, written: map[uint32]map[string]bool{}, names: map[uint32][]c02NameVersion{}}
		if err := r.open(); err != nil {
			fail = drv.Failf("unexpected-error", "dbopen:"+errSig(err), "open: %v", err)
			return
		}
		defer func() {
			for _, w := range r.writers {
				_ = w.w.Close()
			}
			if r.db != nil {
				_ = r.db.Close()
			}
			synctest.Wait()
		}()
		if err := r.createChannels(); err != nil {
			fail = drv.Failf("unexpected-error", "create:"+errSig(err), "create channels: %v", err)
			return
		}
		synctest.Wait()
		rec.created = r.core.LogLen()
		rec.snapshot(r, -1)
		all := make([]uint32, 0, len(sc.Schema.Chans))
		for _, c := range sc.Schema.Chans {
			all = append(all, c.Key)
		}
		for i, op := range sc.Ops {
			m := c02Mark{op: op.K, inv: r.core.LogLen()}
			var wchans []uint32
			if vw := r.writers[op.W]; vw != nil && (op.K == "write" || op.K == "commit" || op.K == "close") {
				wchans = vw.op.Chans
				switch op.K {
				case "write":
					if vw.auto && vw.op.Persist == -1 {
						m.durable = wchans
					}
				case "commit":
					if !vw.auto || vw.op.Persist == -1 {
						m.durable = wchans
					}
				case "close":
					m.durable = wchans
				}
			}
			if op.K == "mkchan" || op.K == "rmchan" {
				var err error
				if op.K == "mkchan" {
					err = r.db.CreateChannel(r.ctx,
						Channel{Key: ChannelKey(op.Keys[0]), Name: "x" + strconv.Itoa(int(op.Keys[0])), DataType: telem.TimeStampT, IsIndex: true},
						Channel{Key: ChannelKey(op.Keys[1]), Name: "x" + strconv.Itoa(int(op.Keys[1])), DataType: telem.Int64T, Index: ChannelKey(op.Keys[0])})
				} else {
					keys := make([]ChannelKey, len(op.Keys))
					for ki, k := range op.Keys {
						keys[ki] = ChannelKey(k)
					}
					err = r.db.DeleteChannels(keys)
				}
				if err != nil {
					fail = drv.Failf("unexpected-error", op.K+":"+errSig(err), "op %d %s: %v", i, op.K, err)
					return
				}
				synctest.Wait()
				m.ret = r.core.LogLen()
				rec.marks = append(rec.marks, m)
				rec.snapshot(r, len(rec.marks)-1)
				st.Probe(op.K)
				continue
			}
			_, f := r.step(i, op)
			if f != nil {
				if r.taint != "" {
					f.Sig = "tainted:" + r.taint + ":" + f.Class + ":" + f.Sig
					f.Class = "tainted"
				}
				fail = f
				return
			}
			switch op.K {
			case "rename":
				m.renamed = op.Keys
			case "delete":
				m.durable = op.Keys
			case "reopen":
				m.durable = all
			}
			m.ret = r.core.LogLen()
			rec.marks = append(rec.marks, m)
			rec.snapshot(r, len(rec.marks)-1)
		}
		// closing the remaining writers and the database are operations too
		ids := make([]int, 0, len(r.writers))
		for id := range r.writers {
			ids = append(ids, id)
		}
		sort.Ints(ids)
		for _, id := range ids {
			m := c02Mark{op: "close", inv: r.core.LogLen(), durable: r.writers[id].op.Chans}
			if err := r.writers[id].w.Close(); err != nil {
				fail = drv.Failf("unexpected-error", "close:"+errSig(err), "final close w%d: %v", id, err)
				return
			}
			delete(r.writers, id)
			synctest.Wait()
			m.ret = r.core.LogLen()
			rec.marks = append(rec.marks, m)
			rec.snapshot(r, len(rec.marks)-1)
		}
		m := c02Mark{op: "dbclose", inv: r.core.LogLen(), durable: all}
		if err := r.db.Close(); err != nil {
			fail = drv.Failf("unexpected-error", "dbclose:"+errSig(err), "db close: %v", err)
			return
		}
		r.db = nil
		synctest.Wait()
		m.ret = r.core.LogLen()
		rec.marks = append(rec.marks, m)
		rec.snapshot(r, len(rec.marks)-1)
		rec.log = append([]simfs.Op(nil), r.core.Log...)
		for k, m := range r.written {
			rec.written[k] = map[string]bool{}
			for _, vs := range m {
				for _, v := range vs {
					rec.written[k][string(v)] = true
				}
			}
		}
		rec.taint = r.taint
		for _, c := range sc.Schema.Chans {
			if r.countDataFiles(c.Key) > 1 {
				rec.rollover = true
			}
		}
		rec.gcRewrote = r.gcs > 0
	})
	return rec, fail
}

type c02Point struct {
	n    int // number of whole mutations applied
	torn int // -1: none; otherwise bytes of mutation n applied
}

func (rec *c02Rec) points(pick uint64, max int) []c02Point {
	var pts []c02Point
	add := func(n int) {
		pts = append(pts, c02Point{n: n, torn: -1})
		if n < len(rec.log) && rec.log[n].Kind == simfs.OpWrite && len(rec.log[n].Data) > 1 {
			l := len(rec.log[n].Data)
			cuts := []int{1, l / 2, l - 1}
			if l > 26 {
				cuts = append(cuts, 26, l-26)
			}
			seen := map[int]bool{}
			for _, c := range cuts {
				if c > 0 && c < l && !seen[c] {
					seen[c] = true
					pts = append(pts, c02Point{n: n, torn: c})
				}
			}
		}
	}
	total := len(rec.log) - rec.created + 1
	if total <= max {
		for n := rec.created; n <= len(rec.log); n++ {
			add(n)
		}
		return pts
	}
	// over budget: every point within +-3 of a rename/truncate/remove/write-at-offset
	// (the dangerous windows), plus a seeded sample of the rest
	want := map[int]bool{rec.created: true, len(rec.log): true}
	for i := rec.created; i < len(rec.log); i++ {
		op := rec.log[i]
		hot := op.Kind == simfs.OpRename || op.Kind == simfs.OpTruncate || op.Kind == simfs.OpRemove ||
			(op.Kind == simfs.OpWrite && strings.HasSuffix(pathOfIno(rec.log, op.Ino), "index.domain"))
		if hot {
			for d := -3; d <= 3; d++ {
				if n := i + d; n >= rec.created && n <= len(rec.log) {
					want[n] = true
				}
			}
		}
	}
	x := pick | 1
	for len(want) < max {
		x ^= x << 13
		x ^= x >> 7
		x ^= x << 17
		want[rec.created+int(x%uint64(total))] = true
	}
	ns := make([]int, 0, len(want))
	for n := range want {
		ns = append(ns, n)
	}
	sort.Ints(ns)
	for _, n := range ns {
		add(n)
	}
	return pts
}

func pathOfIno(log []simfs.Op, ino int) string {
	for _, op := range log {
		if op.Kind == simfs.OpCreate && op.Ino == ino {
			return op.Path
		}
	}
	return ""
}

func describeOp(op simfs.Op, log []simfs.Op) string {
	switch op.Kind {
	case simfs.OpWrite:
		return fmt.Sprintf("write %s off=%d len=%d", pathOfIno(log, op.Ino), op.Off, len(op.Data))
	case simfs.OpTruncate:
		return fmt.Sprintf("truncate %s size=%d", pathOfIno(log, op.Ino), op.Size)
	case simfs.OpRename:
		return fmt.Sprintf("rename %s -> %s", op.Path, op.Path2)
	default:
		return op.Kind.String() + " " + op.Path
	}
}

// sigOfPoint names the filesystem window the crash fell into (structural signature).
func (rec *c02Rec) sigOfPoint(p c02Point) string {
	kind := func(i int) string {
		if i < 0 || i >= len(rec.log) {
			return "end"
		}
		op := rec.log[i]
		base := ""
		switch op.Kind {
		case simfs.OpWrite, simfs.OpTruncate, simfs.OpCreate:
			pth := op.Path
			if pth == "" {
				pth = pathOfIno(rec.log, op.Ino)
			}
			base = pth[strings.LastIndex(pth, "/")+1:]
			if strings.HasSuffix(base, ".domain") && base != "index.domain" && base != "counter.domain" {
				if strings.Contains(base, "_gc") {
					base = "N_gc.domain"
				} else {
					base = "N.domain"
				}
			}
		case simfs.OpRename:
			base = op.Path[strings.LastIndex(op.Path, "/")+1:] + ">" + op.Path2[strings.LastIndex(op.Path2, "/")+1:]
			base = strings.Map(func(r rune) rune {
				if r >= '0' && r <= '9' {
					return '#'
				}
				return r
			}, base)
		}
		return op.Kind.String() + ":" + base
	}
	s := "after[" + kind(p.n-1) + "]before[" + kind(p.n) + "]"
	if p.torn >= 0 {
		s += "torn"
	}
	return s
}

func runC02(t *testing.T, c c02Case, st *drv.Stats) *drv.Failure {
	rec, fail := c02Produce(t, c.Script, st)
	if fail != nil {
		if fail.Class != "tainted" {
			fail.Sig = "produce:" + fail.Sig
		}
		return fail
	}
	if rec.taint != "" {
		// state corrupted by a recorded known finding of C04: nothing to judge
		st.Probe("skipped_tainted_script")
		st.Case(0, false)
		return nil
	}
	pts := rec.points(c.Pick, c.MaxPoints)
	// op index -> which marks bound a crash point
	lastStarted := func(n int) int { // last mark whose invoke index <= n ... whose mutations may be partly applied
		s := -1
		for i, m := range rec.marks {
			if m.inv <= n {
				s = i
			}
		}
		return s
	}
	durableAt := func(n int, ch uint32) int {
		d := -1
		for i, m := range rec.marks {
			if m.ret > n {
				break
			}
			for _, k := range m.durable {
				if k == ch {
					d = i
				}
			}
		}
		return d
	}
	kinds := map[string]bool{}
	synctest.Test(t, func(t *testing.T) {
		defer func() {
			if p := recover(); p != nil {
				fail = drv.Failf("panic", "recovery:"+drv_firstLine(fmt.Sprint(p)), "panic during recovery: %v\n%s", p, stackTrim())
			}
		}()
		r := newRun(st, c.Script.Schema)
	nextPoint:
		for _, p := range pts {
			if fail != nil {
				// a failure at the previous point that matches a recorded known finding
				// is counted; the enumeration goes on so it cannot mask other points
				if !st.IsKnown(fail) {
					return
				}
				fail = nil
			}
			img := simfs.Rebuild(rec.log, p.n, p.torn)
			where := fmt.Sprintf("crash after %d/%d mutations (torn=%d) [%s | next: %s]", p.n, len(rec.log), p.torn,
				func() string {
					if p.n-1 >= 0 && p.n-1 < len(rec.log) {
						return describeOp(rec.log[p.n-1], rec.log)
					}
					return "-"
				}(),
				func() string {
					if p.n < len(rec.log) {
						return describeOp(rec.log[p.n], rec.log)
					}
					return "-"
				}())
			s := lastStarted(p.n)
			opn := "-"
			if s >= 0 {
				opn = rec.marks[s].op
			}
			psig := rec.sigOfPoint(p) + ":during-" + opn
			if opn == "gc" && p.n < rec.marks[s].ret {
				// Has this GC pass already swapped a compacted file into place (first
				// rename done) without having persisted the shifted offsets yet?
				for i := rec.marks[s].inv; i < p.n && i < len(rec.log); i++ {
					if rec.log[i].Kind == simfs.OpRename {
						psig += ":gc-swap-window"
						st.Probe("crash_in_gc_swap_window")
						break
					}
				}
			}
			st.Fault("crash")
			if p.torn >= 0 {
				st.Fault("torn_write")
			}
			kinds[rec.sigOfPoint(p)] = true
			db, err := Open(r.ctx, "", WithFS(xfs.NewSim(img)), WithFileSizeCap(telem.Size(c.Script.Schema.FileSize)))
			if err != nil {
				fail = drv.Failf("recovery-open-failed", psig+":"+errSig(err), "%s: Open failed: %v", where, err)
				continue
			}
			for _, ch := range c.Script.Schema.Chans {
				fr, err := db.Read(r.ctx, telem.TimeRangeMax, ChannelKey(ch.Key))
				if err != nil {
					_ = db.Close()
					fail = drv.Failf("recovery-read-error", psig+":"+dtClass(ch)+":"+errSig(err), "%s: read of channel %d (%s) failed: %v", where, ch.Key, ch.DT, err)
					continue nextPoint
				}
				got := decodeVals(fr.Get(ChannelKey(ch.Key)))
				gs := make([]string, len(got))
				for i, g := range got {
					gs[i] = string(g)
					if !rec.written[ch.Key][gs[i]] {
						_ = db.Close()
						fail = drv.Failf("recovery-provenance", psig+":"+dtClass(ch), "%s: channel %d (%s) returned value %x that was never written to it", where, ch.Key, ch.DT, g)
						continue nextPoint
					}
				}
				d := durableAt(p.n, ch.Key)
				vs := rec.versions[ch.Key]
				ok := false
				for vi, v := range vs {
					until := len(rec.marks) // exclusive upper op index of this version's validity
					if vi+1 < len(vs) {
						until = vs[vi+1].from
					}
					// version valid for op indices [v.from, until-1]; allowed window [d, s]
					if v.from <= s && until-1 >= d && sameVals(v.vals, gs) {
						ok = true
						break
					}
				}
				if !ok {
					_ = db.Close()
					var allowed []string
					for vi, v := range vs {
						until := len(rec.marks)
						if vi+1 < len(vs) {
							until = vs[vi+1].from
						}
						if v.from <= s && until-1 >= d {
							allowed = append(allowed, fmt.Sprintf("ops[%d..%d]:%d samples", v.from, until-1, len(v.vals)))
						}
					}
					lost := "inconsistent"
					if d >= 0 {
						// fewer samples than the last durable state: durable data lost
						for _, v := range vs {
							if v.from <= d && len(gs) < len(v.vals) {
								lost = "durable-data-lost"
							}
						}
					}
					fail = drv.Failf("recovery-"+lost, psig+":"+dtClass(ch),
						"%s: channel %d (%s) recovered %d samples matching none of the allowed states (last durable op %d, last started op %d=%s): allowed %v; got %s",
						where, ch.Key, ch.DT, len(gs), d, s, opn, allowed, shortVals(got))
					continue nextPoint
				}
			}
			// channel names: the recovered name is one the channel had between the last
			// completed rename and the last started operation
			for _, ch := range c.Script.Schema.Chans {
				got, err := db.RetrieveChannel(r.ctx, ChannelKey(ch.Key))
				if err != nil {
					_ = db.Close()
					fail = drv.Failf("recovery-channel-missing", psig+":"+errSig(err), "%s: channel %d cannot be retrieved after recovery: %v", where, ch.Key, err)
					continue nextPoint
				}
				dn := -1
				for i, m := range rec.marks {
					if m.ret > p.n {
						break
					}
					for _, k := range m.renamed {
						if k == ch.Key {
							dn = i
						}
					}
				}
				nv := rec.names[ch.Key]
				okName := false
				for vi, v := range nv {
					until := len(rec.marks)
					if vi+1 < len(nv) {
						until = nv[vi+1].from
					}
					if v.from <= s && until-1 >= dn && v.name == got.Name {
						okName = true
					}
				}
				if !okName {
					_ = db.Close()
					fail = drv.Failf("recovery-name", psig, "%s: channel %d recovered with name %q, which it did not have between the last completed rename (op %d) and the crash", where, ch.Key, got.Name, dn)
					continue nextPoint
				}
			}
			// channels created / deleted in the middle of the script
			{
				mk, rm := -1, -1
				for mi, m := range rec.marks {
					switch m.op {
					case "mkchan":
						mk = mi
					case "rmchan":
						rm = mi
					}
				}
				mustExist := mk >= 0 && p.n >= rec.marks[mk].ret && (rm < 0 || p.n <= rec.marks[rm].inv)
				mayExist := mk >= 0 && p.n > rec.marks[mk].inv && (rm < 0 || p.n < rec.marks[rm].ret)
				for _, k := range []uint32{101, 102} {
					got, err := db.RetrieveChannel(r.ctx, ChannelKey(k))
					switch {
					case err != nil && mustExist:
						_ = db.Close()
						fail = drv.Failf("recovery-channel-missing", psig+":created-channel:"+errSig(err), "%s: channel %d, whose creation had completed, cannot be retrieved after recovery: %v", where, k, err)
						continue nextPoint
					case err != nil:
						continue
					case !mayExist:
						_ = db.Close()
						fail = drv.Failf("recovery-channel-resurrected", psig, "%s: channel %d exists after recovery although it %s", where, k, map[bool]string{true: "had been deleted", false: "was never created"}[mk >= 0])
						continue nextPoint
					}
					wantDT, wantIdx := telem.Int64T, ChannelKey(101)
					if k == 101 {
						wantDT, wantIdx = telem.TimeStampT, ChannelKey(101)
					}
					if got.Key != ChannelKey(k) || got.DataType != wantDT || got.IsIndex != (k == 101) || (k == 102 && got.Index != wantIdx) || got.Name != "x"+strconv.Itoa(int(k)) {
						_ = db.Close()
						fail = drv.Failf("recovery-channel-garbled", psig, "%s: channel %d recovered as %+v", where, k, got)
						continue nextPoint
					}
					if fr, err := db.Read(r.ctx, telem.TimeRangeMax, ChannelKey(k)); err != nil || fr.Len() > 0 {
						_ = db.Close()
						fail = drv.Failf("recovery-read-error", psig+":created-channel:"+errSig(err), "%s: read of the empty channel %d: %d samples, err %v", where, k, fr.Len(), err)
						continue nextPoint
					}
				}
			}
			// the recovered database must accept new writes: one fresh sample per index
			// group, far away from everything the script wrote, committed and read back
			for _, ch := range c.Script.Schema.Chans {
				if !ch.IsIndex {
					continue
				}
				keys := []ChannelKey{ChannelKey(ch.Key)}
				series := []telem.Series{vTSSeries([]int64{90 * vSlot})}
				for _, d := range c.Script.Schema.Chans {
					if !d.IsIndex && d.Index == ch.Key {
						keys = append(keys, ChannelKey(d.Key))
						series = append(series, vSeries(d.DT, [][]byte{vValue(d.DT, d.Key, 1000000)}))
					}
				}
				w, err := db.OpenWriter(r.ctx, WriterConfig{Start: telem.TimeStamp(90 * vSlot), Channels: keys, Sync: new(true), AutoIndexPersistInterval: AlwaysIndexPersistOnAutoCommit})
				if err == nil {
					_, err = w.Write(telem.MultiFrame(keys, series))
					if err == nil {
						_, err = w.Commit()
					}
					if cerr := w.Close(); err == nil {
						err = cerr
					}
				}
				if err != nil {
					_ = db.Close()
					fail = drv.Failf("recovery-unwritable", psig+":"+errSig(err), "%s: after recovery a new writer on index group %d failed: %v", where, ch.Key, err)
					continue nextPoint
				}
				fr, err := db.Read(r.ctx, telem.TimeRange{Start: telem.TimeStamp(90 * vSlot), End: telem.TimeStamp(90*vSlot + 1)}, keys...)
				if err != nil || fr.Len() != 1 {
					_ = db.Close()
					fail = drv.Failf("recovery-unwritable", psig+":readback", "%s: sample written after recovery on index group %d does not read back (err=%v, len=%d)", where, ch.Key, err, fr.Len())
					continue nextPoint
				}
			}
			if err := db.Close(); err != nil {
				fail = drv.Failf("recovery-close-failed", psig+":"+errSig(err), "%s: Close after recovery failed: %v", where, err)
				continue
			}
			synctest.Wait()
		}
	})
	if fail != nil && st.IsKnown(fail) {
		fail = nil
	}
	if fail != nil {
		h := fnv.New64a()
		for _, op := range rec.log {
			h.Write([]byte(op.Kind.String() + op.Path + strconv.Itoa(op.Ino) + strconv.Itoa(len(op.Data))))
		}
		fail.TraceHash = strconv.FormatUint(h.Sum64(), 16)
		return fail
	}
	st.ProbeN("crash_points", len(pts))
	if rec.rollover {
		st.Probe("rollover")
	}
	if rec.gcRewrote {
		st.Probe("gc_rewrote_file")
	}
	for k := range kinds {
		st.Probe("window " + k)
	}
	var sb strings.Builder
	for _, op := range c.Script.Ops {
		sb.WriteString(op.K[:2] + strconv.Itoa(len(op.TS)))
	}
	st.Case(drv.Hash64(sb.String(), strconv.Itoa(len(rec.log))), len(pts) >= 20)
	return nil
}
