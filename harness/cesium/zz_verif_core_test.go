package cesium

// Injected by /verif via `go test -overlay`; never part of the repository.
// Shared machinery of the cesium engines: script types, seeded generator with a planning
// state that keeps scripts legal, and the runner that executes a script against the real
// DB on the simulated disk inside a synctest bubble while updating the reference model.

import (
	"context"
	"encoding/binary"
	"fmt"
	mrand "math/rand"
	"os"
	"runtime/debug"
	"sort"
	"strconv"
	"strings"
	"sync"
	"testing"
	"testing/synctest"
	"time"

	"github.com/google/uuid"
	"github.com/synnaxlabs/cesium/internal/index"
	"github.com/synnaxlabs/x/errors"
	xfs "github.com/synnaxlabs/x/io/fs"
	"github.com/synnaxlabs/x/telem"
	"pgregory.net/rapid"
	"verifsim/drv"
	"verifsim/models/tsmodel"
	"verifsim/simfs"
)

// ---- script ---------------------------------------------------------------------------

type vChan struct {
	Key     uint32 `json:"key"`
	Index   uint32 `json:"index"`
	IsIndex bool   `json:"is_index,omitempty"`
	DT      string `json:"dt"`
}

type vSchema struct {
	Chans    []vChan `json:"chans"`
	FileSize int64   `json:"file_size"`
	GCThresh float32 `json:"gc_thresh,omitempty"`
}

// vOp kinds: open, write, commit, close, read, sweep, reopen, sleep, delete, gc, iter
type vOp struct {
	K       string   `json:"k"`
	W       int      `json:"w,omitempty"`
	Start   int64    `json:"start,omitempty"`
	Chans   []uint32 `json:"chans,omitempty"`
	NoAuto  bool     `json:"no_auto,omitempty"`
	Persist int64    `json:"persist,omitempty"` // -1 always, 0 default (1s), >0 ns
	Sync    bool     `json:"sync,omitempty"`
	TS      []int64  `json:"ts,omitempty"` // index timestamps of a write (also for data-only writers: the stamps the samples map to)
	A       int64    `json:"a,omitempty"`
	B       int64    `json:"b,omitempty"`
	Keys    []uint32 `json:"keys,omitempty"`
	D       int64    `json:"d,omitempty"`
	Span    int64    `json:"span,omitempty"`
	Chunk   int64    `json:"chunk,omitempty"`
	Cmds    []vCmd   `json:"cmds,omitempty"`
	Thresh  float32  `json:"thresh,omitempty"`
}

type vCmd struct {
	C    string `json:"c"` // first,last,le,ge,next,prev,anext,aprev,bounds
	TS   int64  `json:"ts,omitempty"`
	Span int64  `json:"span,omitempty"`
	A    int64  `json:"a,omitempty"`
	B    int64  `json:"b,omitempty"`
	// le/ge: seek to TS as given, also when it lies outside the iterator's bounds
	// (otherwise TS is clamped into the bounds first)
	Raw bool `json:"raw,omitempty"`
}

type vScript struct {
	Schema vSchema `json:"schema"`
	Ops    []vOp   `json:"ops"`
}

var vFixedTypes = []string{"uint8", "int16", "uint32", "int64", "float32", "float64", "timestamp"}
var vVarTypes = []string{"string", "json", "bytes"}

func vDensity(dt string) int {
	switch dt {
	case "uint8":
		return 1
	case "int16":
		return 2
	case "uint32", "float32":
		return 4
	case "int64", "float64", "timestamp":
		return 8
	}
	return 0
}

func vIsVar(dt string) bool { return vDensity(dt) == 0 }

// vValue is the value of the seq-th sample ever written to channel key: unique per
// (channel, seq) for types wide enough, so every read is attributable to one write.
func vValue(dt string, key uint32, seq int) []byte {
	x := uint64(seq+1)*0x9E3779B97F4A7C15 ^ uint64(key)<<56 ^ uint64(seq)
	switch dt {
	case "string":
		return []byte("s" + strconv.Itoa(int(key)) + "-" + strconv.Itoa(seq) + strings.Repeat("x", seq%7))
	case "json":
		return []byte(`{"k":` + strconv.Itoa(int(key)) + `,"n":` + strconv.Itoa(seq) + `}`)
	case "bytes":
		if seq == 4 {
			return []byte{} // one zero-length sample per channel (values stay unique)
		}
		b := make([]byte, 1+seq%9)
		for i := range b {
			b[i] = byte(x >> (8 * (i % 8)))
		}
		b[0] = byte(seq)
		return b
	}
	d := vDensity(dt)
	b := make([]byte, 8)
	if d >= 4 {
		// keep the counter in the low bytes so values are unique and never NaN-patterned
		// in a way that matters (bytes are compared, not floats)
		binary.LittleEndian.PutUint64(b, uint64(seq)+uint64(key)<<24)
	} else {
		binary.LittleEndian.PutUint64(b, uint64(seq)+uint64(key))
	}
	return b[:d]
}

func vSeries(dt string, vals [][]byte) telem.Series {
	s := telem.Series{DataType: telem.DataType(dt)}
	for _, v := range vals {
		if vIsVar(dt) {
			s.Data = append(s.Data, telem.MarshalVariableSample(v)...)
		} else {
			s.Data = append(s.Data, v...)
		}
	}
	if s.Data == nil {
		s.Data = []byte{}
	}
	return s
}

func vTSSeries(ts []int64) telem.Series {
	s := telem.Series{DataType: telem.TimeStampT, Data: make([]byte, 0, 8*len(ts))}
	for _, t := range ts {
		s.Data = binary.LittleEndian.AppendUint64(s.Data, uint64(t))
	}
	return s
}

func vTSBytes(t int64) []byte { return binary.LittleEndian.AppendUint64(nil, uint64(t)) }

// ---- generator --------------------------------------------------------------------------

type genOpts struct {
	MaxGroups, MaxDataPerGroup, MaxWriters, MaxWrites, MaxReads int
	Deletes, GC, Iter                                           bool
	MaxDeletes, MaxGC, MaxIters                                 int
	NoReopen                                                    bool
	NoSleep                                                     bool
	// Rename adds channel renames (meta.json rewrites) to the script
	Rename bool
	// AutoSweeps adds auto-span (chunk-sized) iterator traversals to the read mix
	// (C10's territory; off for C01 whose statement is about time-range reads).
	AutoSweeps bool
}

type planSeg struct {
	slot int
	// idxTouched: a delete naming this group's index channel was planned after the
	// segment was written, so ts may no longer be what the index holds
	idxTouched bool
	start      int64
	ts         []int64         // committed index timestamps, ascending
	has        map[uint32]bool // data channels that already have (or had) data anywhere in this segment
}

type planGroup struct {
	idx   uint32
	data  []uint32
	used  map[int]bool
	segs  []*planSeg
	openW int
	// wiped remembers segments that were deleted as a whole: a later writer may write
	// the very same timestamps again (re-ingesting a time range with new values)
	wiped []*planSeg
	// wipedSlot: slots whose segment was deleted as a whole. Only a re-ingesting writer
	// (same timestamps again) may take such a slot: the rest of the slot's range may be
	// occupied by a writer that abutted the wiped segment.
	wipedSlot map[int]bool
}

type planWriter struct {
	id       int
	g        *planGroup
	chans    []uint32
	dataOnly bool
	auto     bool
	slot     int
	start    int64
	next     int64 // next timestamp lower bound (idx writers)
	pending  []int64
	commit   []int64
	seg      *planSeg // data-only: anchor
	pos, end int      // data-only: next index in seg.ts, exclusive end
	writes   int
	replay   []int64 // timestamps to write again (re-ingest of a wiped segment)
	replayed bool    // re-ingesting writer: writes the wiped timestamps and nothing beyond
}

const vSlot = 1000

type planner struct {
	t           *rapid.T
	o           genOpts
	sch         vSchema
	groups      []*planGroup
	writers     map[int]*planWriter
	nextW       int
	ops         []vOp
	allTS       []int64
	bounds      []int64
	pastDeletes []vOp
	renames     int
}

func genSchema(t *rapid.T, o genOpts) vSchema {
	var s vSchema
	ng := rapid.IntRange(1, o.MaxGroups).Draw(t, "groups")
	key := uint32(1)
	for g := 0; g < ng; g++ {
		idx := key
		key++
		s.Chans = append(s.Chans, vChan{Key: idx, Index: idx, IsIndex: true, DT: "timestamp"})
		nd := rapid.IntRange(0, o.MaxDataPerGroup).Draw(t, "ndata")
		for d := 0; d < nd; d++ {
			var dt string
			if rapid.IntRange(0, 3).Draw(t, "var") == 0 {
				dt = rapid.SampledFrom(vVarTypes).Draw(t, "vdt")
			} else {
				dt = rapid.SampledFrom(vFixedTypes).Draw(t, "fdt")
			}
			s.Chans = append(s.Chans, vChan{Key: key, Index: idx, DT: dt})
			key++
		}
	}
	switch rapid.IntRange(0, 4).Draw(t, "fsz") {
	case 0:
		s.FileSize = int64(rapid.IntRange(8, 64).Draw(t, "fszv"))
	case 1:
		s.FileSize = int64(rapid.IntRange(64, 400).Draw(t, "fszv"))
	case 2:
		s.FileSize = 1 << 20
	default:
		s.FileSize = int64(rapid.IntRange(16, 200).Draw(t, "fszv"))
	}
	return s
}

func newPlanner(t *rapid.T, o genOpts) *planner {
	p := &planner{t: t, o: o, writers: map[int]*planWriter{}}
	p.sch = genSchema(t, o)
	for _, c := range p.sch.Chans {
		if c.IsIndex {
			p.groups = append(p.groups, &planGroup{idx: c.Key, used: map[int]bool{}, openW: -1})
		} else {
			g := p.groups[len(p.groups)-1]
			g.data = append(g.data, c.Key)
		}
	}
	return p
}

func (p *planner) subset(xs []uint32, min int, label string) []uint32 {
	if len(xs) == 0 {
		return nil
	}
	var out []uint32
	for _, x := range xs {
		if rapid.IntRange(0, 2).Draw(p.t, label) > 0 {
			out = append(out, x)
		}
	}
	for len(out) < min && len(out) < len(xs) {
		out = append(out[:0], xs[:min]...)
	}
	return out
}

func (p *planner) openWriter() bool {
	if p.nextW >= p.o.MaxWriters {
		return false
	}
	var free []*planGroup
	for _, g := range p.groups {
		if g.openW < 0 {
			free = append(free, g)
		}
	}
	if len(free) == 0 {
		return false
	}
	g := free[rapid.IntRange(0, len(free)-1).Draw(p.t, "grp")]
	w := &planWriter{id: p.nextW, g: g, auto: rapid.IntRange(0, 3).Draw(p.t, "auto") > 0}
	// data-only writer anchored on an existing committed index segment?
	var cand []*planSeg
	for _, s := range g.segs {
		if len(s.ts) == 0 {
			continue
		}
		for _, d := range g.data {
			if !s.has[d] {
				cand = append(cand, s)
				break
			}
		}
	}
	if len(cand) > 0 && rapid.IntRange(0, 2).Draw(p.t, "dataonly") == 0 {
		s := cand[rapid.IntRange(0, len(cand)-1).Draw(p.t, "seg")]
		var freeD []uint32
		for _, d := range g.data {
			if !s.has[d] {
				freeD = append(freeD, d)
			}
		}
		w.chans = p.subset(freeD, 1, "dch")
		w.dataOnly = true
		w.seg = s
		w.pos = rapid.IntRange(0, len(s.ts)-1).Draw(p.t, "anchor")
		w.end = rapid.IntRange(w.pos+1, len(s.ts)).Draw(p.t, "anchor_end")
		w.start = s.ts[w.pos]
		for _, d := range w.chans {
			s.has[d] = true
		}
	} else {
		// fresh slot, possibly earlier than existing data (out-of-order domain insert)
		slot := rapid.IntRange(1, 12).Draw(p.t, "slot")
		var again *planSeg
		for i, ws := range g.wiped {
			if !g.used[ws.slot] && rapid.IntRange(0, 1).Draw(p.t, "reingest") == 0 {
				again, slot = ws, ws.slot
				g.wiped = append(g.wiped[:i], g.wiped[i+1:]...)
				break
			}
		}
		for g.used[slot] || (again == nil && g.wipedSlot[slot]) {
			slot++
		}
		g.used[slot] = true
		w.slot = slot
		w.start = int64(slot)*vSlot + int64(rapid.IntRange(0, 5).Draw(p.t, "soff"))
		if again != nil {
			w.start = again.start
			w.replay = append([]int64(nil), again.ts...)
			w.replayed = true
		}
		// abut the previous slot's data exactly (end == next start) when possible
		for _, s := range g.segs {
			if again == nil && len(s.ts) > 0 && s.ts[len(s.ts)-1]/vSlot == int64(slot-1) && rapid.IntRange(0, 2).Draw(p.t, "abut") == 0 {
				w.start = s.ts[len(s.ts)-1] + 1
			}
		}
		// WriterConfig.Start is documented as "the starting timestamp of the first sample
		// to be written", so a legal script's first sample is stamped exactly at Start.
		w.next = w.start
		w.chans = append([]uint32{g.idx}, p.subset(g.data, 0, "wch")...)
	}
	p.nextW++
	g.openW = w.id
	p.writers[w.id] = w
	op := vOp{K: "open", W: w.id, Start: w.start, Chans: w.chans, NoAuto: !w.auto, Sync: rapid.IntRange(0, 2).Draw(p.t, "sync") == 0}
	switch rapid.IntRange(0, 3).Draw(p.t, "persist") {
	case 0:
		op.Persist = -1
	case 1:
		op.Persist = int64(rapid.IntRange(1, 2000).Draw(p.t, "pint")) * int64(time.Millisecond)
	}
	p.ops = append(p.ops, op)
	return true
}

func (p *planner) commitPlan(w *planWriter) {
	if len(w.pending) == 0 {
		return
	}
	w.commit = append(w.commit, w.pending...)
	p.allTS = append(p.allTS, w.pending...)
	w.pending = nil
}

func (p *planner) write(w *planWriter) bool {
	if w.writes >= p.o.MaxWrites {
		return false
	}
	n := rapid.IntRange(0, 6).Draw(p.t, "n")
	if n > 0 && rapid.IntRange(0, 9).Draw(p.t, "big") == 0 {
		n += rapid.IntRange(1, 8).Draw(p.t, "nbig")
	}
	var ts []int64
	if w.dataOnly {
		if w.pos >= w.end {
			return false
		}
		if n > w.end-w.pos {
			n = w.end - w.pos
		}
		ts = append(ts, w.seg.ts[w.pos:w.pos+n]...)
		w.pos += n
	} else if w.replayed && len(w.replay) == 0 {
		// the range after the wiped segment may be occupied by a writer that abutted it
		return false
	} else if len(w.replay) > 0 {
		if n > len(w.replay) {
			n = len(w.replay)
		}
		ts = append(ts, w.replay[:n]...)
		w.replay = w.replay[n:]
		if len(ts) > 0 {
			w.next = ts[len(ts)-1] + 1
		}
	} else {
		limit := int64(w.slot+1)*vSlot - 20
		for i := 0; i < n; i++ {
			t := w.next
			if t >= limit {
				break
			}
			ts = append(ts, t)
			w.next = t + int64(rapid.IntRange(1, 15).Draw(p.t, "dt"))
		}
	}
	w.writes++
	w.pending = append(w.pending, ts...)
	p.ops = append(p.ops, vOp{K: "write", W: w.id, TS: ts})
	if w.auto {
		p.commitPlan(w)
	}
	return true
}

func (p *planner) closeWriter(w *planWriter) {
	p.ops = append(p.ops, vOp{K: "close", W: w.id})
	w.g.openW = -1
	delete(p.writers, w.id)
	if !w.dataOnly {
		seg := &planSeg{slot: w.slot, start: w.start, ts: w.commit, has: map[uint32]bool{}}
		for _, c := range w.chans[1:] {
			seg.has[c] = true
		}
		w.g.segs = append(w.g.segs, seg)
		p.bounds = append(p.bounds, w.start)
	}
}

func (p *planner) boundary(label string) int64 {
	cands := p.allTS
	switch k := rapid.IntRange(0, 9).Draw(p.t, label); {
	case k == 0 || len(cands) == 0:
		return int64(rapid.IntRange(0, 14*vSlot).Draw(p.t, label+"_r"))
	case k == 1 && len(p.bounds) > 0:
		return p.bounds[rapid.IntRange(0, len(p.bounds)-1).Draw(p.t, label+"_b")]
	default:
		t := cands[rapid.IntRange(0, len(cands)-1).Draw(p.t, label+"_i")]
		return t + int64(rapid.IntRange(-2, 2).Draw(p.t, label+"_o"))
	}
}

func (p *planner) rng(label string) (int64, int64) {
	switch rapid.IntRange(0, 11).Draw(p.t, label+"_kind") {
	case 0:
		return int64(telem.TimeStampMin), int64(telem.TimeStampMax)
	case 1:
		a := p.boundary(label + "_a")
		return a, a
	}
	a, b := p.boundary(label+"_a"), p.boundary(label+"_b")
	if a > b {
		a, b = b, a
	}
	return a, b
}

// del plans a time-range delete: data channels only, an index channel only, or a whole
// index group; afterwards the group's segments are no longer used as anchors for
// data-only writers (their timestamps may be gone).
func (p *planner) del() {
	if len(p.pastDeletes) > 0 && rapid.IntRange(0, 3).Draw(p.t, "repeatdel") == 0 {
		// the same request again (after more writes it cuts a different layout at the
		// same bounds)
		op := p.pastDeletes[rapid.IntRange(0, len(p.pastDeletes)-1).Draw(p.t, "whichdel")]
		for _, g := range p.groups {
			named := false
			for _, k := range op.Keys {
				if k == g.idx {
					named = true
				}
				for _, d := range g.data {
					if d == k {
						named = true
					}
				}
			}
			if named {
				for _, sg := range g.segs {
					for _, d := range g.data {
						sg.has[d] = true
					}
					sg.idxTouched = true
				}
			}
		}
		p.ops = append(p.ops, op)
		return
	}
	defer func() {
		if n := len(p.ops); n > 0 && p.ops[n-1].K == "delete" {
			p.pastDeletes = append(p.pastDeletes, p.ops[n-1])
		}
	}()
	a, b := p.rng("del")
	for tries := 0; a >= b && tries < 4; tries++ {
		a, b = p.rng("del")
	}
	if a >= b {
		b = a + int64(rapid.IntRange(1, 50).Draw(p.t, "dlen"))
	}
	var keys []uint32
	var touched []*planGroup
	kind := rapid.IntRange(0, 5).Draw(p.t, "dkind")
	if kind >= 4 {
		// wipe exactly one committed segment (so that it can be written again): either
		// the whole group, which frees the writer slot, or one data channel, which a
		// data-only writer anchored on the surviving index samples may refill
		var cands []*planSeg
		var owner []*planGroup
		for _, g := range p.groups {
			for _, sg := range g.segs {
				if len(sg.ts) > 0 && (kind == 4 || !sg.idxTouched) {
					cands = append(cands, sg)
					owner = append(owner, g)
				}
			}
		}
		if len(cands) > 0 {
			i := rapid.IntRange(0, len(cands)-1).Draw(p.t, "wseg")
			sg, g := cands[i], owner[i]
			a, b := sg.start, sg.ts[len(sg.ts)-1]+1
			if kind == 4 || len(g.data) == 0 {
				p.ops = append(p.ops, vOp{K: "delete", A: a, B: b, Keys: append([]uint32{g.idx}, g.data...)})
				for j, x := range g.segs {
					if x == sg {
						g.segs = append(g.segs[:j], g.segs[j+1:]...)
						break
					}
				}
				if sg.start/vSlot == int64(sg.slot) {
					g.used[sg.slot] = false
					if g.wipedSlot == nil {
						g.wipedSlot = map[int]bool{}
					}
					g.wipedSlot[sg.slot] = true
					g.wiped = append(g.wiped, sg)
				}
			} else {
				d := g.data[rapid.IntRange(0, len(g.data)-1).Draw(p.t, "wd")]
				p.ops = append(p.ops, vOp{K: "delete", A: a, B: b, Keys: []uint32{d}})
				sg.has[d] = false
			}
			return
		}
		kind = 3
	}
	switch kind {
	case 0: // one index channel alone
		g := p.groups[rapid.IntRange(0, len(p.groups)-1).Draw(p.t, "dg")]
		keys = []uint32{g.idx}
		touched = []*planGroup{g}
	case 1: // a whole group
		g := p.groups[rapid.IntRange(0, len(p.groups)-1).Draw(p.t, "dg")]
		keys = append([]uint32{g.idx}, g.data...)
		touched = []*planGroup{g}
	default: // data channels only, across groups
		var data []uint32
		for _, g := range p.groups {
			data = append(data, g.data...)
		}
		if len(data) == 0 {
			g := p.groups[0]
			keys = []uint32{g.idx}
		} else {
			keys = p.subset(data, 1, "dk")
		}
		touched = p.groups
	}
	for _, g := range touched {
		idxNamed := false
		for _, k := range keys {
			if k == g.idx {
				idxNamed = true
			}
		}
		for _, s := range g.segs {
			for _, d := range g.data {
				s.has[d] = true
			}
			if idxNamed {
				s.idxTouched = true
			}
		}
	}
	p.ops = append(p.ops, vOp{K: "delete", A: a, B: b, Keys: keys})
}

func (p *planner) allKeys() []uint32 {
	var ks []uint32
	for _, c := range p.sch.Chans {
		ks = append(ks, c.Key)
	}
	return ks
}

func (p *planner) read() {
	a, b := p.rng("rd")
	keys := p.subset(p.allKeys(), 1, "rk")
	k := "read"
	op := vOp{K: k, A: a, B: b, Keys: keys}
	if rapid.IntRange(0, 3).Draw(p.t, "sweep") == 0 {
		op.K = "sweep"
		op.Span = int64(rapid.IntRange(20, 2500).Draw(p.t, "span"))
		if p.o.AutoSweeps && rapid.IntRange(0, 2).Draw(p.t, "auto") == 0 {
			op.Span = 0
			op.Chunk = int64(rapid.IntRange(1, 9).Draw(p.t, "chunk"))
		}
	}
	p.ops = append(p.ops, op)
}

// genScript draws a complete legal script.
func genScript(t *rapid.T, o genOpts) vScript {
	p := newPlanner(t, o)
	steps := rapid.IntRange(3, 14+6*o.MaxWriters).Draw(t, "steps")
	reads, dels, gcs, iters := 0, 0, 0, 0
	for i := 0; i < steps; i++ {
		var open []*planWriter
		for _, w := range p.writers {
			open = append(open, w)
		}
		sort.Slice(open, func(i, j int) bool { return open[i].id < open[j].id })
		k := rapid.IntRange(0, 19).Draw(t, "op")
		switch {
		case k < 3 || len(open) == 0 && k < 9:
			if !p.openWriter() && len(open) == 0 && reads < o.MaxReads {
				p.read()
				reads++
			}
		case k < 11 && len(open) > 0:
			w := open[rapid.IntRange(0, len(open)-1).Draw(t, "ww")]
			if !p.write(w) {
				p.closeWriter(w)
			}
		case k < 13 && len(open) > 0:
			w := open[rapid.IntRange(0, len(open)-1).Draw(t, "cw")]
			p.ops = append(p.ops, vOp{K: "commit", W: w.id})
			p.commitPlan(w)
		case k < 15 && len(open) > 0:
			p.closeWriter(open[rapid.IntRange(0, len(open)-1).Draw(t, "xw")])
		case k == 15 && o.Rename && rapid.Bool().Draw(t, "ren") && len(open) == 0:
			keys := p.allKeys()
			p.renames++
			p.ops = append(p.ops, vOp{K: "rename", Keys: []uint32{keys[rapid.IntRange(0, len(keys)-1).Draw(t, "rnk")]}, W: p.renames})
		case k == 15 && !o.NoSleep:
			p.ops = append(p.ops, vOp{K: "sleep", D: int64(rapid.IntRange(1, 3000).Draw(t, "sleep")) * int64(time.Millisecond)})
		case k == 16 && !o.NoReopen && len(open) == 0:
			p.ops = append(p.ops, vOp{K: "reopen"})
		case (k == 17 || k == 19 && o.Deletes) && o.Deletes && dels < o.MaxDeletes && len(open) == 0:
			p.del()
			dels++
		case (k == 16 || k == 19) && o.Iter && iters < o.MaxIters && len(open) == 0 && len(p.allTS) > 0:
			p.iterOp()
			iters++
		case k == 18 && o.GC && gcs < o.MaxGC && len(open) == 0:
			p.ops = append(p.ops, vOp{K: "gc"})
			gcs++
		default:
			if reads < o.MaxReads {
				p.read()
				reads++
			}
		}
	}
	var open []*planWriter
	for _, w := range p.writers {
		open = append(open, w)
	}
	sort.Slice(open, func(i, j int) bool { return open[i].id < open[j].id })
	for _, w := range open {
		if rapid.IntRange(0, 1).Draw(t, "fc") == 0 {
			p.ops = append(p.ops, vOp{K: "commit", W: w.id})
			p.commitPlan(w)
		}
		p.closeWriter(w)
	}
	for reads < 2 {
		p.read()
		reads++
	}
	if o.Iter {
		for iters < 1 || (iters < o.MaxIters && rapid.IntRange(0, 1).Draw(t, "moreiter") == 0) {
			p.iterOp()
			iters++
		}
	}
	return vScript{Schema: p.sch, Ops: p.ops}
}

// ---- determinism --------------------------------------------------------------------------------

type detReader struct {
	mu sync.Mutex
	x  uint64
}

func (d *detReader) Read(p []byte) (int, error) {
	d.mu.Lock()
	defer d.mu.Unlock()
	for i := range p {
		d.x ^= d.x << 13
		d.x ^= d.x >> 7
		d.x ^= d.x << 17
		p[i] = byte(d.x >> 24)
	}
	return len(p), nil
}

// vDeterminize pins the process-wide randomness the engine reaches: google/uuid (writer
// control subjects, delete gate subjects) and the top-level math/rand functions (names of
// directories being deleted). Workers run with GODEBUG=randseednop=0.
func vDeterminize(seed uint64) {
	uuid.SetRand(&detReader{x: seed*2654435761 + 0x9E3779B97F4A7C15})
	mrand.Seed(int64(seed) + 1)
}

// ---- runner -----------------------------------------------------------------------------------

type vWriter struct {
	w       *Writer
	op      vOp
	pending map[uint32][]tsmodel.Sample
	auto    bool
	// committed: at least one sample of this writer has been committed
	committed bool
}

type vRun struct {
	st      *drv.Stats
	ctx     context.Context
	core    *simfs.FS
	db      *DB
	sch     vSchema
	chans   map[uint32]vChan
	model   *tsmodel.Model
	writers map[int]*vWriter
	seq     map[uint32]int
	// inexact marks, per channel, samples that are the first of a domain whose start
	// lies strictly before them (writer Start earlier than its first sample, or a
	// delete whose end cut falls between samples).
	inexact map[uint32]map[int64]bool
	// written records every (ts, value) ever handed to Write per channel (provenance).
	written map[uint32]map[int64][][]byte
	// hooks
	afterOp   func(i int, op vOp, changed bool)
	extraStep func(r *vRun, i int, op vOp) (bool, *drv.Failure)
	finish    func(r *vRun) *drv.Failure
	opts      []Option
	// facts for non-triviality
	commits, cutReads, reads int
	deletes, gcs, iters      int
	lastFailKey              uint32
	autoSteps, reversedWalks int
	names                    map[uint32]string
	// taint is set once the run has performed an operation that is a recorded known
	// finding's precondition and corrupts state; it prefixes every later signature.
	taint string
	shape []string
	// nontrivial overrides the default non-triviality rule of the engine
	nontrivial func(r *vRun) bool
}

func newRun(st *drv.Stats, sch vSchema) *vRun {
	r := &vRun{st: st, ctx: context.Background(), core: simfs.New(), sch: sch, chans: map[uint32]vChan{},
		model: tsmodel.New(), writers: map[int]*vWriter{}, seq: map[uint32]int{}, written: map[uint32]map[int64][][]byte{},
		inexact: map[uint32]map[int64]bool{}, names: map[uint32]string{}}
	for _, c := range sch.Chans {
		r.chans[c.Key] = c
	}
	return r
}

func (r *vRun) open() error {
	opts := []Option{WithFS(xfs.NewSim(r.core)), WithFileSizeCap(telem.Size(r.sch.FileSize))}
	if r.sch.GCThresh > 0 {
		opts = append(opts, WithGCConfig(GCConfig{Threshold: r.sch.GCThresh}))
	}
	opts = append(opts, r.opts...)
	db, err := Open(r.ctx, "", opts...)
	if err != nil {
		return err
	}
	r.db = db
	return nil
}

func (r *vRun) createChannels() error {
	for _, c := range r.sch.Chans {
		ch := Channel{Key: c.Key, Name: "c" + strconv.Itoa(int(c.Key)), DataType: telem.DataType(c.DT), IsIndex: c.IsIndex}
		if !c.IsIndex {
			ch.Index = c.Index
		}
		if err := r.db.CreateChannel(r.ctx, ch); err != nil {
			return err
		}
		r.model.Add(c.Key, c.Index, c.IsIndex)
		r.names[c.Key] = ch.Name
	}
	return nil
}

func errSig(err error) string {
	s := err.Error()
	if len(s) > 60 {
		s = s[:60]
	}
	return strings.Map(func(r rune) rune {
		if r >= '0' && r <= '9' {
			return '#'
		}
		return r
	}, s)
}

func (r *vRun) closeWriters() *drv.Failure {
	ids := make([]int, 0, len(r.writers))
	for id := range r.writers {
		ids = append(ids, id)
	}
	sort.Ints(ids)
	for _, id := range ids {
		if err := r.writers[id].w.Close(); err != nil {
			return drv.Failf("unexpected-error", "close:"+errSig(err), "writer %d close: %v", id, err)
		}
		delete(r.writers, id)
	}
	return nil
}

func (r *vRun) commitModel(vw *vWriter) *drv.Failure {
	keys := make([]int, 0, len(vw.pending))
	for k := range vw.pending {
		keys = append(keys, int(k))
	}
	sort.Ints(keys)
	for _, k := range keys {
		if p := vw.pending[uint32(k)]; len(p) > 0 && !vw.committed && p[0].TS > vw.op.Start {
			if r.inexact[uint32(k)] == nil {
				r.inexact[uint32(k)] = map[int64]bool{}
			}
			r.inexact[uint32(k)][p[0].TS] = true
			r.st.Probe("domain_start_before_first_sample")
		}
		if err := r.model.Commit(uint32(k), vw.pending[uint32(k)]); err != nil {
			return drv.Failf("harness", "illegal-script", "%v", err)
		}
		if len(vw.pending[uint32(k)]) > 0 {
			r.commits++
		}
	}
	for _, p := range vw.pending {
		if len(p) > 0 {
			vw.committed = true
		}
	}
	vw.pending = map[uint32][]tsmodel.Sample{}
	return nil
}

// decode turns the series returned for one channel into samples. Timestamps of data
// channel samples are not in the series; the caller pairs them with the model.
func decodeVals(ms telem.MultiSeries) [][]byte {
	var out [][]byte
	for _, s := range ms.Series {
		for v := range s.Samples() {
			out = append(out, append([]byte(nil), v...))
		}
	}
	return out
}

// checkRead compares the frame returned for range [a,b) with the model.
func (r *vRun) checkRead(what string, fr Frame, keys []uint32, a, b int64) *drv.Failure {
	for _, k := range keys {
		want := r.model.Read(k, a, b)
		ms := fr.Get(ChannelKey(k))
		got := decodeVals(ms)
		c := r.chans[k]
		if strings.Contains(what, "chunk=") && !strings.Contains(what, "chunk=0") && len(got) > len(want) && isAutoSpanRedelivery(want, got) {
			return drv.Failf("read-mismatch", "autospan-redelivery:"+dtClass(c),
				"%s ch %d (%s) range [%d,%d): auto-span traversal delivered a sample twice in a row; want ts=%v got=%v",
				what, k, c.DT, a, b, tsOf(want), shortVals(got))
		}
		// series time ranges ascending, non-overlapping
		for i := 1; i < len(ms.Series); i++ {
			if ms.Series[i].TimeRange.Start < ms.Series[i-1].TimeRange.End {
				return drv.Failf("read-mismatch", "series-order:"+c.DT, "%s ch %d [%d,%d): series %d time range %v overlaps/precedes previous %v",
					what, k, a, b, i, ms.Series[i].TimeRange, ms.Series[i-1].TimeRange)
			}
		}
		if len(got) != len(want) {
			kind := "missing"
			if len(got) > len(want) {
				kind = "extra"
			}
			return drv.Failf("read-mismatch", kind+":"+dtClass(c), "%s ch %d (%s) range [%d,%d): want %d samples, got %d; want ts=%v got=%v",
				what, k, c.DT, a, b, len(want), len(got), tsOf(want), shortVals(got))
		}
		for i := range want {
			if string(want[i].Val) != string(got[i]) {
				return drv.Failf("read-mismatch", "value:"+dtClass(c), "%s ch %d (%s) range [%d,%d): sample %d (ts %d): want %x got %x",
					what, k, c.DT, a, b, i, want[i].TS, want[i].Val, got[i])
			}
		}
		// index channel values are their own timestamps and must lie in [a,b)
		if c.IsIndex {
			for i, v := range got {
				ts := int64(binary.LittleEndian.Uint64(v))
				if ts < a || ts >= b {
					return drv.Failf("read-mismatch", "out-of-range:index", "%s index ch %d range [%d,%d): sample %d ts %d outside range", what, k, a, b, i, ts)
				}
			}
		}
	}
	return nil
}

// isAutoSpanRedelivery reports whether got equals want except that some samples are
// delivered twice in a row: the signature of an auto-span step that began at a point
// which is not exactly a sample (iterator bound or domain start between samples) and
// re-delivers its last sample on the following step.
func isAutoSpanRedelivery(want []tsmodel.Sample, got [][]byte) bool {
	j, dups := 0, 0
	for i := 0; i < len(want); i++ {
		if j >= len(got) || string(got[j]) != string(want[i].Val) {
			return false
		}
		j++
		if j < len(got) && string(got[j]) == string(want[i].Val) && (i+1 >= len(want) || string(want[i+1].Val) != string(want[i].Val)) {
			j++
			dups++
		}
	}
	return j == len(got) && dups > 0
}

func dtClass(c vChan) string {
	if c.IsIndex {
		return "index"
	}
	if vIsVar(c.DT) {
		return "var"
	}
	return "fixed"
}

func tsOf(s []tsmodel.Sample) []int64 {
	out := make([]int64, 0, len(s))
	for _, x := range s {
		out = append(out, x.TS)
	}
	if len(out) > 40 {
		out = out[:40]
	}
	return out
}

func shortVals(v [][]byte) string {
	var sb strings.Builder
	for i, x := range v {
		if len(x) == 8 && i < 40 {
			fmt.Fprintf(&sb, "%d ", int64(binary.LittleEndian.Uint64(x)))
			continue
		}
		if i >= 12 {
			sb.WriteString("...")
			break
		}
		fmt.Fprintf(&sb, "%x ", x)
	}
	return sb.String()
}

func (r *vRun) noteCut(keys []uint32, a, b int64) {
	// does an end of the range fall strictly between two committed samples of a channel?
	for _, k := range keys {
		all := r.model.All(k)
		for i := 1; i < len(all); i++ {
			if (a > all[i-1].TS && a <= all[i].TS && a != all[i].TS) || (b > all[i-1].TS+1 && b <= all[i].TS && len(r.model.Read(k, a, b)) > 0) {
				r.cutReads++
				r.st.Probe("read_cuts_between_samples")
				return
			}
		}
	}
}

// step executes one op; changed reports whether committed content may have changed.
func (r *vRun) step(i int, op vOp) (changed bool, fail *drv.Failure) {
	switch op.K {
	case "open":
		cfg := WriterConfig{Start: telem.TimeStamp(op.Start), Channels: op.Chans,
			EnableAutoCommit: new(!op.NoAuto), Sync: new(op.Sync)}
		if op.Persist != 0 {
			cfg.AutoIndexPersistInterval = telem.TimeSpan(op.Persist)
		}
		w, err := r.db.OpenWriter(r.ctx, cfg)
		if err != nil {
			return false, drv.Failf("unexpected-error", "open:"+errSig(err), "op %d open writer %d start=%d chans=%v: %v", i, op.W, op.Start, op.Chans, err)
		}
		r.writers[op.W] = &vWriter{w: w, op: op, pending: map[uint32][]tsmodel.Sample{}, auto: !op.NoAuto}
		hasIdx := false
		for _, c := range op.Chans {
			if r.chans[c].IsIndex {
				hasIdx = true
			}
		}
		if !hasIdx {
			r.st.Probe("data_only_writer")
		}
		if len(r.model.All(r.chans[op.Chans[0]].Index)) > 0 && hasIdx {
			all := r.model.All(r.chans[op.Chans[0]].Index)
			if op.Start < all[len(all)-1].TS {
				r.st.Probe("out_of_order_domain")
				r.shape = append(r.shape, "ooo")
			}
			if op.Start == all[len(all)-1].TS+1 {
				r.st.Probe("abutting_start")
			}
		}
	case "write":
		vw := r.writers[op.W]
		if vw == nil {
			return false, drv.Failf("harness", "no-writer", "op %d: writer %d not open", i, op.W)
		}
		keys := make([]ChannelKey, 0, len(vw.op.Chans))
		series := make([]telem.Series, 0, len(vw.op.Chans))
		for _, k := range vw.op.Chans {
			c := r.chans[k]
			keys = append(keys, ChannelKey(k))
			if c.IsIndex {
				series = append(series, vTSSeries(op.TS))
				for _, t := range op.TS {
					vw.pending[k] = append(vw.pending[k], tsmodel.Sample{TS: t, Val: vTSBytes(t)})
					r.record(k, t, vTSBytes(t))
				}
				continue
			}
			vals := make([][]byte, 0, len(op.TS))
			for _, t := range op.TS {
				v := vValue(c.DT, k, r.seq[k])
				r.seq[k]++
				vals = append(vals, v)
				vw.pending[k] = append(vw.pending[k], tsmodel.Sample{TS: t, Val: v})
				r.record(k, t, v)
			}
			series = append(series, vSeries(c.DT, vals))
			if vIsVar(c.DT) {
				r.st.Probe("variable_type")
			}
		}
		auth, err := vw.w.Write(telem.MultiFrame(keys, series))
		if err != nil {
			return false, drv.Failf("unexpected-error", "write:"+errSig(err), "op %d write w%d ts=%v: %v", i, op.W, op.TS, err)
		}
		if !auth {
			return false, drv.Failf("unexpected-error", "write:unauthorized", "op %d write w%d reported unauthorized", i, op.W)
		}
		synctest.Wait()
		if len(op.TS) == 0 {
			r.st.Probe("empty_write")
		}
		if vw.auto {
			if f := r.commitModel(vw); f != nil {
				return false, f
			}
			changed = len(op.TS) > 0
		}
	case "commit":
		vw := r.writers[op.W]
		if vw == nil {
			return false, drv.Failf("harness", "no-writer", "op %d: writer %d not open", i, op.W)
		}
		if _, err := vw.w.Commit(); err != nil {
			return false, drv.Failf("unexpected-error", "commit:"+errSig(err), "op %d commit w%d: %v", i, op.W, err)
		}
		if f := r.commitModel(vw); f != nil {
			return false, f
		}
		changed = true
	case "close":
		vw := r.writers[op.W]
		if vw == nil {
			return false, drv.Failf("harness", "no-writer", "op %d: writer %d not open", i, op.W)
		}
		if err := vw.w.Close(); err != nil {
			return false, drv.Failf("unexpected-error", "close:"+errSig(err), "op %d close w%d: %v", i, op.W, err)
		}
		for _, p := range vw.pending {
			if len(p) > 0 {
				r.st.Probe("close_discards_uncommitted")
				break
			}
		}
		delete(r.writers, op.W)
		changed = true
	case "read":
		fr, err := r.db.Read(r.ctx, telem.TimeRange{Start: telem.TimeStamp(op.A), End: telem.TimeStamp(op.B)}, op.Keys...)
		if err != nil {
			return false, drv.Failf("unexpected-error", "read:"+errSig(err), "op %d read [%d,%d) %v: %v", i, op.A, op.B, op.Keys, err)
		}
		r.reads++
		r.noteCut(op.Keys, op.A, op.B)
		if f := r.checkRead(fmt.Sprintf("op %d read", i), fr, op.Keys, op.A, op.B); f != nil {
			return false, f
		}
	case "sweep":
		if f := r.sweep(i, op); f != nil {
			return false, f
		}
	case "sleep":
		time.Sleep(time.Duration(op.D))
		r.st.AddVirtual(time.Duration(op.D))
	case "rename":
		name := "c" + strconv.Itoa(int(op.Keys[0])) + "_r" + strconv.Itoa(op.W)
		if err := r.db.RenameChannel(r.ctx, ChannelKey(op.Keys[0]), name); err != nil {
			return false, drv.Failf("unexpected-error", "rename:"+errSig(err), "op %d rename ch %d: %v", i, op.Keys[0], err)
		}
		r.names[op.Keys[0]] = name
		r.st.Probe("rename")
		changed = true
	case "reopen":
		if f := r.reopen(); f != nil {
			return false, f
		}
		r.st.Probe("reopen")
		changed = true
	default:
		if r.extraStep != nil {
			return r.extraStep(r, i, op)
		}
		return false, drv.Failf("harness", "bad-op", "unknown op %q", op.K)
	}
	synctest.Wait()
	return changed, nil
}

var _ = os.O_RDONLY

func stackTrim() string {
	l := strings.Split(string(debug.Stack()), "\n")
	if len(l) > 50 {
		l = l[:50]
	}
	return strings.Join(l, "\n")
}

func (r *vRun) record(k uint32, ts int64, v []byte) {
	m := r.written[k]
	if m == nil {
		m = map[int64][][]byte{}
		r.written[k] = m
	}
	m[ts] = append(m[ts], v)
}

func (r *vRun) reopen() *drv.Failure {
	if f := r.closeWriters(); f != nil {
		return f
	}
	if err := r.db.Close(); err != nil {
		return drv.Failf("unexpected-error", "dbclose:"+errSig(err), "db close: %v", err)
	}
	synctest.Wait()
	if err := r.open(); err != nil {
		return drv.Failf("unexpected-error", "dbopen:"+errSig(err), "db reopen: %v", err)
	}
	return nil
}

// sweep reads a range through an iterator with Next(span) or auto-span steps and
// compares the concatenation with the model.
func (r *vRun) sweep(i int, op vOp) *drv.Failure {
	it, err := r.db.OpenIterator(IteratorConfig{Channels: op.Keys, Bounds: telem.TimeRange{Start: telem.TimeStamp(op.A), End: telem.TimeStamp(op.B)}, AutoChunkSize: op.Chunk})
	if err != nil {
		return drv.Failf("unexpected-error", "iter-open:"+errSig(err), "op %d open iterator: %v", i, err)
	}
	var fr Frame
	span := telem.TimeSpan(op.Span)
	if op.Chunk > 0 {
		span = AutoSpan
	}
	n := 0
	if it.SeekFirst() {
		if op.Chunk > 0 {
			// auto-span steps jump over gaps, so the documented idiom applies
			for it.Next(span) {
				fr = fr.Extend(it.Value())
				n++
				if n > 100000 {
					_ = it.Close()
					return drv.Failf("iterator-livelock", "sweep", "op %d sweep did not terminate", i)
				}
			}
		} else {
			// A fixed-span step whose view holds no sample returns false without the
			// traversal being over, so step across the whole populated range.
			lo, hi := op.A, op.B
			if lo < 0 {
				lo = 0
			}
			if hi > 15*vSlot {
				hi = 15 * vSlot
			}
			steps := (hi-lo)/op.Span + 3
			for s := int64(0); s < steps; s++ {
				if it.Next(span) {
					fr = fr.Extend(it.Value())
				}
			}
		}
	}
	if err := it.Error(); err != nil {
		// Running an auto-span traversal off the end of the stored data leaves a
		// "discontinuous" error on the iterator. The properties do not say the error
		// must be nil after exhaustion, so it is only counted; a traversal that ended
		// early is caught by the sample comparison below.
		if !errors.Is(err, index.ErrDiscontinuous) {
			_ = it.Close()
			return drv.Failf("unexpected-error", "iter:"+errSig(err), "op %d sweep: %v", i, err)
		}
		r.st.Probe("sweep_end_discontinuous_error")
		if os.Getenv("VERIF_DEBUG") != "" {
			fmt.Printf("DEBUG op %d sweep iterator error: %v\n", i, err)
		}
	}
	if err := it.Close(); err != nil {
		return drv.Failf("unexpected-error", "iter-close:"+errSig(err), "op %d sweep close: %v", i, err)
	}
	r.reads++
	r.noteCut(op.Keys, op.A, op.B)
	r.st.Probe("sweep")
	return r.checkRead(fmt.Sprintf("op %d sweep(span=%d,chunk=%d)", i, op.Span, op.Chunk), fr, op.Keys, op.A, op.B)
}

func (r *vRun) fullCheck(what string) *drv.Failure {
	var keys []uint32
	for _, c := range r.sch.Chans {
		if _, ok := r.model.Chans[c.Key]; ok {
			keys = append(keys, c.Key)
		}
	}
	for _, k := range keys {
		fr, err := r.db.Read(r.ctx, telem.TimeRangeMax, ChannelKey(k))
		if err != nil {
			return drv.Failf("unexpected-error", "read:"+errSig(err), "%s full read ch %d: %v", what, k, err)
		}
		if f := r.checkRead(what+" full", fr, []uint32{k}, int64(telem.TimeStampMin), int64(telem.TimeStampMax)); f != nil {
			r.lastFailKey = k
			return f
		}
	}
	return nil
}

// dumpLayout decodes each channel's persisted index.domain (26-byte pointer records)
// from the simulated disk; used for debugging and by the layout oracles.
type vPtr struct {
	Start, End int64
	File       uint16
	Off, Size  uint32
}

func (r *vRun) layout(k uint32) []vPtr {
	b := r.core.Dump()["/"+strconv.Itoa(int(k))+"/index.domain"]
	var out []vPtr
	for i := 0; i+26 <= len(b); i += 26 {
		out = append(out, vPtr{
			Start: int64(binary.LittleEndian.Uint64(b[i:])), End: int64(binary.LittleEndian.Uint64(b[i+8:])),
			File: binary.LittleEndian.Uint16(b[i+16:]), Off: binary.LittleEndian.Uint32(b[i+18:]), Size: binary.LittleEndian.Uint32(b[i+22:]),
		})
	}
	return out
}

func (r *vRun) debugDump() {
	if os.Getenv("VERIF_DEBUG") == "" {
		return
	}
	for _, c := range r.sch.Chans {
		fmt.Printf("DEBUG ch %d (%s) persisted pointers: %+v\n", c.Key, c.DT, r.layout(c.Key))
	}
}

// countFiles reports how many N.domain data files channel k has (rollover probe).
func (r *vRun) countDataFiles(k uint32) int {
	infos, err := r.core.List("/" + strconv.Itoa(int(k)))
	if err != nil {
		return 0
	}
	n := 0
	for _, in := range infos {
		name := in.Name()
		if strings.HasSuffix(name, ".domain") && name != "index.domain" && name != "counter.domain" {
			n++
		}
	}
	return n
}

// runSeq executes a script sequentially (op tier) inside a bubble.
func runSeq(t *testing.T, sc vScript, st *drv.Stats, setup func(r *vRun)) (fail *drv.Failure) {
	vDeterminize(uint64(len(sc.Ops)) + uint64(sc.Schema.FileSize))
	var run *vRun
	defer func() {
		if fail != nil && run != nil && run.taint != "" && fail.Class != "harness" {
			fail.Sig = "tainted:" + run.taint + ":" + fail.Class + ":" + fail.Sig
			fail.Class = "tainted"
		}
	}()
	synctest.Test(t, func(t *testing.T) {
		defer func() {
			if p := recover(); p != nil {
				fail = drv.Failf("panic", drv_firstLine(fmt.Sprint(p)), "panic: %v\n%s", p, stackTrim())
			}
		}()
		r := newRun(st, sc.Schema)
		run = r
		if setup != nil {
			setup(r)
		}
		if err := r.open(); err != nil {
			fail = drv.Failf("unexpected-error", "dbopen:"+errSig(err), "open: %v", err)
			return
		}
		defer func() {
			for _, w := range r.writers {
				_ = w.w.Close()
			}
			if r.db != nil {
				_ = r.db.Close()
			}
			synctest.Wait()
		}()
		if err := r.createChannels(); err != nil {
			fail = drv.Failf("unexpected-error", "create:"+errSig(err), "create channels: %v", err)
			return
		}
		for i, op := range sc.Ops {
			changed, f := r.step(i, op)
			if f != nil {
				r.debugDump()
				fail = f
				return
			}
			if r.afterOp != nil {
				r.afterOp(i, op, changed)
			}
		}
		if f := r.closeWriters(); f != nil {
			fail = f
			return
		}
		if f := r.fullCheck("final"); f != nil {
			fail = f
			return
		}
		roll := false
		for _, c := range sc.Schema.Chans {
			if r.countDataFiles(c.Key) > 1 {
				roll = true
			}
		}
		if roll {
			st.Probe("rollover")
			r.shape = append(r.shape, "roll")
		}
		if f := r.reopen(); f != nil {
			fail = f
			return
		}
		st.Probe("reopen")
		if f := r.fullCheck("after-reopen"); f != nil {
			f.Sig = "reopen:" + f.Sig
			fail = f
			return
		}
		if r.finish != nil {
			if f := r.finish(r); f != nil {
				fail = f
				return
			}
		}
		// shape: op kinds + layout facts
		var sb strings.Builder
		for _, op := range sc.Ops {
			sb.WriteString(op.K[:2])
			sb.WriteString(strconv.Itoa(len(op.TS)))
		}
		for _, c := range sc.Schema.Chans {
			sb.WriteString(c.DT[:2])
			sb.WriteString(strconv.Itoa(len(r.model.All(c.Key))))
		}
		nontrivial := (r.commits >= 2 || roll) && r.cutReads >= 1
		if r.nontrivial != nil {
			nontrivial = r.nontrivial(r)
		}
		st.Case(drv.Hash64(sb.String(), strings.Join(r.shape, ","), strconv.FormatInt(sc.Schema.FileSize, 10)), nontrivial)
	})
	return fail
}

func drv_firstLine(s string) string {
	if i := strings.IndexByte(s, '\n'); i >= 0 {
		return s[:i]
	}
	return s
}
