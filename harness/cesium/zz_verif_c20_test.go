package cesium

// Injected by /verif via `go test -overlay`; never part of the repository.
// C20 (+ the write-path clause of C05): streamers see an ordered, filtered,
// duplicate-free view of the frames written by stream-enabled, authorized writers; an
// always-ready streamer receives all of them; opening, re-subscribing, closing a
// streamer or closing the database never blocks writers indefinitely. Writers, streamer
// consumers and streamer controllers (re-subscribe / disconnect) are goroutines under
// the seeded scheduler; the relay's slow-consumer timer reads the virtual clock.

import (
	"fmt"
	"os"
	"sort"
	"strconv"
	"strings"
	"sync"
	"sync/atomic"
	"testing"
	"testing/synctest"
	"time"

	"github.com/synnaxlabs/x/confluence"
	xcontrol "github.com/synnaxlabs/x/control"
	"github.com/synnaxlabs/x/errors"
	"github.com/synnaxlabs/x/signal"
	"github.com/synnaxlabs/x/telem"
	"pgregory.net/rapid"
	"verifsim/drv"
	"verifsim/sim"
	"verifsim/simrt"
)

type c20Writer struct {
	ID     int       `json:"id"`
	Chans  []uint32  `json:"chans"`
	Start  int64     `json:"start"`
	Mode   int       `json:"mode"` // 1 persist+stream, 2 persist only, 3 stream only
	Auth   int       `json:"auth"`
	Frames [][]int64 `json:"frames"`            // timestamps per write
	PaceNS int64     `json:"pace_ns,omitempty"` // virtual time slept after each write (0 = back to back)
	// NoAuto: auto-commit off; the writer commits once, after its last write
	NoAuto bool `json:"no_auto,omitempty"`
}

// c20VStep is one step of a writer on the virtual channels: a write of one sample per
// channel, or a change of the writer's authority.
type c20VStep struct {
	K    string `json:"k"` // write, auth
	Auth int    `json:"auth,omitempty"`
}

// c20VWriter writes the case's virtual channels (nothing persisted, so control may move
// between writers at any moment): it opens after OpenAfterNS of virtual time, runs its
// steps PaceNS apart and closes.
type c20VWriter struct {
	ID          int        `json:"id"`
	Auth        int        `json:"auth"`
	OpenAfterNS int64      `json:"open_after_ns,omitempty"`
	PaceNS      int64      `json:"pace_ns,omitempty"`
	Steps       []c20VStep `json:"steps"`
}

// c20Interloper opens a writer with a higher authority on a group's channels while the
// group's writer is writing, writes nothing, holds control for HoldNS of virtual time
// and closes: the group's writer loses control mid-stream and regains it.
type c20Interloper struct {
	ID          int      `json:"id"`
	Chans       []uint32 `json:"chans"`
	Start       int64    `json:"start"`
	Auth        int      `json:"auth"`
	OpenAfterNS int64    `json:"open_after_ns"`
	HoldNS      int64    `json:"hold_ns"`
}

type c20SOp struct {
	K    string   `json:"k"` // sub, close
	Keys []uint32 `json:"keys,omitempty"`
}

type c20Streamer struct {
	ID      int      `json:"id"`
	Keys    []uint32 `json:"keys"`
	Buf     int      `json:"buf"`
	SleepNS int64    `json:"sleep_ns,omitempty"` // consumer sleeps this long after each frame (0 = always ready)
	Script  []c20SOp `json:"script,omitempty"`   // executed concurrently with the writers; empty = stable until the end
}

type c20Case struct {
	Schema      vSchema         `json:"schema"`
	Writers     []c20Writer     `json:"writers"`
	Streamers   []c20Streamer   `json:"streamers"`
	Virtual     []uint32        `json:"virtual,omitempty"` // keys of virtual channels
	VWriters    []c20VWriter    `json:"vwriters,omitempty"`
	Interlopers []c20Interloper `json:"interlopers,omitempty"`
	CloseDB     bool            `json:"close_db,omitempty"`
	Sched       sim.Config      `json:"sched"`
	Seed        uint64          `json:"seed"`
}

func genC20(t *rapid.T) c20Case {
	var c c20Case
	c.Schema = genSchema(t, genOpts{MaxGroups: 2, MaxDataPerGroup: 2})
	c.Schema.FileSize = 1 << 20
	type grp struct {
		idx  uint32
		data []uint32
	}
	var groups []*grp
	var allKeys []uint32
	for _, ch := range c.Schema.Chans {
		allKeys = append(allKeys, ch.Key)
		if ch.IsIndex {
			groups = append(groups, &grp{idx: ch.Key})
		} else {
			g := groups[len(groups)-1]
			g.data = append(g.data, ch.Key)
		}
	}
	wid := 0
	for gi, g := range groups {
		// one or two writers per group; two writers contend for control of the group
		n := 1
		if rapid.IntRange(0, 2).Draw(t, "contend") == 0 {
			n = 2
		}
		auth0 := rapid.SampledFrom([]int{1, 2, 2, 255}).Draw(t, "auth")
		for k := 0; k < n; k++ {
			// Contending writers share the region's underlying domain writer, whose
			// commits must move forward in time. The second writer therefore writes
			// later timestamps and never outranks the first, so it can only gain
			// control (by the first writer's close) after all earlier data is in.
			auth := auth0
			if k == 1 {
				auth = rapid.SampledFrom([]int{0, 1, auth0, auth0}).Draw(t, "auth1")
				if auth > auth0 {
					auth = auth0
				}
			}
			w := c20Writer{ID: wid, Chans: append([]uint32{g.idx}, g.data...), Start: int64(1+gi*4)*vSlot + int64(k)*500,
				Mode: rapid.SampledFrom([]int{1, 1, 1, 3, 2}).Draw(t, "mode"), Auth: auth}
			next := w.Start
			for j := rapid.IntRange(1, 6).Draw(t, "nf"); j > 0; j-- {
				var ts []int64
				for m := rapid.IntRange(1, 3).Draw(t, "ns"); m > 0; m-- {
					ts = append(ts, next)
					next += int64(rapid.IntRange(1, 9).Draw(t, "dt"))
				}
				w.Frames = append(w.Frames, ts)
			}
			if n == 1 && rapid.IntRange(0, 2).Draw(t, "noauto") == 0 {
				w.NoAuto = true
			}
			if rapid.IntRange(0, 2).Draw(t, "paced") == 0 {
				// a paced writer spreads its writes over virtual time, so controllers'
				// re-subscriptions and consumers' sleeps fall between its writes
				w.PaceNS = int64(rapid.IntRange(1, 4).Draw(t, "pacems")) * int64(time.Millisecond)
			}
			c.Writers = append(c.Writers, w)
			wid++
		}
	}
	for gi, g := range groups {
		// an interloper only where one paced writer owns the group (two contending
		// writers already share the group's domain writer)
		var own []c20Writer
		for _, w := range c.Writers {
			if w.Chans[0] == g.idx {
				own = append(own, w)
			}
		}
		if len(own) != 1 || own[0].PaceNS == 0 || own[0].Auth >= 255 || rapid.IntRange(0, 1).Draw(t, "interloper") != 0 {
			continue
		}
		c.Interlopers = append(c.Interlopers, c20Interloper{ID: wid, Chans: own[0].Chans, Start: int64(1+gi*4)*vSlot + 900, Auth: 255,
			OpenAfterNS: int64(rapid.IntRange(0, 8).Draw(t, "iopen")) * int64(time.Millisecond),
			HoldNS:      int64(rapid.IntRange(1, 6).Draw(t, "ihold")) * int64(time.Millisecond)})
		wid++
	}
	if rapid.IntRange(0, 2).Draw(t, "virtual") == 0 {
		// virtual channels with writers whose control relation changes while they write
		for k := rapid.IntRange(1, 2).Draw(t, "nvirt"); k > 0; k-- {
			key := uint32(200 + k)
			c.Virtual = append(c.Virtual, key)
			allKeys = append(allKeys, key)
		}
		for k := rapid.IntRange(1, 3).Draw(t, "nvw"); k > 0; k-- {
			vw := c20VWriter{ID: wid, Auth: rapid.SampledFrom([]int{1, 2, 3, 255}).Draw(t, "vauth"),
				OpenAfterNS: int64(rapid.IntRange(0, 6).Draw(t, "vopen")) * int64(time.Millisecond),
				PaceNS:      int64(rapid.IntRange(0, 3).Draw(t, "vpace")) * int64(time.Millisecond)}
			for j := rapid.IntRange(1, 6).Draw(t, "vsteps"); j > 0; j-- {
				if rapid.IntRange(0, 4).Draw(t, "vk") == 0 {
					vw.Steps = append(vw.Steps, c20VStep{K: "auth", Auth: rapid.SampledFrom([]int{0, 1, 2, 3, 255}).Draw(t, "vnew")})
				} else {
					vw.Steps = append(vw.Steps, c20VStep{K: "write"})
				}
			}
			c.VWriters = append(c.VWriters, vw)
			wid++
		}
	}
	for si := rapid.IntRange(1, 3).Draw(t, "streamers"); si > 0; si-- {
		s := c20Streamer{ID: si, Buf: rapid.IntRange(0, 3).Draw(t, "buf")}
		pick := func(label string) []uint32 {
			var ks []uint32
			for _, k := range allKeys {
				if rapid.IntRange(0, 2).Draw(t, label) > 0 {
					ks = append(ks, k)
				}
			}
			return ks
		}
		s.Keys = pick("sk")
		if rapid.IntRange(0, 3).Draw(t, "slow") == 0 {
			s.SleepNS = int64(rapid.IntRange(1, 60).Draw(t, "sleepms")) * int64(time.Millisecond)
		}
		if rapid.IntRange(0, 1).Draw(t, "unstable") == 0 {
			for j := rapid.IntRange(0, 3).Draw(t, "nsub"); j > 0; j-- {
				s.Script = append(s.Script, c20SOp{K: "sub", Keys: pick("rk")})
			}
			if rapid.Bool().Draw(t, "disc") {
				s.Script = append(s.Script, c20SOp{K: "close"})
			}
		}
		c.Streamers = append(c.Streamers, s)
	}
	c.CloseDB = rapid.IntRange(0, 24).Draw(t, "closedb") == 0
	c.Sched = genSched(t)
	c.Seed = rapid.Uint64().Draw(t, "seed")
	return c
}

type c20Write struct {
	writer     int
	n          int
	ts         []int64
	keys       []uint32
	call, ret  int64
	authorized bool
	err        bool
	stream     bool
	virtual    bool
}

type c20Recv struct {
	streamer int
	at       int64
	keys     []uint32
	writeOf  map[uint32][2]int // key -> (writer, n)
}

// c20Ctl is a change of the control relation on the virtual channels: a writer opened
// (auth = its authority), changed its authority, or closed (auth = -1).
type c20Ctl struct {
	chans     []uint32
	writer    int
	kind      string
	auth      int
	call, ret int64
}

type c20Commit struct {
	end       int64
	failed    bool
	call, ret int64
}

type c20State struct {
	commits  map[int]c20Commit
	probeErr []string
	probeOK  int
	ctl      []c20Ctl
	mu       sync.Mutex
	seq      int64
	writes   []*c20Write
	recvs    []*c20Recv
	// subscription history per streamer: (stamp at send, keys)
	subs   map[int][]c20Sub
	closed map[int]int64
	// value -> (writer, write#) per channel
	val   map[uint32]map[string][2]int
	vseq  map[uint32]int
	fails []*drv.Failure
	// closes: writer id -> (call, return) stamps of its Close
	closes map[int][2]int64
}

func fmtGates[G any](m map[int]*G) string {
	ids := make([]int, 0, len(m))
	for id := range m {
		ids = append(ids, id)
	}
	sort.Ints(ids)
	var b strings.Builder
	for _, id := range ids {
		fmt.Fprintf(&b, "w%d:%+v ", id, *m[id])
	}
	return b.String()
}

type c20Sub struct {
	at   int64
	keys map[uint32]bool
	// eff: stamp from which the subscription is certainly in force (the request was
	// sent, the consumer is always ready, and the whole system has quiesced once since,
	// in a run without stall quanta); 0 = unknown
	eff int64
}

func (s *c20State) stamp() int64 {
	s.mu.Lock()
	defer s.mu.Unlock()
	s.seq++
	return s.seq
}

func keySet(ks []uint32) map[uint32]bool {
	m := map[uint32]bool{}
	for _, k := range ks {
		m[k] = true
	}
	return m
}

func runC20(t *testing.T, c c20Case, st *drv.Stats) (fail *drv.Failure) {
	vDeterminize(c.Seed)
	s := &c20State{commits: map[int]c20Commit{}, closes: map[int][2]int64{}, subs: map[int][]c20Sub{}, closed: map[int]int64{}, val: map[uint32]map[string][2]int{}, vseq: map[uint32]int{}}
	chans := map[uint32]vChan{}
	for _, ch := range c.Schema.Chans {
		chans[ch.Key] = ch
	}
	var traceHash uint64
	var steps int
	var idle time.Duration
	finalContent := map[uint32][]string{}
	abandoned := false
	func() {
		defer func() {
			if p := recover(); p != nil {
				msg := fmt.Sprint(p)
				if strings.Contains(msg, "deadlock") && (fail != nil || abandoned) {
					return
				}
				fail = drv.Failf("panic", drv_firstLine(msg), "panic: %v\n%s", p, stackTrim())
			}
		}()
		synctest.Test(t, func(t *testing.T) {
			r := newRun(st, c.Schema)
			if err := r.open(); err != nil {
				fail = drv.Failf("unexpected-error", "dbopen:"+errSig(err), "open: %v", err)
				return
			}
			if err := r.createChannels(); err != nil {
				fail = drv.Failf("unexpected-error", "create:"+errSig(err), "create channels: %v", err)
				return
			}
			for _, k := range c.Virtual {
				if err := r.db.CreateChannel(r.ctx, Channel{Key: ChannelKey(k), Name: "virt" + strconv.Itoa(int(k)), DataType: telem.Int64T, Virtual: true}); err != nil {
					fail = drv.Failf("unexpected-error", "create-virtual:"+errSig(err), "create virtual channel %d: %v", k, err)
					return
				}
				chans[k] = vChan{Key: k, DT: "int64"}
			}
			// phase A (sequential): open writers in id order (so open order is known) and
			// streamers; let the relay register every connection
			writers := map[int]*Writer{}
			for _, w := range c.Writers {
				cw, err := r.db.OpenWriter(r.ctx, WriterConfig{Start: telem.TimeStamp(w.Start), Channels: w.Chans, Sync: new(true),
					Mode: WriterMode(w.Mode), Authorities: []xcontrol.Authority{xcontrol.Authority(w.Auth)}, EnableAutoCommit: new(!w.NoAuto),
					ControlSubject: xcontrol.Subject{Key: "w" + strconv.Itoa(w.ID)}, AutoIndexPersistInterval: AlwaysIndexPersistOnAutoCommit})
				if err != nil {
					fail = drv.Failf("unexpected-error", "open:"+errSig(err), "open writer %d: %v", w.ID, err)
					return
				}
				writers[w.ID] = cw
			}
			type liveStreamer struct {
				in     confluence.Inlet[StreamerRequest]
				out    confluence.Outlet[StreamerResponse]
				sctx   signal.Context
				cancel func()
			}
			streamers := map[int]*liveStreamer{}
			for _, sp := range c.Streamers {
				sr, err := r.db.NewStreamer(r.ctx, StreamerConfig{Channels: sp.Keys})
				if err != nil {
					fail = drv.Failf("unexpected-error", "newstreamer:"+errSig(err), "new streamer: %v", err)
					return
				}
				in, out := confluence.Attach(sr, sp.Buf)
				sctx, cancel := signal.Isolated()
				sr.Flow(sctx, confluence.CloseOutputInletsOnExit())
				streamers[sp.ID] = &liveStreamer{in: in, out: out, sctx: sctx, cancel: cancel}
				s.subs[sp.ID] = []c20Sub{{at: 0, keys: keySet(sp.Keys)}}
			}
			synctest.Wait()
			r.core.Yields = true
			sc := sim.New(c.Sched, sim.NewChoices(c.Seed))
			if os.Getenv("VERIF_DEBUG") != "" {
				sc.KeepLog = 1 << 20
				defer func() {
					fmt.Println("DEBUG TRACE\n" + strings.Join(sc.Trace, "\n"))
					for _, w := range s.writes {
						fmt.Printf("DEBUG write w%d #%d ts=%v call=%d ret=%d auth=%v\n", w.writer, w.n, w.ts, w.call, w.ret, w.authorized)
					}
					for id, cm := range s.commits {
						fmt.Printf("DEBUG commit w%d %+v\n", id, cm)
					}
					for _, e := range s.ctl {
						fmt.Printf("DEBUG ctl %+v\n", e)
					}
					for _, rc := range s.recvs {
						fmt.Printf("DEBUG recv s%d at=%d %v\n", rc.streamer, rc.at, rc.writeOf)
					}
				}()
			}
			sim.Install(sc)
			tasks := sc.NewTasks()
			var phaseB sync.WaitGroup // writers + controllers (+ db closer)
			for _, w := range c.Writers {
				w := w
				phaseB.Add(1)
				tasks.Go("writer"+strconv.Itoa(w.ID), func() error {
					defer phaseB.Done()
					cw := writers[w.ID]
					for n, ts := range w.Frames {
						sim.Yield(sim.ClassTask, "writer"+strconv.Itoa(w.ID)+" write")
						keys := make([]ChannelKey, 0, len(w.Chans))
						series := make([]telem.Series, 0, len(w.Chans))
						s.mu.Lock()
						for _, k := range w.Chans {
							ch := chans[k]
							keys = append(keys, ChannelKey(k))
							if s.val[k] == nil {
								s.val[k] = map[string][2]int{}
							}
							if ch.IsIndex {
								series = append(series, vTSSeries(ts))
								for _, x := range ts {
									s.val[k][string(vTSBytes(x))] = [2]int{w.ID, n}
								}
								continue
							}
							vals := make([][]byte, 0, len(ts))
							for range ts {
								v := vValue(ch.DT, k, s.vseq[k])
								s.vseq[k]++
								s.val[k][string(v)] = [2]int{w.ID, n}
								vals = append(vals, v)
							}
							series = append(series, vSeries(ch.DT, vals))
						}
						s.mu.Unlock()
						wr := &c20Write{writer: w.ID, n: n, ts: ts, keys: w.Chans, stream: w.Mode != 2}
						wr.call = s.stamp()
						auth, err := cw.Write(telem.MultiFrame(keys, series))
						wr.ret = s.stamp()
						wr.authorized, wr.err = auth && err == nil, err != nil
						s.mu.Lock()
						s.writes = append(s.writes, wr)
						s.mu.Unlock()
						if err != nil {
							if c.CloseDB {
								return nil // the database was closed under the writer
							}
							s.mu.Lock()
							s.fails = append(s.fails, drv.Failf("unexpected-error", "write:"+errSig(err), "writer %d write %d: %v", w.ID, n, err))
							s.mu.Unlock()
							return nil
						}
						if w.PaceNS > 0 {
							time.Sleep(simrt.UniqueDur(time.Duration(w.PaceNS)))
						}
					}
					if w.NoAuto {
						sim.Yield(sim.ClassTask, "writer"+strconv.Itoa(w.ID)+" commit")
						cmc := s.stamp()
						end, err := cw.Commit()
						cmr := s.stamp()
						s.mu.Lock()
						s.commits[w.ID] = c20Commit{end: int64(end), failed: err != nil, call: cmc, ret: cmr}
						s.mu.Unlock()
						if err != nil && !c.CloseDB && !errors.Is(err, xcontrol.ErrUnauthorized) {
							s.mu.Lock()
							s.fails = append(s.fails, drv.Failf("unexpected-error", "commit:"+errSig(err), "writer %d commit: %v", w.ID, err))
							s.mu.Unlock()
							return nil
						}
					}
					sim.Yield(sim.ClassTask, "writer"+strconv.Itoa(w.ID)+" close")
					cc := s.stamp()
					err := cw.Close()
					cr := s.stamp()
					s.mu.Lock()
					s.closes[w.ID] = [2]int64{cc, cr}
					s.mu.Unlock()
					if err != nil && !c.CloseDB {
						s.mu.Lock()
						s.fails = append(s.fails, drv.Failf("unexpected-error", "wclose:"+errSig(err), "writer %d close: %v", w.ID, err))
						s.mu.Unlock()
					}
					return nil
				})
			}
			for _, il := range c.Interlopers {
				il := il
				phaseB.Add(1)
				tasks.Go("interloper"+strconv.Itoa(il.ID), func() error {
					defer phaseB.Done()
					if il.OpenAfterNS > 0 {
						time.Sleep(simrt.UniqueDur(time.Duration(il.OpenAfterNS)))
					}
					sim.Yield(sim.ClassTask, "interloper"+strconv.Itoa(il.ID)+" open")
					oc := s.stamp()
					cw, err := r.db.OpenWriter(r.ctx, WriterConfig{Start: telem.TimeStamp(il.Start), Channels: il.Chans, Sync: new(true),
						Authorities: []xcontrol.Authority{xcontrol.Authority(il.Auth)}, ControlSubject: xcontrol.Subject{Key: "w" + strconv.Itoa(il.ID)}})
					or := s.stamp()
					if err != nil {
						if !c.CloseDB {
							s.mu.Lock()
							s.fails = append(s.fails, drv.Failf("unexpected-error", "interloper-open:"+errSig(err), "interloper %d open: %v", il.ID, err))
							s.mu.Unlock()
						}
						return nil
					}
					s.mu.Lock()
					s.ctl = append(s.ctl, c20Ctl{chans: il.Chans, writer: il.ID, kind: "open", auth: il.Auth, call: oc, ret: or})
					s.mu.Unlock()
					time.Sleep(simrt.UniqueDur(time.Duration(il.HoldNS)))
					sim.Yield(sim.ClassTask, "interloper"+strconv.Itoa(il.ID)+" close")
					cc := s.stamp()
					err = cw.Close()
					cr := s.stamp()
					s.mu.Lock()
					s.ctl = append(s.ctl, c20Ctl{chans: il.Chans, writer: il.ID, kind: "close", auth: -1, call: cc, ret: cr})
					s.closes[il.ID] = [2]int64{cc, cr}
					s.mu.Unlock()
					if err != nil && !c.CloseDB {
						s.mu.Lock()
						s.fails = append(s.fails, drv.Failf("unexpected-error", "interloper-close:"+errSig(err), "interloper %d close: %v", il.ID, err))
						s.mu.Unlock()
					}
					st.Probe("interloper_took_and_released_control")
					return nil
				})
			}
			for _, vw := range c.VWriters {
				vw := vw
				phaseB.Add(1)
				tasks.Go("vwriter"+strconv.Itoa(vw.ID), func() error {
					defer phaseB.Done()
					note := func(kind string, auth int, call, ret int64) {
						s.mu.Lock()
						s.ctl = append(s.ctl, c20Ctl{chans: c.Virtual, writer: vw.ID, kind: kind, auth: auth, call: call, ret: ret})
						s.mu.Unlock()
					}
					bad := func(what string, err error) error {
						if !c.CloseDB {
							s.mu.Lock()
							s.fails = append(s.fails, drv.Failf("unexpected-error", what+":"+errSig(err), "virtual writer %d %s: %v", vw.ID, what, err))
							s.mu.Unlock()
						}
						return nil
					}
					if vw.OpenAfterNS > 0 {
						time.Sleep(simrt.UniqueDur(time.Duration(vw.OpenAfterNS)))
					}
					sim.Yield(sim.ClassTask, "vwriter"+strconv.Itoa(vw.ID)+" open")
					oc := s.stamp()
					cw, err := r.db.OpenWriter(r.ctx, WriterConfig{Start: telem.TimeStamp(1), Channels: c.Virtual, Sync: new(true),
						Mode: WriterModeStreamOnly, Authorities: []xcontrol.Authority{xcontrol.Authority(vw.Auth)},
						ControlSubject: xcontrol.Subject{Key: "w" + strconv.Itoa(vw.ID)}})
					or := s.stamp()
					if err != nil {
						return bad("open", err)
					}
					note("open", vw.Auth, oc, or)
					n := 0
					for _, step := range vw.Steps {
						sim.Yield(sim.ClassTask, "vwriter"+strconv.Itoa(vw.ID)+" "+step.K)
						if step.K == "auth" {
							ac := s.stamp()
							err := cw.SetAuthority(WriterConfig{Authorities: []xcontrol.Authority{xcontrol.Authority(step.Auth)}})
							ar := s.stamp()
							if err != nil {
								return bad("set-authority", err)
							}
							note("auth", step.Auth, ac, ar)
						} else {
							keys := make([]ChannelKey, 0, len(c.Virtual))
							series := make([]telem.Series, 0, len(c.Virtual))
							s.mu.Lock()
							for _, k := range c.Virtual {
								if s.val[k] == nil {
									s.val[k] = map[string][2]int{}
								}
								v := vValue("int64", k, s.vseq[k])
								s.vseq[k]++
								s.val[k][string(v)] = [2]int{vw.ID, n}
								keys = append(keys, ChannelKey(k))
								series = append(series, vSeries("int64", [][]byte{v}))
							}
							s.mu.Unlock()
							wr := &c20Write{writer: vw.ID, n: n, keys: c.Virtual, stream: true, virtual: true}
							wr.call = s.stamp()
							auth, err := cw.Write(telem.MultiFrame(keys, series))
							wr.ret = s.stamp()
							wr.authorized, wr.err = auth && err == nil, err != nil
							s.mu.Lock()
							s.writes = append(s.writes, wr)
							s.mu.Unlock()
							n++
							if err != nil {
								return bad("write", err)
							}
						}
						if vw.PaceNS > 0 {
							time.Sleep(simrt.UniqueDur(time.Duration(vw.PaceNS)))
						}
					}
					sim.Yield(sim.ClassTask, "vwriter"+strconv.Itoa(vw.ID)+" close")
					cc := s.stamp()
					err = cw.Close()
					cr := s.stamp()
					note("close", -1, cc, cr)
					s.mu.Lock()
					s.closes[vw.ID] = [2]int64{cc, cr}
					s.mu.Unlock()
					if err != nil {
						return bad("close", err)
					}
					return nil
				})
			}
			consumersDone := 0
			for _, sp := range c.Streamers {
				sp := sp
				ls := streamers[sp.ID]
				tasks.Go("consumer"+strconv.Itoa(sp.ID), func() error {
					defer func() { s.mu.Lock(); consumersDone++; s.mu.Unlock() }()
					for res := range ls.out.Outlet() {
						rc := &c20Recv{streamer: sp.ID, at: s.stamp(), writeOf: map[uint32][2]int{}}
						for k, ser := range res.Frame.Entries() {
							rc.keys = append(rc.keys, uint32(k))
							for v := range ser.Samples() {
								s.mu.Lock()
								wn, ok := s.val[uint32(k)][string(v)]
								s.mu.Unlock()
								if !ok {
									s.mu.Lock()
									s.fails = append(s.fails, drv.Failf("stream-unknown-value", dtClass(chans[uint32(k)]), "streamer %d received value %x on channel %d that no writer wrote", sp.ID, v, k))
									s.mu.Unlock()
									continue
								}
								rc.writeOf[uint32(k)] = wn
							}
						}
						s.mu.Lock()
						s.recvs = append(s.recvs, rc)
						s.mu.Unlock()
						if sp.SleepNS > 0 {
							time.Sleep(simrt.UniqueDur(time.Duration(sp.SleepNS)))
						}
						sim.Yield(sim.ClassTask, "consumer"+strconv.Itoa(sp.ID)+" next")
					}
					return nil
				})
				if len(sp.Script) > 0 {
					if !c.CloseDB {
						phaseB.Add(1)
					}
					tasks.Go("controller"+strconv.Itoa(sp.ID), func() error {
						if !c.CloseDB {
							defer phaseB.Done()
						}
						for _, op := range sp.Script {
							sim.Yield(sim.ClassTask, "controller"+strconv.Itoa(sp.ID)+" "+op.K)
							switch op.K {
							case "sub":
								at := s.stamp()
								s.mu.Lock()
								s.subs[sp.ID] = append(s.subs[sp.ID], c20Sub{at: at, keys: keySet(op.Keys)})
								s.mu.Unlock()
								ls.in.Inlet() <- StreamerRequest{Channels: op.Keys}
								if sp.SleepNS == 0 && c.Sched.StallInv == 0 {
									// virtual time only advances once every goroutine is
									// blocked on something real, so the streamer has taken
									// the request by the time this sleep returns
									idx := len(s.subs[sp.ID]) - 1
									time.Sleep(simrt.UniqueDur(time.Millisecond))
									e := s.stamp()
									s.mu.Lock()
									s.subs[sp.ID][idx].eff = e
									s.mu.Unlock()
								}
							case "close":
								s.mu.Lock()
								s.closed[sp.ID] = s.seq
								s.mu.Unlock()
								ls.in.Close()
								_ = ls.sctx.Wait()
							}
						}
						return nil
					})
				}
			}
			if c.CloseDB {
				phaseB.Add(1)
				tasks.Go("dbclose", func() error {
					defer phaseB.Done()
					sim.Yield(sim.ClassTask, "dbclose")
					_ = r.db.Close()
					return nil
				})
			}
			var bDone atomic.Bool
			go func() { phaseB.Wait(); bDone.Store(true) }()
			err := sc.Run(func() bool { return bDone.Load() })
			if err == nil && c.CloseDB {
				// The statement is about writers: they and the close have returned.
				// Disconnecting a streamer after the relay has shut down blocks for ever
				// (relay.connect's disconnect sends on an unbuffered channel nobody
				// reads any more), so streamers are abandoned here, not waited for.
				abandoned = true
				st.Probe("db_closed_under_writers")
				traceHash, steps, idle = sc.Hash(), sc.Steps, sc.Idle
				st.AddSteps(sc.Steps)
				sc.Abort()
				sim.Uninstall()
				r.core.Yields = false
				return
			}
			if err == nil {
				// The relay delivers asynchronously (a frame queued behind a slow
				// consumer waits for that consumer's timeout), so let virtual time pass
				// before disconnecting: long enough for every queued frame to be
				// delivered or timed out for every connected streamer.
				nframes := 0
				for _, w := range c.Writers {
					nframes += len(w.Frames)
				}
				for _, vw := range c.VWriters {
					nframes += len(vw.Steps)
				}
				flush := time.Duration(nframes*len(c.Streamers))*25*time.Millisecond + time.Second
				for _, sp := range c.Streamers {
					flush += time.Duration(sp.SleepNS) * time.Duration(nframes+1)
				}
				until := time.Now().Add(flush)
				err = sc.Run(func() bool { return time.Now().After(until) })
			}
			if err == nil {
				// phase C: close the streamers that are still connected; consumers drain
				sim.Uninstall()
				r.core.Yields = false
				synctest.Wait()
				for _, sp := range c.Streamers {
					if _, was := s.closed[sp.ID]; !was {
						s.closed[sp.ID] = s.stamp()
						streamers[sp.ID].in.Close()
					}
				}
				sim.Install(sc)
				err = sc.Run(func() bool {
					s.mu.Lock()
					defer s.mu.Unlock()
					return consumersDone == len(c.Streamers)
				})
			}
			traceHash, steps, idle = sc.Hash(), sc.Steps, sc.Idle
			st.AddSteps(sc.Steps)
			st.AddVirtual(sc.Idle)
			for cl, n := range sc.ByClass {
				st.ProbeN("yield_"+cl.String(), n)
			}
			if sc.Stalls > 0 {
				st.FaultN("stall_quantum", sc.Stalls)
			}
			if err != nil {
				switch e := err.(type) {
				case *sim.ErrDeadlock:
					fail = drv.Failf("deadlock", "stream:"+stackSig(e.Stacks), "deadlock/stall after %d scheduler steps: a writer, streamer or close never returned\n%s", sc.Steps, trimTo(e.Stacks, 40000))
				case *sim.ErrSteps:
					st.Inconcl("step_budget_exceeded")
				}
				sc.Abort()
				sim.Uninstall()
				r.core.Yields = false
				return
			}
			sim.Uninstall()
			r.core.Yields = false
			for _, e := range tasks.Errors {
				fail = drv.Failf("panic", "task:"+drv_firstLine(e), "%s", e)
				return
			}
			// C05 write path: persisted content = authorized writes of persisting writers
			if !c.CloseDB {
				for _, ch := range c.Schema.Chans {
					fr, err := r.db.Read(r.ctx, telem.TimeRangeMax, ChannelKey(ch.Key))
					if err != nil {
						fail = drv.Failf("unexpected-error", "read:"+errSig(err), "final read ch %d: %v", ch.Key, err)
						return
					}
					for _, v := range decodeVals(fr.Get(ChannelKey(ch.Key))) {
						finalContent[ch.Key] = append(finalContent[ch.Key], string(v))
					}
				}
				// unauthorized writes have no effect: right after the last authorized
				// sample of a group the time axis is still free, whatever was refused
				for _, w0 := range c.Writers {
					if w0.Mode == 3 {
						continue
					}
					last, refusedLater := int64(-1), false
					s.mu.Lock()
					for _, w := range s.writes {
						if w.writer != w0.ID || len(w.ts) == 0 {
							continue
						}
						if w.authorized && w.ts[len(w.ts)-1] > last {
							last = w.ts[len(w.ts)-1]
						}
					}
					for _, w := range s.writes {
						if w.writer == w0.ID && len(w.ts) > 0 && !w.authorized && w.ts[0] > last {
							refusedLater = true
						}
					}
					s.mu.Unlock()
					if last < 0 || !refusedLater {
						continue
					}
					// only the group's own writer wrote to it, so the probe abuts its data
					shared := false
					for _, w1 := range c.Writers {
						if w1.ID != w0.ID && w1.Chans[0] == w0.Chans[0] {
							shared = true
						}
					}
					if shared {
						continue
					}
					err := func() error {
						pw, err := r.db.OpenWriter(r.ctx, WriterConfig{Start: telem.TimeStamp(last + 1), Channels: []ChannelKey{ChannelKey(w0.Chans[0])}, Sync: new(true),
							ControlSubject: xcontrol.Subject{Key: "probe" + strconv.Itoa(w0.ID)}})
						if err != nil {
							return err
						}
						_, err = pw.Write(telem.MultiFrame([]ChannelKey{ChannelKey(w0.Chans[0])}, []telem.Series{vTSSeries([]int64{last + 1})}))
						if err == nil {
							_, err = pw.Commit()
						}
						if cerr := pw.Close(); err == nil {
							err = cerr
						}
						return err
					}()
					s.mu.Lock()
					if err != nil {
						s.probeErr = append(s.probeErr, fmt.Sprintf("writer %d's index channel %d: a write at %d, right after its last authorized sample %d, is refused although everything later was reported unauthorized: %v", w0.ID, w0.Chans[0], last+1, last, err))
					} else {
						s.probeOK++
					}
					s.mu.Unlock()
				}
				if err := r.db.Close(); err != nil {
					fail = drv.Failf("unexpected-error", "dbclose:"+errSig(err), "db close: %v", err)
					return
				}
			}
			synctest.Wait()
		})
	}()
	if fail != nil {
		fail.TraceHash = strconv.FormatUint(traceHash, 16)
		return fail
	}
	if len(s.fails) > 0 {
		return s.fails[0]
	}
	if abandoned {
		st.Case(traceHash, steps >= 40)
		return nil
	}
	// ---- oracles over the recorded history ------------------------------------------------
	wmap := map[[2]int]*c20Write{}
	for _, w := range s.writes {
		wmap[[2]int{w.writer, w.n}] = w
	}
	mode := map[int]int{}
	for _, vw := range c.VWriters {
		mode[vw.ID] = 3
	}
	for _, w := range c.Writers {
		mode[w.ID] = w.Mode
	}
	chansOfWriter := map[int][]uint32{}
	for _, w := range c.Writers {
		chansOfWriter[w.ID] = w.Chans
	}
	for _, vw := range c.VWriters {
		chansOfWriter[vw.ID] = c.Virtual
	}
	for _, il := range c.Interlopers {
		chansOfWriter[il.ID] = il.Chans
	}
	duringHandoff := func(w *c20Write) bool {
		for other, iv := range s.closes {
			if other == w.writer {
				continue
			}
			shares := false
			for _, a := range chansOfWriter[other] {
				for _, b := range w.keys {
					if a == b {
						shares = true
					}
				}
			}
			if shares && w.call <= iv[1] && iv[0] <= w.ret {
				return true
			}
		}
		// on the virtual channels control also moves when another writer opens or
		// changes its authority (channel by channel, like a close)
		for _, e := range s.ctl {
			shares := false
			for _, a := range e.chans {
				for _, b := range w.keys {
					shares = shares || a == b
				}
			}
			if shares && e.writer != w.writer && w.call <= e.ret && e.call <= w.ret {
				return true
			}
		}
		return false
	}
	lastSeen := map[[2]int]int{} // (streamer, writer) -> last write#
	got := map[int]map[[2]int]bool{}
	for _, rc := range s.recvs {
		if got[rc.streamer] == nil {
			got[rc.streamer] = map[[2]int]bool{}
		}
		var wn *[2]int
		for _, k := range rc.keys {
			x, ok := rc.writeOf[k]
			if !ok {
				continue // empty series
			}
			if wn != nil && *wn != x {
				return drv.Failf("stream-mixed-frame", "mixed", "streamer %d received one frame mixing write %v and write %v", rc.streamer, *wn, x)
			}
			wn = &x
			// filter: the key must have been subscribed at some point up to the receipt
			okKey := false
			for _, sub := range s.subs[rc.streamer] {
				if sub.at <= rc.at && sub.keys[k] {
					okKey = true
				}
			}
			if !okKey {
				return drv.Failf("stream-filter", dtClass(chansOf(c.Schema)[k]), "streamer %d received a series for channel %d which it never subscribed to up to that moment (subscriptions: %v)", rc.streamer, k, s.subs[rc.streamer])
			}
			// currently subscribed channels only: a write that began after a
			// re-subscription was certainly in force is filtered by that subscription
			// or a later one
			if w := wmap[x]; w != nil {
				subs := s.subs[rc.streamer]
				from := -1
				for si, sub := range subs {
					if sub.eff != 0 && sub.eff < w.call {
						from = si
					}
				}
				if from >= 0 {
					cur := false
					for _, sub := range subs[from:] {
						if sub.at <= rc.at && sub.keys[k] {
							cur = true
						}
					}
					if !cur {
						return drv.Failf("stream-filter", "stale-subscription:"+dtClass(chansOf(c.Schema)[k]), "streamer %d received channel %d from a write that began (stamp %d) after its re-subscription to %v was in force (stamp %d); later subscriptions do not contain the channel either", rc.streamer, k, w.call, subs[from].keys, subs[from].eff)
					}
					st.Probe("resubscription_in_force_checked")
				}
			}
		}
		if wn == nil {
			continue
		}
		w := wmap[*wn]
		if w == nil {
			continue
		}
		if !w.authorized {
			// Control is per channel and a writer's close releases its channels one
			// after the other, so a contender's write that lands inside that close can
			// be authorized on some of its channels only; it is then reported
			// unauthorized as a whole although part of it took effect (recorded known
			// finding). Anything else relayed from an unauthorized write is a violation.
			got := 0
			for _, k := range rc.keys {
				if _, ok := rc.writeOf[k]; ok {
					got++
				}
			}
			if duringHandoff(w) {
				st.Probe("partial_authorization_during_handoff")
				return drv.Failf("stream-unauthorized", "partial-authorization-during-handoff", "streamer %d received %d of the %d channels of write %d of writer %d, which was reported unauthorized; the write overlapped a change of control by another writer (close, open or authority change)", rc.streamer, got, len(w.keys), w.n, w.writer)
			}
			return drv.Failf("stream-unauthorized", "relayed-unauthorized-write", "streamer %d received write %d of writer %d, which was reported unauthorized", rc.streamer, w.n, w.writer)
		}
		if mode[w.writer] == 2 {
			return drv.Failf("stream-persist-only", "relayed-persist-only-write", "streamer %d received write %d of persist-only writer %d", rc.streamer, w.n, w.writer)
		}
		key := [2]int{rc.streamer, w.writer}
		if last, seen := lastSeen[key]; seen && w.n <= last {
			cls := "reordered"
			if w.n == last {
				cls = "duplicate"
			}
			return drv.Failf("stream-order", cls, "streamer %d received write %d of writer %d after write %d (%s)", rc.streamer, w.n, w.writer, last, cls)
		}
		lastSeen[key] = w.n
		got[rc.streamer][*wn] = true
	}
	// completeness for stable, always-ready streamers (no stall quanta: virtual time then
	// only advances when the consumer is genuinely blocked waiting for a frame)
	if !c.CloseDB && c.Sched.StallInv == 0 {
		for _, sp := range c.Streamers {
			if sp.SleepNS > 0 || len(sp.Script) > 0 {
				continue
			}
			sub := keySet(sp.Keys)
			for _, w := range s.writes {
				if !w.authorized || !w.stream {
					continue
				}
				wants := false
				for _, k := range w.keys {
					if sub[k] {
						wants = true
					}
				}
				if wants && !got[sp.ID][[2]int{w.writer, w.n}] {
					return drv.Failf("stream-incomplete", "always-ready-streamer-missed-frame", "streamer %d (stable subscription %v, always ready) never received write %d of writer %d (ts %v)", sp.ID, sp.Keys, w.n, w.writer, w.ts)
				}
			}
			st.Probe("completeness_checked")
		}
	}
	// C05 write path: what was persisted is exactly what was reported authorized
	if !c.CloseDB {
		// writers without auto-commit persist what they were authorized to write only
		// through their final commit: judged when that commit succeeded away from any
		// change of control, and its reported end must not lie beyond the last
		// authorized sample
		skipChan := map[uint32]bool{}
		for _, w0 := range c.Writers {
			if !w0.NoAuto {
				continue
			}
			cm, ok := s.commits[w0.ID]
			probe := &c20Write{writer: w0.ID, keys: w0.Chans, call: cm.call, ret: cm.ret}
			// Writer.Commit does not say whether the commit was authorized; an end of 0
			// means it was not (or there was nothing to commit)
			if !ok || cm.failed || cm.end == 0 || duringHandoff(probe) {
				for _, k := range w0.Chans {
					skipChan[k] = true
				}
				st.Probe("manual_commit_unjudged")
				continue
			}
			last := int64(-1)
			for _, w := range s.writes {
				if w.writer == w0.ID && w.authorized && len(w.ts) > 0 && w.ts[len(w.ts)-1] > last {
					last = w.ts[len(w.ts)-1]
				}
			}
			if last >= 0 && cm.end > last+1 {
				return drv.Failf("unauthorized-write-left-a-trace", "commit-end-beyond-last-authorized-sample", "writer %d (auto-commit off) committed up to %d but its last authorized sample is %d: the end comes from a write that was reported unauthorized", w0.ID, cm.end, last)
			}
			st.Probe("manual_commit_checked")
		}
		manual := map[uint32]int{} // channel -> id of its auto-commit-off writer
		lastRefused := map[int]int{}
		for _, w0 := range c.Writers {
			if w0.NoAuto {
				for _, k := range w0.Chans {
					manual[k] = w0.ID
				}
				lastRefused[w0.ID] = -1
			}
		}
		for _, w := range s.writes {
			if _, ok := lastRefused[w.writer]; ok && !w.authorized && w.n > lastRefused[w.writer] {
				lastRefused[w.writer] = w.n
			}
		}
		for _, ch := range c.Schema.Chans {
			if skipChan[ch.Key] {
				continue
			}
			if wid, ok := manual[ch.Key]; ok {
				// A refused write abandons what the writer had accepted but not yet
				// committed (idxWriter resets its pending state so that no stale range is
				// committed after a transfer). So with auto-commit off: everything stored
				// comes from an authorized write, and every authorized write after the
				// last refused one is stored by the final commit.
				have := map[string]bool{}
				for _, v := range finalContent[ch.Key] {
					have[v] = true
					w := wmap[s.val[ch.Key][v]]
					if w != nil && !w.authorized && duringHandoff(w) {
						st.Probe("partial_authorization_during_handoff")
						return drv.Failf("persisted-vs-authorized", "partial-authorization-during-handoff:"+dtClass(ch), "channel %d holds samples of a write that was reported unauthorized; the write overlapped a change of control by another writer (per-channel handoff)", ch.Key)
					}
					if w == nil || !w.authorized {
						return drv.Failf("persisted-vs-authorized", "manual-commit:stored-unauthorized:"+dtClass(ch), "channel %d stores a value of a write that was reported unauthorized (writer %d, auto-commit off)", ch.Key, wid)
					}
				}
				for v, wn := range s.val[ch.Key] {
					w := wmap[wn]
					if w != nil && w.authorized && w.writer == wid && w.n > lastRefused[wid] && mode[wid] != 3 && !have[v] {
						return drv.Failf("persisted-vs-authorized", "manual-commit:authorized-write-missing:"+dtClass(ch), "channel %d lacks write %d of writer %d (auto-commit off), which was authorized, came after its last refused write %d and was followed by a successful commit", ch.Key, w.n, wid, lastRefused[wid])
					}
				}
				st.Probe("manual_commit_content_checked")
				continue
			}
			var want []string
			type wv struct {
				ts int64
				v  string
			}
			var all []wv
			for v, wn := range s.val[ch.Key] {
				w := wmap[wn]
				if w == nil || !w.authorized || mode[w.writer] == 3 {
					continue
				}
				// timestamp of this value: position inside the write
				all = append(all, wv{ts: tsOfValue(ch, w, v, s), v: v})
			}
			sort.Slice(all, func(i, j int) bool { return all[i].ts < all[j].ts })
			for _, x := range all {
				want = append(want, x.v)
			}
			if !sameVals(want, finalContent[ch.Key]) {
				// is every surplus value from an unauthorized write that overlapped a handoff?
				wantSet := map[string]bool{}
				for _, v := range want {
					wantSet[v] = true
				}
				onlyHandoff, missing := true, false
				have := map[string]bool{}
				for _, v := range finalContent[ch.Key] {
					have[v] = true
					if wantSet[v] {
						continue
					}
					w := wmap[s.val[ch.Key][v]]
					if w == nil || w.authorized || !duringHandoff(w) {
						onlyHandoff = false
					}
				}
				for _, v := range want {
					if !have[v] {
						missing = true
					}
				}
				if onlyHandoff && !missing {
					st.Probe("partial_authorization_during_handoff")
					return drv.Failf("persisted-vs-authorized", "partial-authorization-during-handoff:"+dtClass(ch), "channel %d holds samples of a write that was reported unauthorized; the write overlapped the close of the previous controller (per-channel handoff)", ch.Key)
				}
				return drv.Failf("persisted-vs-authorized", dtClass(ch), "channel %d holds %d samples but the writes reported authorized by persisting writers amount to %d", ch.Key, len(finalContent[ch.Key]), len(want))
			}
		}
		st.Probe("persisted_equals_authorized")
	}
	if len(s.probeErr) > 0 {
		return drv.Failf("unauthorized-write-left-a-trace", "time-range-after-last-authorized-sample-occupied", "%s", s.probeErr[0])
	}
	if s.probeOK > 0 {
		st.ProbeN("refused_tail_leaves_time_axis_free", s.probeOK)
	}
	// control on the virtual channels (write-path clause of C05): a write whose whole
	// duration lies between two changes of the control relation is authorized iff its
	// writer holds the highest authority among the gates open throughout it
	for _, w := range s.writes {
		if !w.virtual || w.err {
			continue
		}
		type gate struct {
			auth   int
			opened int64
		}
		gates := map[int]*gate{}
		ambiguous := false
		var evs []c20Ctl
		for _, e := range s.ctl {
			if len(e.chans) > 0 && len(c.Virtual) > 0 && e.chans[0] == c.Virtual[0] {
				evs = append(evs, e)
			}
		}
		sort.Slice(evs, func(i, j int) bool { return evs[i].ret < evs[j].ret })
		for _, e := range evs {
			switch {
			case e.ret < w.call:
				switch e.kind {
				case "open":
					gates[e.writer] = &gate{auth: e.auth, opened: e.ret}
				case "auth":
					if g := gates[e.writer]; g != nil {
						g.auth = e.auth
					}
				case "close":
					delete(gates, e.writer)
				}
			case e.call > w.ret:
			default:
				ambiguous = true
			}
		}
		if ambiguous || gates[w.writer] == nil {
			st.Probe("virtual_write_during_control_change_unjudged")
			continue
		}
		// virtual channels are controlled in shared mode (virtual/db.go): every gate
		// whose authority equals the highest open authority is authorized
		ctl := -1
		for id, g := range gates {
			if ctl < 0 || g.auth > gates[ctl].auth || (g.auth == gates[ctl].auth && g.opened < gates[ctl].opened) {
				ctl = id
			}
		}
		want := gates[w.writer].auth == gates[ctl].auth
		if want != w.authorized {
			sig := "authorized-without-control"
			if want {
				sig = "refused-while-in-control"
			}
			return drv.Failf("write-vs-control-model", sig, "virtual writer %d write %d (stamps %d-%d) was reported authorized=%v, but with the gates open throughout it %v the highest authority is writer %d's (shared control: authorized iff equal to it)", w.writer, w.n, w.call, w.ret, w.authorized, fmtGates(gates), ctl)
		}
		st.Probe("virtual_write_vs_control_model_checked")
		if !want {
			st.Probe("virtual_write_after_losing_control")
		}
	}
	// liveness in virtual time: idle time is bounded by the slow-consumer budget
	frames := len(s.writes)
	budget := 2*time.Duration(frames*len(c.Streamers))*25*time.Millisecond + 7*time.Second
	for _, sp := range c.Streamers {
		budget += 2 * time.Duration(sp.SleepNS) * time.Duration(frames+1)
	}
	for _, w := range c.Writers {
		budget += time.Duration(w.PaceNS) * time.Duration(len(w.Frames)+1)
	}
	for _, vw := range c.VWriters {
		budget += time.Duration(vw.OpenAfterNS) + time.Duration(vw.PaceNS)*time.Duration(len(vw.Steps)+1)
	}
	for _, il := range c.Interlopers {
		budget += time.Duration(il.OpenAfterNS + il.HoldNS)
	}
	if idle > budget {
		return drv.Failf("stream-liveness", "virtual-time-budget", "the run needed %v of virtual idle time, more than the slow-consumer budget %v for %d frames and %d streamers", idle, budget, frames, len(c.Streamers))
	}
	unauth := 0
	for _, w := range s.writes {
		if !w.authorized && !w.err {
			unauth++
		}
	}
	if unauth > 0 {
		st.Probe("unauthorized_write_observed")
	}
	if len(s.recvs) > 0 {
		st.Probe("frames_received")
	}
	for _, sp := range c.Streamers {
		if len(sp.Script) > 0 {
			st.Probe("resubscribe_or_disconnect_during_writes")
		}
		if sp.SleepNS > 0 {
			st.Probe("slow_consumer")
		}
	}
	if c.CloseDB {
		st.Probe("db_closed_under_writers")
	}
	st.Case(traceHash, steps >= 40)
	return nil
}

func chansOf(s vSchema) map[uint32]vChan {
	m := map[uint32]vChan{}
	for _, c := range s.Chans {
		m[c.Key] = c
	}
	return m
}

// tsOfValue recovers the timestamp a value was written at: values of a write are
// generated in timestamp order, so the value's rank among the write's values of that
// channel is its position in the write.
func tsOfValue(ch vChan, w *c20Write, v string, s *c20State) int64 {
	if ch.IsIndex {
		if len(v) == 8 {
			var x int64
			for i := 7; i >= 0; i-- {
				x = x<<8 | int64(v[i])
			}
			return x
		}
		return 0
	}
	// collect this write's values for the channel in generation order
	var mine []string
	for val, wn := range s.val[ch.Key] {
		if wn == [2]int{w.writer, w.n} {
			mine = append(mine, val)
		}
	}
	sort.Slice(mine, func(i, j int) bool { return valSeq(ch, mine[i]) < valSeq(ch, mine[j]) })
	for i, val := range mine {
		if val == v && i < len(w.ts) {
			return w.ts[i]
		}
	}
	return 0
}

// valSeq extracts the per-channel sequence number encoded in a generated value.
func valSeq(ch vChan, v string) int {
	switch ch.DT {
	case "string":
		// s<key>-<seq>xxx
		i := strings.IndexByte(v, '-')
		j := strings.IndexByte(v[i+1:], 'x')
		if j < 0 {
			j = len(v) - i - 1
		}
		n, _ := strconv.Atoi(v[i+1 : i+1+j])
		return n
	case "json":
		i := strings.Index(v, `"n":`)
		n, _ := strconv.Atoi(strings.TrimSuffix(v[i+4:], "}"))
		return n
	case "bytes":
		if len(v) == 0 {
			return 4
		}
		return int(v[0])
	}
	x := 0
	for i := len(v) - 1; i >= 0; i-- {
		x = x<<8 | int(v[i])
	}
	return x & 0xffffff
}
