package cesium

// Injected by /verif via `go test -overlay`; never part of the repository.
// C09: concurrent use of one database is race-free, deadlock-free and equivalent to a
// serial order. Several tasks (writers on their own index groups, readers, time-range
// deleters, garbage collection, channel create/delete) run as goroutines whose every
// synchronisation point (instrumented locks, atomics, channel operations, simulated FS
// calls, task steps) is a decision of the seeded scheduler. The recorded history is
// checked per channel for linearizability (porcupine) against a set-of-timestamps model;
// the same harness is built with -race for the data-race clause.

import (
	"encoding/binary"
	"fmt"
	"os"
	"runtime"
	"sort"
	"strconv"
	"strings"
	"sync"
	"testing"
	"testing/synctest"
	"time"

	"github.com/anishathalye/porcupine"
	"github.com/synnaxlabs/x/telem"
	"pgregory.net/rapid"
	"verifsim/drv"
	"verifsim/hist"
	"verifsim/sim"
)

var c09TraceN int

type c09Task struct {
	Name string `json:"name"`
	Ops  []vOp  `json:"ops"`
}

type c09Case struct {
	Schema vSchema    `json:"schema"`
	Pre    []vOp      `json:"pre"`
	Tasks  []c09Task  `json:"tasks"`
	Sched  sim.Config `json:"sched"`
	Seed   uint64     `json:"seed"`
}

func genSched(t *rapid.T) sim.Config {
	var c sim.Config
	switch rapid.IntRange(0, 5).Draw(t, "strat") {
	case 0, 1:
		c.Strategy = sim.StratRandom
	case 2, 3:
		c.Strategy = sim.StratSticky
		c.SwitchInv = rapid.IntRange(2, 30).Draw(t, "switch")
	default:
		c.Strategy = sim.StratPCT
		c.PCTDepth = rapid.IntRange(1, 3).Draw(t, "pctd")
		c.PCTSteps = rapid.IntRange(50, 2000).Draw(t, "pcts")
	}
	c.Classes = sim.ClassAll
	if rapid.IntRange(0, 2).Draw(t, "subset") == 0 {
		c.Classes = sim.ClassTask | sim.Class(rapid.IntRange(0, 63).Draw(t, "classes"))
	}
	c.ShuffleMaps = rapid.Bool().Draw(t, "shufflemaps")
	if rapid.IntRange(0, 5).Draw(t, "stall") == 0 {
		c.StallInv = rapid.IntRange(20, 200).Draw(t, "stallinv")
	}
	c.MaxSteps = 60000
	c.HorizonNS = int64(90 * time.Second)
	return c
}

func genC09(t *rapid.T) c09Case {
	var c c09Case
	o := genOpts{MaxGroups: 3, MaxDataPerGroup: 2}
	c.Schema = genSchema(t, o)
	if rapid.IntRange(0, 1).Draw(t, "gcth") == 0 {
		c.Schema.GCThresh = 0.0000001
	}
	type grp struct {
		idx  uint32
		data []uint32
		pre  []int64
	}
	var groups []*grp
	for _, ch := range c.Schema.Chans {
		if ch.IsIndex {
			groups = append(groups, &grp{idx: ch.Key})
		} else {
			g := groups[len(groups)-1]
			g.data = append(g.data, ch.Key)
		}
	}
	stamps := func(start int64, label string) []int64 {
		n := rapid.IntRange(1, 5).Draw(t, label+"_n")
		ts := make([]int64, 0, n)
		cur := start
		for i := 0; i < n; i++ {
			ts = append(ts, cur)
			cur += int64(rapid.IntRange(1, 9).Draw(t, label+"_d"))
		}
		return ts
	}
	wid := 0
	// preload: committed, closed data in slots 1..4 so deletes, GC and reads have material
	for _, g := range groups {
		if rapid.IntRange(0, 3).Draw(t, "pre") == 0 {
			continue
		}
		slot := int64(rapid.IntRange(1, 4).Draw(t, "preslot"))
		chans := append([]uint32{g.idx}, g.data...)
		c.Pre = append(c.Pre, vOp{K: "open", W: wid, Start: slot * vSlot, Chans: chans, Persist: -1, Sync: true})
		next := slot * vSlot
		for k := rapid.IntRange(1, 3).Draw(t, "prew"); k > 0; k-- {
			ts := stamps(next, "pre")
			next = ts[len(ts)-1] + int64(rapid.IntRange(1, 9).Draw(t, "pregap"))
			c.Pre = append(c.Pre, vOp{K: "write", W: wid, TS: ts})
			g.pre = append(g.pre, ts...)
		}
		c.Pre = append(c.Pre, vOp{K: "close", W: wid})
		wid++
		// a tombstone in the preloaded file, so that a concurrent GC pass has something
		// to compact while the deleter splits pointers behind it
		if len(g.pre) >= 3 && len(g.data) > 0 && rapid.Bool().Draw(t, "pretomb") {
			i := rapid.IntRange(0, len(g.pre)-2).Draw(t, "tombi")
			c.Pre = append(c.Pre, vOp{K: "delete", A: g.pre[i], B: g.pre[i] + 1, Keys: g.data})
		}
	}
	var allKeys []uint32
	for _, ch := range c.Schema.Chans {
		allKeys = append(allKeys, ch.Key)
	}
	var interesting []int64
	// writer tasks: one per group at most, in slots 6.. (after every preload)
	for gi, g := range groups {
		if rapid.IntRange(0, 3).Draw(t, "wtask") == 0 {
			continue
		}
		var ops []vOp
		slot := int64(6 + rapid.IntRange(0, 5).Draw(t, "wslot"))
		for k := rapid.IntRange(1, 2).Draw(t, "nwriters"); k > 0; k-- {
			chans := []uint32{g.idx}
			for _, d := range g.data {
				if rapid.IntRange(0, 3).Draw(t, "wd") > 0 {
					chans = append(chans, d)
				}
			}
			auto := rapid.IntRange(0, 2).Draw(t, "auto") > 0
			op := vOp{K: "open", W: wid, Start: slot * vSlot, Chans: chans, NoAuto: !auto, Sync: true}
			switch rapid.IntRange(0, 2).Draw(t, "persist") {
			case 0:
				op.Persist = -1
			case 1:
				op.Persist = int64(rapid.IntRange(1, 1500).Draw(t, "pint")) * int64(time.Millisecond)
			}
			ops = append(ops, op)
			next := slot * vSlot
			for j := rapid.IntRange(1, 4).Draw(t, "nw"); j > 0; j-- {
				ts := stamps(next, "w")
				next = ts[len(ts)-1] + int64(rapid.IntRange(1, 9).Draw(t, "wgap"))
				ops = append(ops, vOp{K: "write", W: wid, TS: ts})
				interesting = append(interesting, ts...)
				if !auto && rapid.IntRange(0, 1).Draw(t, "cm") == 0 {
					ops = append(ops, vOp{K: "commit", W: wid})
				}
			}
			if !auto && rapid.IntRange(0, 3).Draw(t, "cmf") > 0 {
				ops = append(ops, vOp{K: "commit", W: wid})
			}
			ops = append(ops, vOp{K: "close", W: wid})
			wid++
			slot++
		}
		c.Tasks = append(c.Tasks, c09Task{Name: "writer" + strconv.Itoa(gi), Ops: ops})
	}
	for _, g := range groups {
		interesting = append(interesting, g.pre...)
	}
	bound := func(label string) int64 {
		if len(interesting) == 0 || rapid.IntRange(0, 4).Draw(t, label+"_r") == 0 {
			return int64(rapid.IntRange(0, 13000).Draw(t, label))
		}
		return interesting[rapid.IntRange(0, len(interesting)-1).Draw(t, label+"_i")] + int64(rapid.IntRange(-1, 1).Draw(t, label+"_o"))
	}
	for ri := rapid.IntRange(1, 2).Draw(t, "readers"); ri > 0; ri-- {
		var ops []vOp
		for k := rapid.IntRange(1, 4).Draw(t, "nr"); k > 0; k-- {
			var keys []uint32
			for _, key := range allKeys {
				if rapid.IntRange(0, 2).Draw(t, "rk") > 0 {
					keys = append(keys, key)
				}
			}
			if len(keys) == 0 {
				keys = allKeys[:1]
			}
			a, b := bound("ra"), bound("rb")
			if rapid.IntRange(0, 2).Draw(t, "rall") == 0 {
				a, b = 0, int64(telem.TimeStampMax)
			}
			if a > b {
				a, b = b, a
			}
			op := vOp{K: "read", A: a, B: b, Keys: keys}
			if rapid.IntRange(0, 3).Draw(t, "sweep") == 0 {
				op.K = "sweep"
				op.Span = int64(rapid.IntRange(100, 3000).Draw(t, "span"))
			}
			ops = append(ops, op)
		}
		c.Tasks = append(c.Tasks, c09Task{Name: "reader" + strconv.Itoa(ri), Ops: ops})
	}
	if rapid.IntRange(0, 1).Draw(t, "deleter") == 0 {
		var ops []vOp
		for k := rapid.IntRange(1, 2).Draw(t, "nd"); k > 0; k-- {
			g := groups[rapid.IntRange(0, len(groups)-1).Draw(t, "dg")]
			a := int64(rapid.IntRange(900, 4990).Draw(t, "da"))
			if len(g.pre) > 0 && rapid.IntRange(0, 2).Draw(t, "dpre") > 0 {
				a = g.pre[rapid.IntRange(0, len(g.pre)-1).Draw(t, "dai")] + int64(rapid.IntRange(-1, 1).Draw(t, "dao"))
			}
			b := a + int64(rapid.IntRange(1, 40).Draw(t, "dlen"))
			if b > 5000 {
				b = 5000
			}
			// One request names either data channels only or an index channel only: a
			// request mixing both is applied channel by channel and may report failure
			// after deleting some of them (C04 tolerates that sequentially), which no
			// serial order of successful operations could explain.
			keys := []uint32{g.idx}
			if len(g.data) > 0 && rapid.IntRange(0, 3).Draw(t, "donly") > 0 {
				keys = nil
				for _, d := range g.data {
					if rapid.Bool().Draw(t, "dk") {
						keys = append(keys, d)
					}
				}
				if len(keys) == 0 {
					keys = g.data[:1]
				}
			}
			ops = append(ops, vOp{K: "delete", A: a, B: b, Keys: keys})
		}
		c.Tasks = append(c.Tasks, c09Task{Name: "deleter", Ops: ops})
	}
	if rapid.IntRange(0, 2).Draw(t, "gctask") == 0 {
		ops := []vOp{{K: "gc"}}
		if rapid.Bool().Draw(t, "gc2") {
			ops = append(ops, vOp{K: "gc"})
		}
		c.Tasks = append(c.Tasks, c09Task{Name: "gc", Ops: ops})
	}
	if rapid.IntRange(0, 2).Draw(t, "chtask") == 0 {
		ops := []vOp{{K: "mkchan", Keys: []uint32{101, 102}}, {K: "open", W: wid, Start: 2 * vSlot, Chans: []uint32{101, 102}, Persist: -1, Sync: true},
			{K: "write", W: wid, TS: stamps(2*vSlot, "cw")}, {K: "close", W: wid}}
		rm := rapid.Bool().Draw(t, "rmchan")
		if rm {
			ops = append(ops, vOp{K: "rmchan", Keys: []uint32{102, 101}})
		}
		c.Tasks = append(c.Tasks, c09Task{Name: "channels", Ops: ops})
		// (not together with a delete: a rival that creates the channels again after
		// they were deleted starts them empty, which the per-channel history does not
		// model)
		if !rm && rapid.Bool().Draw(t, "rival") {
			// a second client creates the same two channels at the same time: one of the
			// two requests wins, the other is told the channels exist
			c.Tasks = append(c.Tasks, c09Task{Name: "channels-rival", Ops: []vOp{{K: "mkchan", Keys: []uint32{101, 102}}}})
		}
	}
	c.Sched = genSched(t)
	c.Seed = rapid.Uint64().Draw(t, "seed")
	return c
}

// c09State is the harness state shared by tasks; guarded by a real mutex so that the
// -race build never reports the harness itself.
type c09State struct {
	mu      sync.Mutex
	rec     *hist.Recorder
	val2ts  map[uint32]map[string]int64
	seq     map[uint32]int
	fails   []*drv.Failure
	probes  map[string]int
	created map[uint32]bool
	removed map[uint32]bool
	// mkWon / mkLost: create requests for channels 101+102 that succeeded / were told
	// the channels already exist
	mkWon, mkLost int
	taint         string
	// concurrentReads are reads issued by tasks (not judged; see c09Exec)
	concurrentReads []porcupine.Operation
}

func porcupineOp(client int, in any, call int64, out any, ret int64) porcupine.Operation {
	return porcupine.Operation{ClientId: client, Input: in, Call: call, Output: out, Return: ret}
}

func (s *c09State) fail(f *drv.Failure) {
	s.mu.Lock()
	defer s.mu.Unlock()
	s.fails = append(s.fails, f)
}

func (s *c09State) probe(name string) {
	s.mu.Lock()
	defer s.mu.Unlock()
	s.probes[name]++
}

// value allocates the next value of channel k for timestamp ts.
func (s *c09State) value(dt string, k uint32, ts int64) []byte {
	s.mu.Lock()
	defer s.mu.Unlock()
	v := vValue(dt, k, s.seq[k])
	s.seq[k]++
	if s.val2ts[k] == nil {
		s.val2ts[k] = map[string]int64{}
	}
	s.val2ts[k][string(v)] = ts
	return v
}

func (s *c09State) tsOf(k uint32, v []byte, isIndex bool) (int64, bool) {
	if isIndex {
		if len(v) != 8 {
			return 0, false
		}
		return int64(binary.LittleEndian.Uint64(v)), true
	}
	s.mu.Lock()
	defer s.mu.Unlock()
	ts, ok := s.val2ts[k][string(v)]
	return ts, ok
}

type c09Writer struct {
	w       *Writer
	op      vOp
	pending map[uint32][]int64
}

// c09Exec executes one op of a task (or of the preload) and records it in the history.
func c09Exec(r *vRun, s *c09State, client int, writers map[int]*c09Writer, chans map[uint32]vChan, op vOp) *drv.Failure {
	call := s.rec.Stamp()
	switch op.K {
	case "open":
		cfg := WriterConfig{Start: telem.TimeStamp(op.Start), Channels: op.Chans, EnableAutoCommit: new(!op.NoAuto), Sync: new(true)}
		if op.Persist != 0 {
			cfg.AutoIndexPersistInterval = telem.TimeSpan(op.Persist)
		}
		w, err := r.db.OpenWriter(r.ctx, cfg)
		if err != nil {
			return drv.Failf("unexpected-error", "open:"+errSig(err), "client %d open writer %d: %v", client, op.W, err)
		}
		writers[op.W] = &c09Writer{w: w, op: op, pending: map[uint32][]int64{}}
	case "write":
		cw := writers[op.W]
		if cw == nil {
			return nil
		}
		keys := make([]ChannelKey, 0, len(cw.op.Chans))
		series := make([]telem.Series, 0, len(cw.op.Chans))
		for _, k := range cw.op.Chans {
			c := chans[k]
			keys = append(keys, ChannelKey(k))
			if c.IsIndex {
				series = append(series, vTSSeries(op.TS))
			} else {
				vals := make([][]byte, 0, len(op.TS))
				for _, ts := range op.TS {
					vals = append(vals, s.value(c.DT, k, ts))
				}
				series = append(series, vSeries(c.DT, vals))
			}
			cw.pending[k] = append(cw.pending[k], op.TS...)
		}
		auth, err := cw.w.Write(telem.MultiFrame(keys, series))
		if err != nil {
			return drv.Failf("unexpected-error", "write:"+errSig(err), "client %d write w%d ts=%v: %v", client, op.W, op.TS, err)
		}
		if !auth {
			return drv.Failf("unexpected-error", "write:unauthorized", "client %d write w%d unauthorized", client, op.W)
		}
		if !cw.op.NoAuto {
			ret := s.rec.Stamp()
			for _, k := range cw.op.Chans {
				s.rec.Add(client, hist.TSOp{Ch: k, Kind: "add", TS: append([]int64(nil), cw.pending[k]...)}, call, nil, ret)
				cw.pending[k] = nil
			}
		}
	case "commit":
		cw := writers[op.W]
		if cw == nil {
			return nil
		}
		if _, err := cw.w.Commit(); err != nil {
			return drv.Failf("unexpected-error", "commit:"+errSig(err), "client %d commit w%d: %v", client, op.W, err)
		}
		ret := s.rec.Stamp()
		for _, k := range cw.op.Chans {
			if len(cw.pending[k]) > 0 {
				s.rec.Add(client, hist.TSOp{Ch: k, Kind: "add", TS: append([]int64(nil), cw.pending[k]...)}, call, nil, ret)
			}
			cw.pending[k] = nil
		}
	case "close":
		cw := writers[op.W]
		if cw == nil {
			return nil
		}
		delete(writers, op.W)
		if err := cw.w.Close(); err != nil {
			return drv.Failf("unexpected-error", "close:"+errSig(err), "client %d close w%d: %v", client, op.W, err)
		}
	case "read", "sweep":
		var fr Frame
		var err error
		tr := telem.TimeRange{Start: telem.TimeStamp(op.A), End: telem.TimeStamp(op.B)}
		if op.K == "read" {
			fr, err = r.db.Read(r.ctx, tr, op.Keys...)
		} else {
			var it *Iterator
			it, err = r.db.OpenIterator(IteratorConfig{Channels: op.Keys, Bounds: tr})
			if err == nil {
				if it.SeekFirst() {
					lo, hi := op.A, op.B
					if hi > 15*vSlot {
						hi = 15 * vSlot
					}
					for n := (hi-lo)/op.Span + 3; n > 0; n-- {
						if it.Next(telem.TimeSpan(op.Span)) {
							fr = fr.Extend(it.Value())
						}
					}
				}
				err = it.Close()
			}
		}
		if err != nil {
			if client != 0 {
				// the statement constrains races, deadlocks and the content readable
				// AFTERWARDS; a read racing with deletes/GC may fail
				s.probe("concurrent_read_error")
				return nil
			}
			return drv.Failf("unexpected-error", op.K+":"+errSig(err), "client %d %s [%d,%d) %v: %v", client, op.K, op.A, op.B, op.Keys, err)
		}
		ret := s.rec.Stamp()
		for _, k := range op.Keys {
			c := chans[k]
			vals := decodeVals(fr.Get(ChannelKey(k)))
			out := hist.TSOut{}
			for _, v := range vals {
				ts, ok := s.tsOf(k, v, c.IsIndex)
				if !ok {
					return drv.Failf("read-unknown-value", dtClass(c), "client %d %s ch %d returned value %x that was never written", client, op.K, k, v)
				}
				out.TS = append(out.TS, ts)
			}
			if client == 0 {
				s.rec.Add(client, hist.TSOp{Ch: k, Kind: "read", A: op.A, B: op.B}, call, out, ret)
			} else {
				// reads issued while other tasks run are recorded separately: their
				// linearizability is reported as a probe, not judged (see above)
				s.mu.Lock()
				s.concurrentReads = append(s.concurrentReads, porcupineOp(client, hist.TSOp{Ch: k, Kind: "read", A: op.A, B: op.B}, call, out, ret))
				s.mu.Unlock()
			}
		}
	case "delete":
		// precondition of the recorded C04 finding (delete bound strictly inside a domain
		// whose start precedes its first sample): such a delete corrupts the pointer,
		// so the rest of the run is attributed to that finding
		snap := s.rec.Snapshot()
		s.mu.Lock()
		// (as in the C04 engine: every channel of the index groups the request touches
		// counts, and so does a bound ON the sample-free start of such a domain)
		groupKeys := map[uint32]bool{}
		for _, k := range op.Keys {
			for _, c := range r.sch.Chans {
				if c.Index == r.chans[k].Index {
					groupKeys[c.Key] = true
				}
			}
			groupKeys[k] = true
		}
		for k := range groupKeys {
			var have []int64
			for _, h := range snap {
				if in := h.Input.(hist.TSOp); in.Ch == k && in.Kind == "add" {
					have = append(have, in.TS...)
				}
			}
			sort.Slice(have, func(i, j int) bool { return have[i] < have[j] })
			// samples that a recorded delete has removed no longer count
			deleted := func(ts int64) bool {
				for _, h := range snap {
					if in := h.Input.(hist.TSOp); in.Ch == k && in.Kind == "del" && ts >= in.A && ts < in.B {
						return true
					}
				}
				return false
			}
			for _, d := range r.layout(k) {
				first := int64(-1)
				for _, ts := range have {
					if ts >= d.Start && ts < d.End && !deleted(ts) {
						first = ts
						break
					}
				}
				gap := first > d.Start
				inDomain := (d.Start < op.A && op.A < d.End) || (d.Start < op.B && op.B < d.End)
				inGap := gap && ((d.Start <= op.A && op.A < first) || (d.Start <= op.B && op.B < first))
				if gap && (inDomain || inGap) {
					s.taint = "delete-cut-inside-domain-with-leading-gap"
				}
			}
		}
		s.mu.Unlock()
		err := r.db.DeleteTimeRange(r.ctx, op.Keys, telem.TimeRange{Start: telem.TimeStamp(op.A), End: telem.TimeStamp(op.B)})
		if err != nil {
			// a delete may lose against concurrent users of the channel; only
			// operations that reported success enter the history
			s.probe("delete_refused_under_concurrency")
			return nil
		}
		ret := s.rec.Stamp()
		for _, k := range op.Keys {
			s.rec.Add(client, hist.TSOp{Ch: k, Kind: "del", A: op.A, B: op.B}, call, nil, ret)
		}
		s.probe("delete_ok")
	case "gc":
		if err := r.db.garbageCollect(r.ctx, 4); err != nil {
			// e.g. "closed unary.db" when the pass races with a channel deletion: the
			// maintenance pass reports it and the ticker logs it; not a clause of C09
			s.probe("gc_pass_error")
			return nil
		}
		s.probe("gc_pass")
	case "mkchan":
		idx, data := op.Keys[0], op.Keys[1]
		if err := r.db.CreateChannel(r.ctx,
			Channel{Key: idx, Name: "x" + strconv.Itoa(int(idx)), DataType: telem.TimeStampT, IsIndex: true},
			Channel{Key: data, Name: "x" + strconv.Itoa(int(data)), DataType: telem.Int64T, Index: idx}); err != nil {
			if strings.Contains(err.Error(), "already exists") {
				// lost to a rival create (or the channel was created and not yet removed)
				s.mu.Lock()
				s.mkLost++
				s.mu.Unlock()
				return nil
			}
			return drv.Failf("unexpected-error", "mkchan:"+errSig(err), "client %d create channels: %v", client, err)
		}
		s.mu.Lock()
		s.created[idx], s.created[data] = true, true
		s.mkWon++
		won := s.mkWon
		removed := s.removed[idx]
		// created again after a delete: the channels exist
		delete(s.removed, idx)
		delete(s.removed, data)
		s.mu.Unlock()
		if won > 1 && !removed {
			return drv.Failf("channel-created-twice", "concurrent-creates", "client %d: a second create of channels %d and %d succeeded while they existed", client, idx, data)
		}
	case "rmchan":
		if err := r.db.DeleteChannels(op.Keys); err != nil {
			// refused while a GC pass or reader still uses the channel: a reported failure
			s.probe("rmchan_refused_under_concurrency")
			return nil
		}
		s.mu.Lock()
		for _, k := range op.Keys {
			s.removed[k] = true
		}
		s.mu.Unlock()
	}
	return nil
}

func stackSig(stacks string) string {
	// top repo frames of blocked goroutines, deduplicated
	seen := map[string]bool{}
	var out []string
	for _, g := range strings.Split(stacks, "\n\n") {
		lines := strings.Split(g, "\n")
		for _, l := range lines[1:] {
			if strings.Contains(l, "synnaxlabs/") && !strings.Contains(l, "zz_verif") && !strings.HasPrefix(l, "\t") {
				fn := l
				if i := strings.LastIndex(fn, "/"); i >= 0 {
					fn = fn[i+1:]
				}
				if i := strings.Index(fn, "("); i >= 0 {
					fn = fn[:i]
				}
				if !seen[fn] {
					seen[fn] = true
					out = append(out, fn)
				}
				break
			}
		}
	}
	sort.Strings(out)
	if len(out) > 6 {
		out = out[:6]
	}
	return strings.Join(out, "|")
}

func runC09(t *testing.T, c c09Case, st *drv.Stats) (fail *drv.Failure) {
	s := &c09State{rec: &hist.Recorder{}, val2ts: map[uint32]map[string]int64{}, seq: map[uint32]int{}, probes: map[string]int{},
		created: map[uint32]bool{}, removed: map[uint32]bool{}}
	chans := map[uint32]vChan{}
	for _, ch := range c.Schema.Chans {
		chans[ch.Key] = ch
	}
	chans[101] = vChan{Key: 101, Index: 101, IsIndex: true, DT: "timestamp"}
	chans[102] = vChan{Key: 102, Index: 101, DT: "int64"}
	var traceHash uint64
	var steps int
	var hung bool
	vDeterminize(c.Seed)
	func() {
		defer func() {
			if p := recover(); p != nil {
				msg := fmt.Sprint(p)
				if strings.Contains(msg, "deadlock") && fail != nil {
					return // the bubble could not exit because of the reported deadlock
				}
				extra := ""
				if strings.Contains(msg, "blocked goroutines remain") {
					// which goroutines are still blocked inside the bubble
					buf := make([]byte, 1<<20)
					buf = buf[:runtime.Stack(buf, true)]
					for _, g := range strings.Split(string(buf), "\n\n") {
						if strings.Contains(g, "synctest bubble") && strings.Contains(g, "durable") {
							extra += "\n\n" + g
						}
					}
				}
				fail = drv.Failf("panic", drv_firstLine(msg), "panic: %v\n%s%s", p, stackTrim(), extra)
			}
		}()
		synctest.Test(t, func(t *testing.T) {
			r := newRun(st, c.Schema)
			if err := r.open(); err != nil {
				fail = drv.Failf("unexpected-error", "dbopen:"+errSig(err), "open: %v", err)
				return
			}
			if err := r.createChannels(); err != nil {
				fail = drv.Failf("unexpected-error", "create:"+errSig(err), "create channels: %v", err)
				return
			}
			pre := map[int]*c09Writer{}
			for _, op := range c.Pre {
				if f := c09Exec(r, s, 0, pre, chans, op); f != nil {
					f.Sig = "preload:" + f.Sig
					fail = f
					_ = r.db.Close()
					return
				}
				synctest.Wait()
			}
			if os.Getenv("VERIF_RACE") != "" {
				// Race-detector tier: the tasks run as free goroutines. Under the
				// serialising scheduler every hand-over is a happens-before edge, which
				// would hide exactly the unsynchronised accesses this tier looks for.
				var wg sync.WaitGroup
				for ti, task := range c.Tasks {
					ti, task := ti, task
					wg.Add(1)
					go func() {
						defer wg.Done()
						defer func() {
							if p := recover(); p != nil {
								s.fail(drv.Failf("panic", "task:"+drv_firstLine(fmt.Sprint(p)), "task %s panic: %v\n%s", task.Name, p, stackTrim()))
							}
						}()
						writers := map[int]*c09Writer{}
						defer func() {
							for _, w := range writers {
								_ = w.w.Close()
							}
						}()
						for _, op := range task.Ops {
							if f := c09Exec(r, s, ti+1, writers, chans, op); f != nil {
								s.fail(f)
								return
							}
						}
					}()
				}
				wg.Wait()
				st.Probe("race_tier_free_running_case")
				if len(s.fails) > 0 {
					fail = s.fails[0]
				}
				_ = r.db.Close()
				synctest.Wait()
				return
			}
			r.core.Yields = true
			sc := sim.New(c.Sched, sim.NewChoices(c.Seed))
			if os.Getenv("VERIF_DEBUG") != "" {
				sc.KeepLog = 1 << 20
				defer func() { fmt.Println("DEBUG TRACE\n" + strings.Join(sc.Trace, "\n")) }()
			}
			if d := os.Getenv("VERIF_TRACEDIR"); d != "" {
				sc.KeepLog = 1 << 20
				c09TraceN++
				n := c09TraceN
				defer func() {
					_ = os.WriteFile(d+"/"+strconv.Itoa(n)+".trace", []byte(strings.Join(sc.Trace, "\n")), 0o644)
				}()
			}
			sim.Install(sc)
			tasks := sc.NewTasks()
			for ti, task := range c.Tasks {
				ti, task := ti, task
				tasks.Go(task.Name, func() error {
					writers := map[int]*c09Writer{}
					defer func() {
						for _, w := range writers {
							_ = w.w.Close()
						}
					}()
					for _, op := range task.Ops {
						sim.Yield(sim.ClassTask, task.Name+" "+op.K)
						if f := c09Exec(r, s, ti+1, writers, chans, op); f != nil {
							s.fail(f)
							return nil
						}
					}
					return nil
				})
			}
			err := sc.Run(tasks.Done)
			traceHash, steps = sc.Hash(), sc.Steps
			st.AddSteps(sc.Steps)
			st.AddVirtual(sc.Idle)
			for cl, n := range sc.ByClass {
				st.ProbeN("yield_"+cl.String(), n)
			}
			if sc.Stalls > 0 {
				st.FaultN("stall_quantum", sc.Stalls)
			}
			if err != nil {
				switch e := err.(type) {
				case *sim.ErrDeadlock:
					fail = drv.Failf("deadlock", stackSig(e.Stacks), "deadlock/stall after %d scheduler steps: quiescent with unfinished tasks and no timer makes progress within the horizon\n%s", sc.Steps, trimTo(e.Stacks, 40000))
					hung = true
				case *sim.ErrSteps:
					st.Inconcl("step_budget_exceeded")
				}
				sc.Abort()
				sim.Uninstall()
				r.core.Yields = false
				return
			}
			sim.Uninstall()
			r.core.Yields = false
			for _, e := range tasks.Errors {
				fail = drv.Failf("panic", "task:"+drv_firstLine(e), "%s", e)
				_ = r.db.Close()
				return
			}
			if len(s.fails) > 0 {
				fail = s.fails[0]
				_ = r.db.Close()
				return
			}
			// quiescent final reads, then close + reopen + reads again
			final := func(what string) *drv.Failure {
				for _, ch := range c.Schema.Chans {
					if f := c09Exec(r, s, 0, nil, chans, vOp{K: "read", A: 0, B: int64(telem.TimeStampMax), Keys: []uint32{ch.Key}}); f != nil {
						f.Sig = what + ":" + f.Sig
						return f
					}
				}
				if s.created[101] && !s.removed[101] {
					// a refused batch delete may have removed a prefix of its keys
					for _, k := range []uint32{101, 102} {
						if _, err := r.db.RetrieveChannel(r.ctx, k); err != nil {
							continue
						}
						if f := c09Exec(r, s, 0, nil, chans, vOp{K: "read", A: 0, B: int64(telem.TimeStampMax), Keys: []uint32{k}}); f != nil {
							f.Sig = what + ":" + f.Sig
							return f
						}
					}
				}
				if s.removed[101] {
					if _, err := r.db.RetrieveChannel(r.ctx, 101); err == nil {
						return drv.Failf("deleted-channel-visible", what, "%s: channel 101 was deleted but can still be retrieved", what)
					}
				}
				return nil
			}
			if f := final("final"); f != nil {
				fail = f
				_ = r.db.Close()
				return
			}
			if err := r.db.Close(); err != nil {
				fail = drv.Failf("unexpected-error", "dbclose:"+errSig(err), "db close: %v", err)
				return
			}
			synctest.Wait()
			// persisted layout must be sorted and non-overlapping (C03's invariant)
			for _, ch := range c.Schema.Chans {
				l := r.layout(ch.Key)
				for i := range l {
					if l[i].Start >= l[i].End || (i > 0 && l[i].Start < l[i-1].End) {
						fail = drv.Failf("layout-invariant", dtClass(ch), "after close, channel %d's persisted pointers are not sorted/non-overlapping: %+v", ch.Key, l)
						return
					}
				}
			}
			if err := r.open(); err != nil {
				fail = drv.Failf("unexpected-error", "dbopen:"+errSig(err), "reopen: %v", err)
				return
			}
			if f := final("after-reopen"); f != nil {
				fail = f
			}
			_ = r.db.Close()
			synctest.Wait()
		})
	}()
	_ = hung
	for k, v := range s.probes {
		st.ProbeN(k, v)
	}
	taintIt := func(f *drv.Failure) *drv.Failure {
		if f != nil && s.taint != "" && f.Class != "harness" {
			f.Sig = "tainted:" + s.taint + ":" + f.Class + ":" + f.Sig
			f.Class = "tainted"
		}
		return f
	}
	if fail != nil {
		fail.TraceHash = strconv.FormatUint(traceHash, 16)
		return taintIt(fail)
	}
	// linearizability of the recorded history, per channel (outside the bubble)
	if n := s.rec.Len(); n > 0 {
		res, desc := hist.Check(hist.TSModel, s.rec.Ops, 20*time.Second)
		switch res {
		case "illegal":
			return taintIt(&drv.Failure{Class: "not-linearizable", Sig: "per-channel-history", TraceHash: strconv.FormatUint(traceHash, 16),
				Msg: "the recorded history of successful operations has no serial order that explains every read:\n" + desc})
		case "unknown":
			st.Inconcl("porcupine_timeout")
		default:
			st.ProbeN("history_ops_checked", n)
		}
		if len(s.concurrentReads) > 0 {
			all := append(append([]porcupine.Operation(nil), s.rec.Ops...), s.concurrentReads...)
			if r2, _ := hist.Check(hist.TSModel, all, 5*time.Second); r2 == "illegal" {
				st.Probe("info_concurrent_reads_not_linearizable")
			} else if r2 == "ok" {
				st.Probe("info_concurrent_reads_linearizable")
			}
		}
	}
	if os.Getenv("VERIF_RACE") != "" {
		st.Case(drv.Hash64(fmt.Sprint(c.Seed), fmt.Sprint(len(c.Tasks)), fmt.Sprint(s.rec.Len())), len(c.Tasks) >= 2)
		return nil
	}
	st.Case(traceHash, steps >= 40 && len(c.Tasks) >= 2)
	return nil
}

func trimTo(s string, n int) string {
	if len(s) > n {
		return s[:n] + "\n...(truncated)"
	}
	return s
}
