package domain

// Injected by /verif via `go test -overlay`; never part of the repository.
// C03: committed data occupies pairwise non-overlapping, time-ordered ranges inside their
// files; a writer whose start falls inside existing data fails to open; a commit that
// would overlap existing data or move backwards fails with a validation error and leaves
// everything committed before unchanged and readable. Driven in-package on domain.DB.

import (
	"context"
	"fmt"
	"io"
	"sort"
	"strconv"
	"strings"
	"testing"

	"github.com/synnaxlabs/x/errors"
	xfs "github.com/synnaxlabs/x/io/fs"
	"github.com/synnaxlabs/x/telem"
	"github.com/synnaxlabs/x/validate"
	"pgregory.net/rapid"
	"verifsim/drv"
	"verifsim/simfs"
)

func TestVerif(t *testing.T) {
	drv.Main(t, drv.Wrap(drv.Engine[c03Case]{Property: "C03", Name: "c03", Gen: genC03, Run: runC03, BatchChecks: 500}))
}

type c03Op struct {
	K     string `json:"k"` // open, write, commit, close, delete, reopen
	W     int    `json:"w,omitempty"`
	Start int64  `json:"start,omitempty"`
	End   int64  `json:"end,omitempty"` // preset end for open; commit end for commit; delete end
	N     int    `json:"n,omitempty"`
}

type c03Case struct {
	Ops []c03Op `json:"ops"`
}

func genC03(t *rapid.T) c03Case {
	var c c03Case
	n := rapid.IntRange(3, 40).Draw(t, "n")
	open := []int{}
	nextW := 0
	// interesting timestamps accumulate as the script grows so that later operations
	// land on, next to and inside earlier ranges
	pts := []int64{10, 20, 30}
	ts := func(label string) int64 {
		if rapid.IntRange(0, 3).Draw(t, label+"_r") == 0 {
			return int64(rapid.IntRange(1, 120).Draw(t, label))
		}
		p := pts[rapid.IntRange(0, len(pts)-1).Draw(t, label+"_i")]
		v := p + int64(rapid.IntRange(-2, 2).Draw(t, label+"_o"))
		if v < 1 {
			v = 1
		}
		return v
	}
	for i := 0; i < n; i++ {
		k := rapid.IntRange(0, 13).Draw(t, "k")
		switch {
		case k < 3 && nextW < 5:
			op := c03Op{K: "open", W: nextW, Start: ts("start")}
			if rapid.IntRange(0, 3).Draw(t, "preset") == 0 {
				op.End = op.Start + int64(rapid.IntRange(1, 30).Draw(t, "plen"))
				pts = append(pts, op.End)
			}
			pts = append(pts, op.Start)
			open = append(open, nextW)
			nextW++
			c.Ops = append(c.Ops, op)
		case k < 6 && len(open) > 0:
			c.Ops = append(c.Ops, c03Op{K: "write", W: open[rapid.IntRange(0, len(open)-1).Draw(t, "ww")], N: rapid.IntRange(1, 6).Draw(t, "nb")})
		case k < 10 && len(open) > 0:
			e := ts("end")
			pts = append(pts, e)
			c.Ops = append(c.Ops, c03Op{K: "commit", W: open[rapid.IntRange(0, len(open)-1).Draw(t, "cw")], End: e})
		case k == 10 && len(open) > 0:
			j := rapid.IntRange(0, len(open)-1).Draw(t, "xw")
			c.Ops = append(c.Ops, c03Op{K: "close", W: open[j]})
			open = append(open[:j], open[j+1:]...)
		case (k == 11 || k == 13) && len(open) == 0:
			a, b := ts("da"), ts("db")
			if a > b {
				a, b = b, a
			}
			if a == b {
				b++
			}
			c.Ops = append(c.Ops, c03Op{K: "delete", Start: a, End: b})
		case k == 12 && len(open) == 0:
			c.Ops = append(c.Ops, c03Op{K: "reopen"})
		}
	}
	// half of the scripts end with every writer closed and deletes over what they left
	// (deletes that span several whole domains need three or more of them)
	if rapid.Bool().Draw(t, "tail_deletes") {
		for _, w := range open {
			c.Ops = append(c.Ops, c03Op{K: "close", W: w})
		}
		for d := rapid.IntRange(1, 3).Draw(t, "ntail"); d > 0; d-- {
			a, b := ts("ta"), ts("tb")
			if a > b {
				a, b = b, a
			}
			if a == b {
				b++
			}
			c.Ops = append(c.Ops, c03Op{K: "delete", Start: a, End: b})
		}
	}
	return c
}

type c03Dom struct {
	start, end int64
	data       []byte
	owner      int
}

type c03W struct {
	w          *Writer
	start      int64
	preset     int64
	buf        []byte
	prevCommit int64
	committed  bool
}

func linearResolver(ptrLen func(start telem.TimeStamp) int64) OffsetResolver {
	return func(_ context.Context, domainStart, ts telem.TimeStamp) (telem.Size, telem.TimeStamp, error) {
		off := int64(ts - domainStart)
		if off < 0 {
			off = 0
		}
		if l := ptrLen(domainStart); off > l {
			off = l
		}
		return telem.Size(off), ts, nil
	}
}

func runC03(t *testing.T, c c03Case, st *drv.Stats) (fail *drv.Failure) {
	ctx := context.Background()
	core := simfs.New()
	open := func() (*DB, error) { return Open(Config{FS: xfs.NewSim(core)}) }
	db, err := open()
	if err != nil {
		return drv.Failf("unexpected-error", "open", "open: %v", err)
	}
	defer func() {
		if db != nil {
			_ = db.Close()
		}
	}()
	var doms []c03Dom // committed, model
	writers := map[int]*c03W{}
	seq := 0
	overlapsOther := func(s, e int64, owner int) bool {
		for _, d := range doms {
			if d.owner == owner {
				continue
			}
			if s < d.end && d.start < e {
				return true
			}
		}
		return false
	}
	inside := func(tsv int64) bool {
		for _, d := range doms {
			if d.start <= tsv && tsv < d.end {
				return true
			}
		}
		return false
	}
	conflicts, rejected := 0, 0
	check := func(what string) *drv.Failure {
		sort.Slice(doms, func(i, j int) bool { return doms[i].start < doms[j].start })
		// pointer invariant, read under the package's own lock
		db.idx.mu.RLock()
		ptrs := append([]pointer(nil), db.idx.mu.pointers...)
		db.idx.mu.RUnlock()
		for i, p := range ptrs {
			if !(p.Start < p.End) {
				return drv.Failf("pointer-invariant", "empty-or-inverted", "%s: pointer %d has range %v", what, i, p.TimeRange)
			}
			if i > 0 && p.Start < ptrs[i-1].End {
				return drv.Failf("pointer-invariant", "overlap-or-unsorted", "%s: pointer %d %v overlaps/precedes pointer %d %v", what, i, p.TimeRange, i-1, ptrs[i-1].TimeRange)
			}
			info, err := core.Stat("/" + fileKeyToName(p.fileKey))
			if err != nil {
				return drv.Failf("pointer-invariant", "missing-file", "%s: pointer %d refers to missing file %d", what, i, p.fileKey)
			}
			if int64(p.offset)+int64(p.size) > info.Size() {
				return drv.Failf("pointer-invariant", "outside-file", "%s: pointer %d offset %d size %d exceeds file length %d", what, i, p.offset, p.size, info.Size())
			}
		}
		// enumerate through the public iterator and read every domain back
		it := db.OpenIterator(IterRange(telem.TimeRangeMax))
		defer func() { _ = it.Close() }()
		i := 0
		for ok := it.SeekFirst(ctx); ok; ok = it.Next() {
			if i >= len(doms) {
				return drv.Failf("domain-mismatch", "extra", "%s: store has an extra domain %v (model has %d)", what, it.TimeRange(), len(doms))
			}
			d := doms[i]
			tr := it.TimeRange()
			if int64(tr.Start) != d.start || int64(tr.End) != d.end {
				return drv.Failf("domain-mismatch", "range", "%s: domain %d is %v, want [%d,%d)", what, i, tr, d.start, d.end)
			}
			r, err := it.OpenReader(ctx)
			if err != nil {
				return drv.Failf("unexpected-error", "reader", "%s: open reader: %v", what, err)
			}
			b := make([]byte, it.Size())
			_, rerr := r.ReadAt(b, 0)
			_ = r.Close()
			if rerr != nil && !errors.Is(rerr, io.EOF) {
				return drv.Failf("unexpected-error", "read", "%s: read: %v", what, rerr)
			}
			if string(b) != string(d.data) {
				return drv.Failf("domain-mismatch", "content", "%s: domain %d %v holds %x, want %x", what, i, tr, b, d.data)
			}
			i++
		}
		if i != len(doms) {
			return drv.Failf("domain-mismatch", "missing", "%s: store enumerates %d domains, model has %d (first missing [%d,%d))", what, i, len(doms), doms[i].start, doms[i].end)
		}
		return nil
	}
	for i, op := range c.Ops {
		what := fmt.Sprintf("op %d %+v", i, op)
		switch op.K {
		case "open":
			mustFail := inside(op.Start)
			if op.End != 0 && overlapsOther(op.Start, op.End, -999) {
				mustFail = true
			}
			w, err := db.OpenWriter(ctx, WriterConfig{Start: telem.TimeStamp(op.Start), End: telem.TimeStamp(op.End), EnableAutoCommit: new(false)})
			if mustFail {
				if err == nil {
					_ = w.Close()
					return drv.Failf("conflict-not-rejected", "open-inside-existing", "%s: writer opened although its start/preset range lies inside committed data %v", what, doms)
				}
				if !errors.Is(err, validate.ErrValidation) {
					return drv.Failf("conflict-wrong-error", "open", "%s: error is not a validation error: %v", what, err)
				}
				st.Probe("open_rejected")
				rejected++
				continue
			}
			if err != nil {
				return drv.Failf("legal-op-refused", "open:"+sig(err), "%s: open refused although the start is not inside committed data %v: %v", what, doms, err)
			}
			writers[op.W] = &c03W{w: w, start: op.Start, preset: op.End}
		case "write":
			mw := writers[op.W]
			if mw == nil {
				continue
			}
			b := make([]byte, op.N)
			for j := range b {
				seq++
				b[j] = byte(seq)
			}
			if _, err := mw.w.Write(b); err != nil {
				return drv.Failf("unexpected-error", "write", "%s: %v", what, err)
			}
			mw.buf = append(mw.buf, b...)
		case "commit":
			mw := writers[op.W]
			if mw == nil {
				continue
			}
			eff := op.End
			mustFail, either := false, false
			if len(mw.buf) == 0 {
				either = true // nothing written: a no-op commit; the statement does not cover it
			}
			anyErr := false // exceeding a preset end must fail, but the statement does not name the error kind
			if mw.preset != 0 {
				if op.End > mw.preset {
					mustFail = true
					anyErr = true
				}
				eff = mw.preset
			}
			if eff <= mw.start {
				mustFail = true
				st.Probe("commit_zero_or_negative_length")
			}
			if mw.prevCommit != 0 && eff < mw.prevCommit {
				mustFail = true
				st.Probe("commit_backwards")
			}
			if mw.prevCommit != 0 && eff == mw.prevCommit {
				either = true // equal to the previous commit: the statement leaves it open
			}
			if overlapsOther(mw.start, eff, op.W) {
				mustFail = true
				st.Probe("commit_overlaps_other")
				conflicts++
			}
			err := mw.w.Commit(ctx, telem.TimeStamp(op.End))
			switch {
			case len(mw.buf) == 0:
				// no data: nothing may change either way
			case mustFail:
				if err == nil {
					return drv.Failf("conflict-not-rejected", "commit", "%s: commit [%d,%d) accepted although it overlaps committed data / moves backwards / is empty; committed: %v", what, mw.start, eff, doms)
				}
				if !anyErr && !errors.Is(err, validate.ErrValidation) {
					return drv.Failf("conflict-wrong-error", "commit", "%s: error is not a validation error: %v", what, err)
				}
				rejected++
			case err != nil && !either:
				return drv.Failf("legal-op-refused", "commit:"+sig(err), "%s: legal forward, non-overlapping commit [%d,%d) refused: %v; committed: %v", what, mw.start, eff, err, doms)
			case err == nil:
				// success: this writer's domain becomes [start, eff) holding everything written
				found := false
				for j := range doms {
					if doms[j].owner == op.W {
						doms[j].end, doms[j].data = eff, append([]byte(nil), mw.buf...)
						found = true
					}
				}
				if !found {
					doms = append(doms, c03Dom{start: mw.start, end: eff, data: append([]byte(nil), mw.buf...), owner: op.W})
				}
				mw.prevCommit = eff
				mw.committed = true
				st.Probe("commit_ok")
			}
		case "close":
			mw := writers[op.W]
			if mw == nil {
				continue
			}
			if err := mw.w.Close(); err != nil {
				return drv.Failf("unexpected-error", "close", "%s: %v", what, err)
			}
			delete(writers, op.W)
			for j := range doms {
				if doms[j].owner == op.W {
					doms[j].owner = -100 - op.W // closed writers no longer own anything
				}
			}
		case "delete":
			lenOf := func(start telem.TimeStamp) int64 {
				for _, d := range doms {
					if d.start == int64(start) {
						return int64(len(d.data))
					}
				}
				return 0
			}
			err := db.Delete(ctx, telem.TimeRange{Start: telem.TimeStamp(op.Start), End: telem.TimeStamp(op.End)}, linearResolver(lenOf), linearResolver(lenOf))
			if err != nil {
				return drv.Failf("legal-op-refused", "delete:"+sig(err), "%s: delete refused: %v; committed: %v", what, err, doms)
			}
			var nd []c03Dom
			for _, d := range doms {
				if op.End <= d.start || d.end <= op.Start {
					nd = append(nd, d)
					continue
				}
				cl := func(x int64) int64 {
					if x < 0 {
						return 0
					}
					if x > int64(len(d.data)) {
						return int64(len(d.data))
					}
					return x
				}
				if op.Start > d.start {
					if k := cl(op.Start - d.start); k > 0 {
						nd = append(nd, c03Dom{start: d.start, end: op.Start, data: d.data[:k], owner: -1})
					}
				}
				if op.End < d.end {
					if k := cl(op.End - d.start); k < int64(len(d.data)) {
						nd = append(nd, c03Dom{start: op.End, end: d.end, data: d.data[k:], owner: -1})
					}
				}
				st.Probe("delete_cut_domain")
			}
			// The statement fixes which bytes survive, not the exact time bounds of a
			// trimmed remnant (a delete that removes no byte of a domain may leave its
			// range as it was): remnants take the bounds the store reports, provided
			// they stay inside the bounds the remnant is entitled to.
			sort.Slice(nd, func(i, j int) bool { return nd[i].start < nd[j].start })
			it := db.OpenIterator(IterRange(telem.TimeRangeMax))
			j := 0
			for ok := it.SeekFirst(ctx); ok && j < len(nd); ok = it.Next() {
				tr := it.TimeRange()
				var orig *c03Dom
				for k := range doms {
					if doms[k].start <= nd[j].start && nd[j].end <= doms[k].end {
						orig = &doms[k]
					}
				}
				if nd[j].owner == -1 && orig != nil && int64(tr.Start) >= orig.start && int64(tr.End) <= orig.end {
					nd[j].start, nd[j].end = int64(tr.Start), int64(tr.End)
				}
				j++
			}
			_ = it.Close()
			doms = nd
		case "reopen":
			for id, mw := range writers {
				_ = mw.w.Close()
				delete(writers, id)
			}
			if err := db.Close(); err != nil {
				return drv.Failf("unexpected-error", "dbclose", "%s: %v", what, err)
			}
			if db, err = open(); err != nil {
				db = nil
				return drv.Failf("unexpected-error", "reopen", "%s: %v", what, err)
			}
			for j := range doms {
				doms[j].owner = -1
			}
			st.Probe("reopen")
		}
		if f := check(what); f != nil {
			return f
		}
	}
	for _, mw := range writers {
		_ = mw.w.Close()
	}
	var sb strings.Builder
	for _, op := range c.Ops {
		sb.WriteString(op.K[:2])
	}
	for _, d := range doms {
		sb.WriteString(strconv.FormatInt(d.start, 10) + "-" + strconv.FormatInt(d.end, 10) + ",")
	}
	st.Case(drv.Hash64(sb.String()), len(doms) >= 2 && rejected >= 1)
	return nil
}

func sig(err error) string {
	s := err.Error()
	if len(s) > 50 {
		s = s[:50]
	}
	return strings.Map(func(r rune) rune {
		if r >= '0' && r <= '9' {
			return '#'
		}
		return r
	}, s)
}
