package control

// Injected by /verif via `go test -overlay`; never part of the repository.
// C05: exactly one writer controls a channel region — highest authority wins, ties go to
// the earliest open; every change of controller (or of the controller's authority) is
// reported as exactly one transfer. Driven in-package on Controller/Gate: (a) sequential
// histories compared step by step with the ordered-gate model (map-order exploration
// on), (c) the same calls from several goroutines under the seeded scheduler, checked
// with porcupine against the same sequential model.

import (
	"fmt"
	"sort"
	"strconv"
	"strings"
	"sync"
	"testing"
	"testing/synctest"
	"time"

	"github.com/anishathalye/porcupine"
	xcontrol "github.com/synnaxlabs/x/control"
	"github.com/synnaxlabs/x/errors"
	"github.com/synnaxlabs/x/telem"
	"github.com/synnaxlabs/x/validate"
	"pgregory.net/rapid"
	"verifsim/drv"
	"verifsim/hist"
	"verifsim/models/gates"
	"verifsim/sim"
	"verifsim/simrt"
)

func TestVerif(t *testing.T) {
	drv.Main(t,
		drv.Wrap(drv.Engine[c05Case]{Property: "C05", Name: "c05-seq", Gen: genC05Seq, Run: runC05Seq, BatchChecks: 1000, Weight: 1}),
		drv.Wrap(drv.Engine[c05Conc]{Property: "C05", Name: "c05-conc", Gen: genC05Conc, Run: runC05Conc, BatchChecks: 100, Weight: 2}),
	)
}

type c05Res struct{ key uint32 }

func (r c05Res) ChannelKey() uint32 { return r.key }

type c05Op struct {
	K    string `json:"k"` // open, auth, release
	G    int    `json:"g"` // gate id
	Subj string `json:"subj,omitempty"`
	Auth int    `json:"auth,omitempty"`
	A    int64  `json:"a,omitempty"`
	B    int64  `json:"b,omitempty"`
	EIC  bool   `json:"eic,omitempty"` // ErrIfControlled
	EOU  bool   `json:"eou,omitempty"` // ErrOnUnauthorizedOpen
}

type c05Case struct {
	Shared  bool    `json:"shared"`
	Ops     []c05Op `json:"ops"`
	MapSeed uint64  `json:"map_seed"`
}

var c05Ranges = [][2]int64{{1, int64(telem.TimeStampMax)}, {10, int64(telem.TimeStampMax)}, {1, 100}, {50, 150}, {200, 300}, {250, int64(telem.TimeStampMax)}}

func genC05Ops(t *rapid.T, n int, firstGate int, windows [][2]int64) []c05Op {
	var ops []c05Op
	next := firstGate
	var open []int
	released := map[int]bool{}
	subjects := []string{"a", "b", "c", "d", "e"}
	for i := 0; i < n; i++ {
		k := rapid.IntRange(0, 9).Draw(t, "k")
		switch {
		case k < 4 || len(open) == 0:
			w := windows[rapid.IntRange(0, len(windows)-1).Draw(t, "win")]
			op := c05Op{K: "open", G: next, Subj: subjects[rapid.IntRange(0, len(subjects)-1).Draw(t, "subj")],
				Auth: rapid.SampledFrom([]int{0, 1, 1, 2, 2, 3, 200, 255}).Draw(t, "auth"), A: w[0], B: w[1]}
			if rapid.IntRange(0, 7).Draw(t, "eic") == 0 {
				op.EIC = true
			}
			if rapid.IntRange(0, 5).Draw(t, "eou") == 0 {
				op.EOU = true
			}
			ops = append(ops, op)
			open = append(open, next)
			next++
		case k < 7:
			// SetAuthority on a released gate is API misuse (it dereferences the empty
			// region's controller): only gates this script has not released are targets
			var alive []int
			for _, g := range open {
				if !released[g] {
					alive = append(alive, g)
				}
			}
			if len(alive) == 0 {
				continue
			}
			ops = append(ops, c05Op{K: "auth", G: alive[rapid.IntRange(0, len(alive)-1).Draw(t, "ag")],
				Auth: rapid.SampledFrom([]int{0, 1, 2, 2, 3, 200, 255}).Draw(t, "nauth")})
		default:
			j := rapid.IntRange(0, len(open)-1).Draw(t, "rg")
			ops = append(ops, c05Op{K: "release", G: open[j]})
			released[open[j]] = true
			if rapid.IntRange(0, 4).Draw(t, "again") > 0 { // sometimes release a gate twice
				open = append(open[:j], open[j+1:]...)
			}
		}
	}
	return ops
}

func genC05Seq(t *rapid.T) c05Case {
	c := c05Case{Shared: rapid.Bool().Draw(t, "shared"), MapSeed: rapid.Uint64().Draw(t, "mapseed")}
	windows := c05Ranges[:2]
	if rapid.IntRange(0, 2).Draw(t, "regions") == 0 {
		windows = c05Ranges
	}
	c.Ops = genC05Ops(t, rapid.IntRange(2, 30).Draw(t, "n"), 0, windows)
	return c
}

func toModelTransfer(t Transfer) gates.Transfer {
	var out gates.Transfer
	if t.From != nil {
		out.From = &gates.State{Subject: t.From.Subject.Key, Auth: int(t.From.Authority)}
	}
	if t.To != nil {
		out.To = &gates.State{Subject: t.To.Subject.Key, Auth: int(t.To.Authority)}
	}
	return out
}

// c05Apply executes one op against the real controller. It returns the open result
// kind ("ok", "unauthorized", "duplicate-subject", "other:<msg>") and the transfer.
func c05Apply(c *Controller[c05Res], live map[int]*Gate[c05Res], mu *sync.Mutex, op c05Op) (string, gates.Transfer) {
	switch op.K {
	case "open":
		g, t, err := c.OpenGate(GateConfig[c05Res]{
			OpenResource:          func() (c05Res, error) { return c05Res{key: 7}, nil },
			ErrIfControlled:       new(op.EIC),
			ErrOnUnauthorizedOpen: new(op.EOU),
			Subject:               xcontrol.Subject{Key: op.Subj},
			TimeRange:             telem.TimeRange{Start: telem.TimeStamp(op.A), End: telem.TimeStamp(op.B)},
			Authority:             xcontrol.Authority(op.Auth),
		})
		if err != nil {
			switch {
			case errors.Is(err, xcontrol.ErrUnauthorized):
				return "unauthorized", gates.Transfer{}
			case errors.Is(err, validate.ErrValidation):
				return "duplicate-subject", gates.Transfer{}
			case strings.Contains(err.Error(), "multiple control regions"):
				return "multi-region", gates.Transfer{}
			}
			return "other:" + err.Error(), gates.Transfer{}
		}
		mu.Lock()
		live[op.G] = g
		mu.Unlock()
		return "ok", toModelTransfer(t)
	case "auth":
		mu.Lock()
		g := live[op.G]
		mu.Unlock()
		if g == nil {
			return "nogate", gates.Transfer{}
		}
		return "ok", toModelTransfer(g.SetAuthority(xcontrol.Authority(op.Auth)))
	case "release":
		mu.Lock()
		g := live[op.G]
		mu.Unlock()
		if g == nil {
			return "nogate", gates.Transfer{}
		}
		_, t := g.Release()
		return "ok", toModelTransfer(t)
	}
	return "bad", gates.Transfer{}
}

func runC05Seq(t *testing.T, c c05Case, st *drv.Stats) *drv.Failure {
	// explore map iteration order (region.gates is a set): permute from the case's seed
	x := c.MapSeed | 1
	simrt.ShuffleHook = func(n int, swap func(i, j int)) {
		for i := n - 1; i > 0; i-- {
			x ^= x << 13
			x ^= x >> 7
			x ^= x << 17
			swap(i, int(x%uint64(i+1)))
		}
	}
	defer func() { simrt.ShuffleHook = nil }()
	conc := xcontrol.ConcurrencyExclusive
	if c.Shared {
		conc = xcontrol.ConcurrencyShared
	}
	ctrl, err := New[c05Res](Config{Concurrency: conc})
	if err != nil {
		return drv.Failf("harness", "new", "%v", err)
	}
	m := &gates.Model{Shared: c.Shared}
	live := map[int]*Gate[c05Res]{}
	var mu sync.Mutex
	released := map[int]bool{}
	transfers, ties := 0, 0
	// fold of reported transfers per region start -> holder
	for i, op := range c.Ops {
		what := fmt.Sprintf("op %d %+v (model before: %s)", i, op, m.Encode())
		var wantKind string
		var wantT gates.Transfer
		switch op.K {
		case "open":
			wantKind, wantT = m.Open(op.G, op.Subj, op.Auth, op.A, op.B, op.EIC, op.EOU)
			for _, r := range m.Regions {
				for _, g := range r.Gates {
					if g.ID != op.G && g.Auth == op.Auth && wantKind == "ok" && g.Start < op.B && op.A < g.End {
						ties++
					}
				}
			}
		case "auth":
			if !m.Has(op.G) {
				// SetAuthority on a released gate: the statement does not cover it
				st.Probe("auth_on_released_gate_skipped")
				continue
			}
			wantKind, wantT = "ok", m.SetAuthority(op.G, op.Auth)
		case "release":
			if !m.Has(op.G) {
				if released[op.G] {
					// releasing twice: executed, must report no transfer and change nothing
					kind, gotT := c05Apply(ctrl, live, &mu, op)
					if kind == "ok" && gotT.Occurred() {
						return drv.Failf("transfer-mismatch", "double-release", "%s: releasing an already released gate reported transfer %s", what, gotT)
					}
					st.Probe("double_release")
				}
				continue
			}
			wantKind, wantT = "ok", m.Release(op.G)
			released[op.G] = true
		}
		kind, gotT := c05Apply(ctrl, live, &mu, op)
		if wantKind == "multi-region" {
			// a gate bridging two regions: not covered by the statement; skip the case
			st.Probe("multi_region_open_skipped")
			return nil
		}
		if kind != wantKind {
			return drv.Failf("open-outcome", op.K+":want-"+wantKind+":got-"+strings.SplitN(kind, ":", 2)[0], "%s: expected outcome %q, got %q", what, wantKind, kind)
		}
		if kind == "ok" && !gotT.Equal(wantT) {
			return drv.Failf("transfer-mismatch", op.K, "%s: reported transfer %s, expected %s", what, gotT, wantT)
		}
		if wantT.Occurred() {
			transfers++
		}
		// every open gate's Authorize outcome
		ids := make([]int, 0, len(live))
		for id := range live {
			ids = append(ids, id)
		}
		sort.Ints(ids)
		for _, id := range ids {
			if !m.Has(id) {
				continue
			}
			_, aerr := live[id].Authorize()
			if (aerr == nil) != m.Authorized(id) {
				return drv.Failf("authorize-mismatch", op.K, "%s: gate %d Authorize err=%v but model says authorized=%v (model after: %s)", what, id, aerr, m.Authorized(id), m.Encode())
			}
		}
		ls := ctrl.LeadingState()
		want := m.Leading()
		if (ls == nil) != (want == nil) || (ls != nil && (ls.Subject.Key != want.Subject || int(ls.Authority) != want.Auth)) {
			return drv.Failf("leading-state", op.K, "%s: LeadingState=%v, expected %+v", what, ls, want)
		}
	}
	var sb strings.Builder
	for _, op := range c.Ops {
		sb.WriteString(op.K[:1] + strconv.Itoa(op.Auth))
	}
	if ties > 0 {
		st.Probe("equal_authority_contenders")
	}
	st.ProbeN("transfers_checked", transfers)
	st.Case(drv.Hash64(sb.String(), strconv.FormatBool(c.Shared)), transfers >= 2)
	return nil
}

// ---- concurrent part ---------------------------------------------------------------------

type c05Conc struct {
	Shared bool       `json:"shared"`
	Tasks  [][]c05Op  `json:"tasks"`
	Sched  sim.Config `json:"sched"`
	Seed   uint64     `json:"seed"`
}

func genC05Conc(t *rapid.T) c05Conc {
	c := c05Conc{Shared: rapid.Bool().Draw(t, "shared"), Seed: rapid.Uint64().Draw(t, "seed")}
	nt := rapid.IntRange(2, 3).Draw(t, "tasks")
	for i := 0; i < nt; i++ {
		// each task owns its gate ids and subject letters so that its own ops are well formed
		ops := genC05Ops(t, rapid.IntRange(1, 5).Draw(t, "n"), i*100, c05Ranges[:2])
		for j := range ops {
			if ops[j].K == "open" {
				ops[j].Subj = ops[j].Subj + strconv.Itoa(i)
			}
		}
		c.Tasks = append(c.Tasks, ops)
	}
	switch rapid.IntRange(0, 2).Draw(t, "strat") {
	case 0:
		c.Sched.Strategy = sim.StratRandom
	case 1:
		c.Sched.Strategy = sim.StratSticky
		c.Sched.SwitchInv = rapid.IntRange(2, 10).Draw(t, "sw")
	default:
		c.Sched.Strategy = sim.StratPCT
		c.Sched.PCTDepth = rapid.IntRange(1, 3).Draw(t, "d")
		c.Sched.PCTSteps = rapid.IntRange(10, 200).Draw(t, "ps")
	}
	c.Sched.ShuffleMaps = rapid.Bool().Draw(t, "shufflemaps")
	c.Sched.MaxSteps = 20000
	c.Sched.HorizonNS = int64(5 * time.Second)
	return c
}

type c05In struct {
	Op c05Op
}

type c05Out struct {
	Kind string
	T    gates.Transfer
}

func c05Model(shared bool) porcupine.Model {
	type state struct {
		m   *gates.Model
		enc string
	}
	return porcupine.Model{
		Init: func() any { m := &gates.Model{Shared: shared}; return state{m, m.Encode()} },
		Step: func(s, in, out any) (bool, any) {
			m := s.(state).m.Clone()
			op, o := in.(c05In).Op, out.(c05Out)
			switch op.K {
			case "open":
				kind, t := m.Open(op.G, op.Subj, op.Auth, op.A, op.B, op.EIC, op.EOU)
				if kind != o.Kind || (kind == "ok" && !t.Equal(o.T)) {
					return false, s
				}
			case "auth":
				if !m.Has(op.G) {
					return o.Kind == "nogate" || !o.T.Occurred(), s
				}
				if t := m.SetAuthority(op.G, op.Auth); !t.Equal(o.T) {
					return false, s
				}
			case "release":
				if !m.Has(op.G) {
					return o.Kind == "nogate" || !o.T.Occurred(), s
				}
				if t := m.Release(op.G); !t.Equal(o.T) {
					return false, s
				}
			}
			return true, state{m, m.Encode()}
		},
		Equal: func(a, b any) bool { return a.(state).enc == b.(state).enc },
		DescribeOperation: func(in, out any) string {
			o := out.(c05Out)
			return fmt.Sprintf("%+v -> %s %s", in.(c05In).Op, o.Kind, o.T)
		},
	}
}

func runC05Conc(t *testing.T, c c05Conc, st *drv.Stats) (fail *drv.Failure) {
	rec := &hist.Recorder{}
	var traceHash uint64
	var steps int
	var ctrl *Controller[c05Res]
	live := map[int]*Gate[c05Res]{}
	var mu sync.Mutex
	func() {
		defer func() {
			if p := recover(); p != nil {
				if fail == nil {
					fail = drv.Failf("panic", fmt.Sprint(p), "panic: %v", p)
				}
			}
		}()
		synctest.Test(t, func(t *testing.T) {
			conc := xcontrol.ConcurrencyExclusive
			if c.Shared {
				conc = xcontrol.ConcurrencyShared
			}
			var err error
			if ctrl, err = New[c05Res](Config{Concurrency: conc}); err != nil {
				fail = drv.Failf("harness", "new", "%v", err)
				return
			}
			sc := sim.New(c.Sched, sim.NewChoices(c.Seed))
			sim.Install(sc)
			defer sim.Uninstall()
			tasks := sc.NewTasks()
			for ti, ops := range c.Tasks {
				ti, ops := ti, ops
				tasks.Go("t"+strconv.Itoa(ti), func() error {
					for _, op := range ops {
						sim.Yield(sim.ClassTask, "t"+strconv.Itoa(ti)+" "+op.K)
						call := rec.Stamp()
						kind, tr := c05Apply(ctrl, live, &mu, op)
						rec.Add(ti, c05In{op}, call, c05Out{kind, tr}, rec.Stamp())
					}
					return nil
				})
			}
			err = sc.Run(tasks.Done)
			traceHash, steps = sc.Hash(), sc.Steps
			st.AddSteps(sc.Steps)
			for cl, n := range sc.ByClass {
				st.ProbeN("yield_"+cl.String(), n)
			}
			if err != nil {
				if e, ok := err.(*sim.ErrDeadlock); ok {
					fail = drv.Failf("deadlock", "control", "deadlock after %d steps\n%s", sc.Steps, e.Stacks)
				} else {
					st.Inconcl("step_budget_exceeded")
				}
				sc.Abort()
				return
			}
			for _, e := range tasks.Errors {
				fail = drv.Failf("panic", "task", "%s", e)
				return
			}
		})
	}()
	if fail != nil {
		fail.TraceHash = strconv.FormatUint(traceHash, 16)
		return fail
	}
	res, desc := hist.Check(c05Model(c.Shared), rec.Ops, 20*time.Second)
	switch res {
	case "illegal":
		return &drv.Failure{Class: "not-linearizable", Sig: "control-history", TraceHash: strconv.FormatUint(traceHash, 16),
			Msg: "no serial order of the concurrent open/set-authority/release calls explains the reported outcomes and transfers:\n" + desc}
	case "unknown":
		st.Inconcl("porcupine_timeout")
	default:
		st.ProbeN("history_ops_checked", len(rec.Ops))
	}
	// final state: every surviving gate's Authorize outcome must agree pairwise with the
	// rule "at most one controller per region (exclusive)"
	if !c.Shared {
		n := 0
		for _, g := range live {
			if _, err := g.Authorize(); err == nil {
				n++
			}
		}
		if n > 1 {
			return drv.Failf("two-controllers", "final", "after the concurrent run %d gates of one exclusive region are authorized at once", n)
		}
	}
	st.Case(traceHash, steps >= 10)
	return nil
}
