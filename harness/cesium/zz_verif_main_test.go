package cesium

import (
	"testing"

	"pgregory.net/rapid"
	"verifsim/drv"
)

// TestVerif is the single entry point run by /verif/bin/check (VERIF_PROP selects the
// engines). It is skipped under the repository's own test command.
func TestVerif(t *testing.T) {
	drv.Main(t, vEngines()...)
}

type c01Case struct {
	Script vScript `json:"script"`
}

var c01Opts = genOpts{MaxGroups: 2, MaxDataPerGroup: 3, MaxWriters: 6, MaxWrites: 8, MaxReads: 25}

func vEngines() []drv.Runner {
	return []drv.Runner{
		drv.Wrap(drv.Engine[c01Case]{
			Property: "C01", Name: "c01",
			Gen: func(t *rapid.T) c01Case { return c01Case{Script: genScript(t, c01Opts)} },
			Run: func(t *testing.T, c c01Case, st *drv.Stats) *drv.Failure { return runSeq(t, c.Script, st, nil) },
		}),
		drv.Wrap(drv.Engine[c02Case]{Property: "C02", Name: "c02", Gen: genC02, Run: runC02, BatchChecks: 20}),
		drv.Wrap(drv.Engine[c10Case]{Property: "C10", Name: "c10", Gen: genC10, Run: runC10}),
		drv.Wrap(drv.Engine[c09Case]{Property: "C09", Name: "c09", Gen: genC09, Run: runC09, BatchChecks: 100}),
		drv.Wrap(drv.Engine[c20Case]{Property: "C20", Name: "c20", Gen: genC20, Run: runC20, BatchChecks: 100}),
		drv.Wrap(drv.Engine[c20sCase]{Property: "C20", Name: "c20-seq", Gen: genC20Seq, Run: runC20Seq, BatchChecks: 50}),
		// the write-path clause of C05 (only authorized writes take effect) is decided by the same engine
		drv.Wrap(drv.Engine[c20Case]{Property: "C05", Name: "c20", Gen: genC20, Run: runC20, BatchChecks: 100}),
		drv.Wrap(drv.Engine[c05oCase]{Property: "C05", Name: "c05-open", Gen: genC05Open, Run: runC05Open, BatchChecks: 100}),
		drv.Wrap(drv.Engine[c04Case]{Property: "C04", Name: "c04", Gen: genC04, Run: runC04}),
	}
}
