package cesium

// Injected by /verif via `go test -overlay`; never part of the repository.
// c20-seq (C20, sequential): what each of several streamers receives for each write of a
// script, with the shapes the concurrent engine does not draw: frames of 130 series
// (the wide path of the frame filter), a writer with AutoIndex whose frames omit the
// index, a writer of lower authority opened on the data channel alone (its writes are
// refused by the data channel, not by the index), and re-subscriptions between writes.
// Every write is followed by quiescence (synctest.Wait), then every streamer's outlet is
// drained and compared with the model: exactly the series of its currently subscribed
// channels that an authorized write produced, with the written values; for an
// auto-stamped index as many strictly increasing timestamps as the data series has
// samples; nothing for refused writes.

import (
	"context"
	"fmt"
	"sort"
	"strconv"
	"strings"
	"testing"
	"testing/synctest"

	"github.com/synnaxlabs/x/confluence"
	xcontrol "github.com/synnaxlabs/x/control"
	xfs "github.com/synnaxlabs/x/io/fs"
	"github.com/synnaxlabs/x/signal"
	"github.com/synnaxlabs/x/telem"
	"pgregory.net/rapid"
	"verifsim/drv"
	"verifsim/simfs"
)

const c20sNV = 130 // virtual channels: a frame of all of them takes the filter's wide path

type c20sOp struct {
	K string `json:"k"` // wide auto low sub
	N int    `json:"n,omitempty"`
	S int    `json:"s,omitempty"`
	// sub: the new subscription, as positions (0 index, 1 data, 2.. virtual)
	Keys []int `json:"keys,omitempty"`
}

type c20sCase struct {
	Streamers [][]int  `json:"streamers"`
	Ops       []c20sOp `json:"ops"`
}

func c20sKey(pos int) ChannelKey {
	switch pos {
	case 0:
		return 1
	case 1:
		return 2
	}
	return ChannelKey(1000 + pos - 2)
}

func genC20Seq(t *rapid.T) c20sCase {
	keys := func(label string) []int {
		var out []int
		if rapid.Bool().Draw(t, label+"_idx") {
			out = append(out, 0)
		}
		if rapid.Bool().Draw(t, label+"_data") {
			out = append(out, 1)
		}
		// one or two runs of virtual channels, so that subscriptions overlap
		for r := rapid.IntRange(0, 2).Draw(t, label+"_runs"); r > 0; r-- {
			a := rapid.IntRange(0, c20sNV-1).Draw(t, label+"_a")
			n := rapid.IntRange(1, 40).Draw(t, label+"_n")
			for i := a; i < a+n && i < c20sNV; i++ {
				out = append(out, 2+i)
			}
		}
		if len(out) == 0 {
			out = []int{2 + rapid.IntRange(0, c20sNV-1).Draw(t, label+"_one")}
		}
		sort.Ints(out)
		var ded []int
		for i, k := range out {
			if i == 0 || k != out[i-1] {
				ded = append(ded, k)
			}
		}
		return ded
	}
	var c c20sCase
	for s := rapid.IntRange(1, 3).Draw(t, "nstreamers"); s > 0; s-- {
		c.Streamers = append(c.Streamers, keys("sk"))
	}
	for n := rapid.IntRange(2, 8).Draw(t, "n"); n > 0; n-- {
		switch rapid.IntRange(0, 6).Draw(t, "k") {
		case 0, 1:
			c.Ops = append(c.Ops, c20sOp{K: "wide", N: rapid.IntRange(1, 2).Draw(t, "wn")})
		case 2, 3:
			c.Ops = append(c.Ops, c20sOp{K: "auto", N: rapid.IntRange(1, 3).Draw(t, "an")})
		case 4:
			c.Ops = append(c.Ops, c20sOp{K: "low", N: rapid.IntRange(1, 3).Draw(t, "ln")})
		default:
			c.Ops = append(c.Ops, c20sOp{K: "sub", S: rapid.IntRange(0, len(c.Streamers)-1).Draw(t, "ss"), Keys: keys("rk")})
		}
	}
	return c
}

func runC20Seq(t *testing.T, c c20sCase, st *drv.Stats) (fail *drv.Failure) {
	defer func() {
		if p := recover(); p != nil && fail == nil {
			fail = drv.Failf("panic", "c20-seq:"+drv_firstLine(fmt.Sprint(p)), "panic: %v\n%s", p, stackTrim())
		}
	}()
	synctest.Test(t, func(t *testing.T) {
		ctx := context.Background()
		db, err := Open(ctx, "", WithFS(xfs.NewSim(simfs.New())))
		if err != nil {
			fail = drv.Failf("unexpected-error", "open-db", "%v", err)
			return
		}
		type live struct {
			in     confluence.Inlet[StreamerRequest]
			out    confluence.Outlet[StreamerResponse]
			sctx   signal.Context
			cancel func()
			sub    map[ChannelKey]bool
		}
		var streamers []*live
		var writers []*Writer
		defer func() {
			for _, w := range writers {
				_ = w.Close()
			}
			for _, s := range streamers {
				s.in.Close()
			}
			synctest.Wait()
			for _, s := range streamers {
				for range s.out.Outlet() {
				}
				_ = s.sctx.Wait()
				s.cancel()
			}
			if err := db.Close(); err != nil && fail == nil {
				fail = drv.Failf("unexpected-error", "close-db", "%v", err)
			}
		}()
		chans := []Channel{{Key: 1, Name: "idx", DataType: telem.TimeStampT, IsIndex: true}, {Key: 2, Name: "data", DataType: telem.Int64T, Index: 1}}
		var vkeys []ChannelKey
		for i := 0; i < c20sNV; i++ {
			chans = append(chans, Channel{Key: ChannelKey(1000 + i), Name: "v" + strconv.Itoa(i), DataType: telem.Int64T, Virtual: true})
			vkeys = append(vkeys, ChannelKey(1000+i))
		}
		if err := db.CreateChannel(ctx, chans...); err != nil {
			fail = drv.Failf("unexpected-error", "create-channels", "%v", err)
			return
		}
		open := func(cfg WriterConfig) *Writer {
			if fail != nil {
				return nil
			}
			w, err := db.OpenWriter(ctx, cfg)
			if err != nil {
				fail = drv.Failf("unexpected-error", "open-writer:"+errSig(err), "open writer %s: %v", cfg.ControlSubject.Key, err)
				return nil
			}
			writers = append(writers, w)
			return w
		}
		wide := open(WriterConfig{Channels: vkeys, Start: telem.Now(), ControlSubject: xcontrol.Subject{Key: "wide"}, Sync: new(true), Authorities: []xcontrol.Authority{255}})
		auto := open(WriterConfig{Channels: []ChannelKey{2}, AutoIndex: new(true), ControlSubject: xcontrol.Subject{Key: "auto"}, Sync: new(true), Authorities: []xcontrol.Authority{200}})
		low := open(WriterConfig{Channels: []ChannelKey{2}, Start: telem.Now(), ControlSubject: xcontrol.Subject{Key: "low"}, Sync: new(true), Authorities: []xcontrol.Authority{1}})
		if fail != nil {
			return
		}
		keySetOf := func(pos []int) (map[ChannelKey]bool, []ChannelKey) {
			m := map[ChannelKey]bool{}
			var l []ChannelKey
			for _, p := range pos {
				m[c20sKey(p)] = true
				l = append(l, c20sKey(p))
			}
			return m, l
		}
		for _, pos := range c.Streamers {
			m, l := keySetOf(pos)
			sr, err := db.NewStreamer(ctx, StreamerConfig{Channels: l})
			if err != nil {
				fail = drv.Failf("unexpected-error", "new-streamer:"+errSig(err), "%v", err)
				return
			}
			in, out := confluence.Attach(sr, 64)
			sctx, cancel := signal.Isolated()
			sr.Flow(sctx, confluence.CloseOutputInletsOnExit())
			streamers = append(streamers, &live{in: in, out: out, sctx: sctx, cancel: cancel, sub: m})
		}
		synctest.Wait()
		seq := int64(0)
		var lastStamp telem.TimeStamp
		// judge compares what every streamer received since the last call with exp
		// (values per channel; for the index only the number of samples is predicted)
		judge := func(what string, exp map[ChannelKey][]int64, idxSamples int) *drv.Failure {
			synctest.Wait()
			for si, s := range streamers {
				got := map[ChannelKey][]int64{}
				var stamps []telem.TimeStamp
			drain:
				for {
					select {
					case res, ok := <-s.out.Outlet():
						if !ok {
							return drv.Failf("streamer-ended", "during-script", "%s: streamer %d's output was closed", what, si)
						}
						for ri, k := range res.Frame.RawKeys() {
							if res.Frame.ShouldExcludeRaw(ri) {
								continue
							}
							ser := res.Frame.RawSeriesAt(ri)
							if k == 1 {
								stamps = append(stamps, telem.UnmarshalSeries[telem.TimeStamp](ser)...)
								got[k] = append(got[k], 0)
								continue
							}
							got[k] = append(got[k], telem.UnmarshalSeries[int64](ser)...)
						}
					default:
						break drain
					}
				}
				for k := range got {
					if !s.sub[k] {
						return drv.Failf("received-unsubscribed-channel", c20sKind(k), "%s: streamer %d received a series of channel %d, which it is not subscribed to (subscribed: %d channels)", what, si, k, len(s.sub))
					}
					if _, ok := exp[k]; !ok && !(k == 1 && idxSamples > 0) {
						return drv.Failf("received-unwritten-data", c20sKind(k), "%s: streamer %d received %v for channel %d, which no authorized write produced", what, si, got[k], k)
					}
				}
				for k, want := range exp {
					if !s.sub[k] {
						continue
					}
					if fmt.Sprint(got[k]) != fmt.Sprint(want) {
						return drv.Failf("subscribed-data-missing-or-wrong", c20sKind(k), "%s: streamer %d, subscribed to channel %d, received %v for it; the write carried %v", what, si, k, got[k], want)
					}
				}
				if s.sub[1] && idxSamples > 0 {
					if len(stamps) != idxSamples {
						return drv.Failf("subscribed-data-missing-or-wrong", "auto-index", "%s: streamer %d is subscribed to the index; the writer stamped %d samples but the streamer received %d index samples", what, si, idxSamples, len(stamps))
					}
					for _, ts := range stamps {
						if !ts.After(lastStamp) {
							return drv.Failf("auto-index-not-increasing", "stamps", "%s: streamer %d received index stamp %v after %v", what, si, ts, lastStamp)
						}
					}
				}
				if si == len(streamers)-1 && len(stamps) > 0 {
					lastStamp = stamps[len(stamps)-1]
				}
			}
			return nil
		}
		for oi, op := range c.Ops {
			what := fmt.Sprintf("op %d %s n=%d", oi, op.K, op.N)
			switch op.K {
			case "wide":
				series := make([]telem.Series, len(vkeys))
				exp := map[ChannelKey][]int64{}
				for i, k := range vkeys {
					vals := make([]int64, op.N)
					for j := range vals {
						seq++
						vals[j] = seq
					}
					series[i] = telem.NewSeriesV(vals...)
					exp[k] = vals
				}
				ok, err := wide.Write(telem.MultiFrame(vkeys, series))
				if err != nil || !ok {
					fail = drv.Failf("unexpected-error", "wide-write", "%s: authorized=%v err=%v", what, ok, err)
					return
				}
				if fail = judge(what, exp, 0); fail != nil {
					return
				}
				st.Probe("wide_frame_written")
			case "auto":
				vals := make([]int64, op.N)
				for j := range vals {
					seq++
					vals[j] = seq
				}
				ok, err := auto.Write(telem.UnaryFrame[ChannelKey](2, telem.NewSeriesV(vals...)))
				if err != nil || !ok {
					fail = drv.Failf("unexpected-error", "auto-write:"+errSig(err), "%s: authorized=%v err=%v", what, ok, err)
					return
				}
				if fail = judge(what, map[ChannelKey][]int64{2: vals}, op.N); fail != nil {
					return
				}
				st.Probe("auto_indexed_write")
			case "low":
				vals := make([]int64, op.N)
				for j := range vals {
					vals[j] = -666
				}
				ok, err := low.Write(telem.UnaryFrame[ChannelKey](2, telem.NewSeriesV(vals...)))
				if err != nil {
					fail = drv.Failf("unexpected-error", "low-write:"+errSig(err), "%s: %v", what, err)
					return
				}
				if ok {
					fail = drv.Failf("wrong-authorization", "data-only-writer", "%s: the write of the lower-authority writer was reported authorized", what)
					return
				}
				if fail = judge(what, map[ChannelKey][]int64{}, 0); fail != nil {
					return
				}
				st.Probe("unauthorized_data_only_write")
			case "sub":
				if op.S >= len(streamers) {
					continue
				}
				m, l := keySetOf(op.Keys)
				streamers[op.S].in.Inlet() <- StreamerRequest{Channels: l}
				synctest.Wait()
				streamers[op.S].sub = m
				st.Probe("resubscribed")
			}
		}
		overlap := false
		for i := range streamers {
			for j := i + 1; j < len(streamers); j++ {
				for k := range streamers[i].sub {
					if streamers[j].sub[k] {
						overlap = true
					}
				}
			}
		}
		if overlap {
			st.Probe("streamers_with_overlapping_subscriptions")
		}
		var shape strings.Builder
		fmt.Fprintf(&shape, "%v|", c.Streamers)
		for _, op := range c.Ops {
			fmt.Fprintf(&shape, "%s%d%d%v;", op.K, op.N, op.S, op.Keys)
		}
		st.Case(drv.Hash64(shape.String()), len(c.Ops) >= 2)
	})
	return fail
}

func c20sKind(k ChannelKey) string {
	switch {
	case k == 1:
		return "index"
	case k == 2:
		return "data"
	}
	return "virtual"
}
