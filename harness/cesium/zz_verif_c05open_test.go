package cesium

// Injected by /verif via `go test -overlay`; never part of the repository.
// c05-open (C05 at the level of the database's writers): sequential scripts of OpenWriter
// (several channels of index groups and virtual channels in one writer, one authority for
// all or one per channel, with and without ErrOnUnauthorized), SetAuthority, Close and
// writes to virtual channels, by several subjects. Model: per channel the list of open
// gates (subject, authority, order of opening); the holder is the highest authority,
// ties go to the earlier opener. After every operation DB.ControlStates() must name
// exactly the model's holder of every channel; an open that is refused must leave no
// trace (the same subject can open again, nobody loses control); a write to a virtual
// channel (shared control) is authorized exactly when its writer's authority is the
// holder's.

import (
	"context"
	"fmt"
	"runtime/debug"
	"sort"
	"strconv"
	"strings"
	"testing"

	xcontrol "github.com/synnaxlabs/x/control"
	"github.com/synnaxlabs/x/errors"
	xfs "github.com/synnaxlabs/x/io/fs"
	"github.com/synnaxlabs/x/telem"
	"pgregory.net/rapid"
	"verifsim/drv"
	"verifsim/simfs"
)

type c05oOp struct {
	K string `json:"k"` // open close auth write
	W int    `json:"w"`
	// open: positions into the channel list (order matters: the writer opens its gates in
	// this order), authorities (one, or one per channel), strict = ErrOnUnauthorized
	Chans  []int `json:"chans,omitempty"`
	Auths  []int `json:"auths,omitempty"`
	Strict bool  `json:"strict,omitempty"`
	// auth: the new authority (for all the writer's channels); write: position of the
	// virtual channel written
	A int `json:"a,omitempty"`
}

type c05oCase struct {
	Ops []c05oOp `json:"ops"`
}

// channel list: 0,1 = index+data of group A; 2,3 = index+data of group B; 4,5 = virtual
var c05oKeys = []ChannelKey{11, 12, 21, 22, 31, 32}

func c05oVirtual(pos int) bool { return pos >= 4 }

func genC05Open(t *rapid.T) c05oCase {
	var c c05oCase
	nextW := 0
	open := map[int][]int{}
	for n := rapid.IntRange(2, 14).Draw(t, "n"); n > 0; n-- {
		k := rapid.IntRange(0, 9).Draw(t, "k")
		var live []int
		for w := range open {
			live = append(live, w)
		}
		sort.Ints(live)
		switch {
		case k < 4 || len(live) == 0:
			if nextW >= 5 {
				continue
			}
			op := c05oOp{K: "open", W: nextW, Strict: rapid.IntRange(0, 2).Draw(t, "strict") == 0}
			// a refused open may be retried by the same writer id (same subject)
			if rapid.IntRange(0, 3).Draw(t, "retry") == 0 && nextW > 0 {
				op.W = rapid.IntRange(0, nextW-1).Draw(t, "retry_w")
				if _, isOpen := open[op.W]; isOpen {
					op.W = nextW
				}
			}
			perm := rapid.Permutation([]int{0, 1, 2, 3, 4, 5}).Draw(t, "perm")
			for _, p := range perm[:rapid.IntRange(1, 5).Draw(t, "nch")] {
				op.Chans = append(op.Chans, p)
			}
			// virtual channels are opened first by the writer: put them first half of the time
			if rapid.Bool().Draw(t, "virtual_first") {
				sort.SliceStable(op.Chans, func(i, j int) bool { return c05oVirtual(op.Chans[i]) && !c05oVirtual(op.Chans[j]) })
			}
			if rapid.Bool().Draw(t, "per_channel") {
				for range op.Chans {
					op.Auths = append(op.Auths, rapid.SampledFrom([]int{0, 1, 100, 100, 200, 255}).Draw(t, "auth_i"))
				}
			} else {
				op.Auths = []int{rapid.SampledFrom([]int{0, 1, 100, 100, 200, 255}).Draw(t, "auth")}
			}
			if op.W == nextW {
				nextW++
			}
			open[op.W] = op.Chans // optimistic; the runner knows whether it was refused
			c.Ops = append(c.Ops, op)
		case k < 6:
			w := live[rapid.IntRange(0, len(live)-1).Draw(t, "cw")]
			delete(open, w)
			c.Ops = append(c.Ops, c05oOp{K: "close", W: w})
		case k < 8:
			w := live[rapid.IntRange(0, len(live)-1).Draw(t, "aw")]
			c.Ops = append(c.Ops, c05oOp{K: "auth", W: w, A: rapid.SampledFrom([]int{0, 1, 100, 100, 200, 255}).Draw(t, "na")})
		default:
			w := live[rapid.IntRange(0, len(live)-1).Draw(t, "ww")]
			c.Ops = append(c.Ops, c05oOp{K: "write", W: w, A: rapid.IntRange(4, 5).Draw(t, "wv")})
		}
	}
	return c
}

type c05oGate struct {
	w, auth, pos int
}

func runC05Open(t *testing.T, c c05oCase, st *drv.Stats) (fail *drv.Failure) {
	defer func() {
		if p := recover(); p != nil && fail == nil {
			fail = drv.Failf("panic", "c05-open:"+fmt.Sprint(p), "panic: %v\n%s", p, debug.Stack())
		}
	}()
	ctx := context.Background()
	db, err := Open(ctx, "", WithFS(xfs.NewSim(simfs.New())))
	if err != nil {
		return drv.Failf("unexpected-error", "open-db", "%v", err)
	}
	writers := map[int]*Writer{}
	defer func() {
		for _, w := range writers {
			_ = w.Close()
		}
		if err := db.Close(); err != nil && fail == nil {
			fail = drv.Failf("unexpected-error", "close-db", "%v", err)
		}
	}()
	mk := func(ch Channel) *drv.Failure {
		if err := db.CreateChannel(ctx, ch); err != nil {
			return drv.Failf("unexpected-error", "create-channel", "%v", err)
		}
		return nil
	}
	for _, ch := range []Channel{
		{Key: 11, Name: "a_idx", DataType: telem.TimeStampT, IsIndex: true}, {Key: 12, Name: "a_d", DataType: telem.Int64T, Index: 11},
		{Key: 21, Name: "b_idx", DataType: telem.TimeStampT, IsIndex: true}, {Key: 22, Name: "b_d", DataType: telem.Int64T, Index: 21},
		{Key: 31, Name: "v1", DataType: telem.Int64T, Virtual: true}, {Key: 32, Name: "v2", DataType: telem.Int64T, Virtual: true},
	} {
		if f := mk(ch); f != nil {
			return f
		}
	}
	if err := db.ConfigureControlUpdateChannel(ctx, 99, "control_updates"); err != nil {
		return drv.Failf("unexpected-error", "configure-digests", "%v", err)
	}
	gates := map[int][]c05oGate{} // channel position -> gates
	chansOf := map[int][]int{}
	nextPos := 0
	holder := func(pos int) *c05oGate {
		var best *c05oGate
		for i := range gates[pos] {
			g := &gates[pos][i]
			if best == nil || g.auth > best.auth || (g.auth == best.auth && g.pos < best.pos) {
				best = g
			}
		}
		return best
	}
	check := func(what string) *drv.Failure {
		got := map[ChannelKey]string{}
		for _, tr := range db.ControlStates().Transfers {
			if tr.To == nil || tr.To.Resource == 99 {
				continue
			}
			got[tr.To.Resource] = tr.To.Subject.Key + "@" + strconv.Itoa(int(tr.To.Authority))
		}
		for pos, key := range c05oKeys {
			want := ""
			if h := holder(pos); h != nil {
				want = "w" + strconv.Itoa(h.w) + "@" + strconv.Itoa(h.auth)
			}
			if got[key] != want {
				var all []string
				for _, g := range gates[pos] {
					all = append(all, fmt.Sprintf("w%d@%d(opened %d)", g.w, g.auth, g.pos))
				}
				kind := "unary"
				if c05oVirtual(pos) {
					kind = "virtual"
				}
				return drv.Failf("wrong-holder", kind+":"+strings.SplitN(what, " ", 3)[1], "%s: the database reports %q in control of channel %d, the open writers are [%s]: the holder is %q", what, got[key], key, strings.Join(all, " "), want)
			}
		}
		return nil
	}
	for oi, op := range c.Ops {
		what := fmt.Sprintf("op%d %s w%d chans=%v auths=%v strict=%v a=%d", oi, op.K, op.W, op.Chans, op.Auths, op.Strict, op.A)
		switch op.K {
		case "open":
			if _, isOpen := writers[op.W]; isOpen || len(op.Chans) == 0 {
				continue
			}
			auth := func(i int) int {
				if len(op.Auths) == 1 {
					return op.Auths[0]
				}
				return op.Auths[i%len(op.Auths)]
			}
			cfg := WriterConfig{Start: 1000 * telem.SecondTS, ControlSubject: xcontrol.Subject{Key: "w" + strconv.Itoa(op.W), Name: "writer " + strconv.Itoa(op.W)},
				ErrOnUnauthorized: new(op.Strict), Sync: new(true)}
			refused := false
			for i, p := range op.Chans {
				cfg.Channels = append(cfg.Channels, c05oKeys[p])
				if len(op.Auths) > 1 {
					cfg.Authorities = append(cfg.Authorities, xcontrol.Authority(auth(i)))
				}
				// exclusive control (unary channels): a later gate of equal authority is not in
				// control; shared control (virtual channels): a gate is refused only below the
				// holder's authority
				if h := holder(p); h != nil && (auth(i) < h.auth || (auth(i) == h.auth && !c05oVirtual(p))) {
					refused = refused || op.Strict
				}
			}
			if len(op.Auths) == 1 {
				cfg.Authorities = []xcontrol.Authority{xcontrol.Authority(op.Auths[0])}
			}
			w, err := db.OpenWriter(ctx, cfg)
			switch {
			case refused && err == nil:
				_ = w.Close()
				return drv.Failf("unauthorized-open-accepted", "strict", "%s: the writer would not be in control of every channel and asked for an error in that case, but the open succeeded", what)
			case refused:
				if !errors.Is(err, xcontrol.ErrUnauthorized) {
					return drv.Failf("unexpected-error", "refused-open:"+errSig(err), "%s: %v", what, err)
				}
				st.Probe("open_refused_unauthorized")
				virtualBefore := false
				for i, p := range op.Chans {
					if c05oVirtual(p) {
						if h := holder(p); h == nil || auth(i) > h.auth {
							virtualBefore = true
						}
					}
				}
				if virtualBefore {
					st.Probe("open_refused_after_a_virtual_channel_was_won")
				}
			case err != nil:
				return drv.Failf("legal-open-refused", errSig(err), "%s: %v", what, err)
			default:
				writers[op.W] = w
				chansOf[op.W] = op.Chans
				for i, p := range op.Chans {
					gates[p] = append(gates[p], c05oGate{w: op.W, auth: auth(i), pos: nextPos})
					nextPos++
				}
				st.Probe("open_ok")
				if len(op.Auths) > 1 {
					st.Probe("open_with_per_channel_authorities")
				}
			}
		case "close":
			w, ok := writers[op.W]
			if !ok {
				continue
			}
			if err := w.Close(); err != nil {
				return drv.Failf("unexpected-error", "close-writer:"+errSig(err), "%s: %v", what, err)
			}
			delete(writers, op.W)
			for _, p := range chansOf[op.W] {
				var keep []c05oGate
				for _, g := range gates[p] {
					if g.w != op.W {
						keep = append(keep, g)
					}
				}
				gates[p] = keep
			}
			st.Probe("close")
		case "auth":
			w, ok := writers[op.W]
			if !ok {
				continue
			}
			if err := w.SetAuthority(WriterConfig{Authorities: []xcontrol.Authority{xcontrol.Authority(op.A)}}); err != nil {
				return drv.Failf("unexpected-error", "set-authority:"+errSig(err), "%s: %v", what, err)
			}
			for _, p := range chansOf[op.W] {
				for i := range gates[p] {
					if gates[p][i].w == op.W {
						gates[p][i].auth = op.A
					}
				}
			}
			st.Probe("set_authority")
		case "write":
			w, ok := writers[op.W]
			if !ok {
				continue
			}
			has := false
			for _, p := range chansOf[op.W] {
				has = has || p == op.A
			}
			h := holder(op.A)
			if !has || h == nil {
				continue
			}
			inControl := h.w == op.W
			for _, g := range gates[op.A] {
				// shared control: every gate at the holder's authority may write
				if g.w == op.W && g.auth == h.auth {
					inControl = true
				}
			}
			if !inControl && *w.cfg.ErrOnUnauthorized {
				continue // would end the writer with an error: not part of this script
			}
			authorized, err := w.Write(telem.UnaryFrame(c05oKeys[op.A], telem.NewSeriesV[int64](int64(oi))))
			if err != nil {
				return drv.Failf("unexpected-error", "write:"+errSig(err), "%s: %v", what, err)
			}
			if authorized != inControl {
				return drv.Failf("wrong-authorization", fmt.Sprintf("virtual:authorized=%v", authorized), "%s: Write reported authorized=%v, but the holder of channel %d is w%d@%d", what, authorized, c05oKeys[op.A], h.w, h.auth)
			}
			if inControl {
				st.Probe("write_in_control")
			} else {
				st.Probe("write_not_in_control")
			}
		}
		if f := check(what); f != nil {
			return f
		}
	}
	var shape strings.Builder
	for _, op := range c.Ops {
		fmt.Fprintf(&shape, "%s%d%v%v%v;", op.K, op.W, op.Chans, op.Auths, op.Strict)
	}
	st.Case(drv.Hash64(shape.String()), len(writers) > 0 || len(c.Ops) > 3)
	return nil
}
