package cesium

import (
	"fmt"
	"os"
	"strconv"
	"strings"
	"testing"

	"github.com/synnaxlabs/x/telem"
	"pgregory.net/rapid"
	"verifsim/drv"
)

// C04: time-range deletes remove exactly the range; garbage collection is invisible.

var c04Opts = genOpts{MaxGroups: 2, MaxDataPerGroup: 3, MaxWriters: 6, MaxWrites: 8, MaxReads: 20,
	Deletes: true, GC: true, MaxDeletes: 6, MaxGC: 4}

type c04Case struct {
	Script vScript `json:"script"`
}

// genRepeatAfterWipe builds the "same history twice" template: a short history of
// writes, deletes and reads in one time slot, then a wipe of that slot, then the same
// history again (same timestamps, delete bounds and read ranges, new values). Anything
// that is cached or remembered by timestamp across the wipe shows up as a wrong read in
// the second round.
func genRepeatAfterWipe(t *rapid.T) vScript {
	sch := genSchema(t, genOpts{MaxGroups: 2, MaxDataPerGroup: 3})
	type grp struct {
		idx  uint32
		data []uint32
	}
	var groups []grp
	for _, c := range sch.Chans {
		if c.IsIndex {
			groups = append(groups, grp{idx: c.Key})
		} else {
			groups[len(groups)-1].data = append(groups[len(groups)-1].data, c.Key)
		}
	}
	g := groups[rapid.IntRange(0, len(groups)-1).Draw(t, "g")]
	chans := append([]uint32{g.idx}, g.data...)
	slot := int64(rapid.IntRange(1, 10).Draw(t, "slot"))
	var ts []int64
	cur := slot*vSlot + int64(rapid.IntRange(0, 5).Draw(t, "soff"))
	for n := rapid.IntRange(3, 12).Draw(t, "n"); n > 0; n-- {
		ts = append(ts, cur)
		cur += int64(rapid.IntRange(1, 12).Draw(t, "dt"))
	}
	lo, hi := ts[0], ts[len(ts)-1]+1
	bound := func(label string) int64 {
		if rapid.IntRange(0, 2).Draw(t, label+"_k") == 0 {
			return ts[rapid.IntRange(0, len(ts)-1).Draw(t, label+"_i")] + int64(rapid.IntRange(0, 1).Draw(t, label+"_o"))
		}
		return int64(rapid.IntRange(int(lo)-2, int(hi)+2).Draw(t, label))
	}
	rng := func(label string) (int64, int64) {
		a, b := bound(label+"a"), bound(label+"b")
		if a > b {
			a, b = b, a
		}
		if a == b {
			b++
		}
		return a, b
	}
	// the history template
	var cuts []int
	for i := 1; i < len(ts); i++ {
		if rapid.IntRange(0, 3).Draw(t, "cut") == 0 {
			cuts = append(cuts, i)
		}
	}
	var body []vOp
	for k := rapid.IntRange(1, 3).Draw(t, "nops"); k > 0; k-- {
		a, b := rng("r")
		var keys []uint32
		for _, c := range chans {
			if rapid.IntRange(0, 2).Draw(t, "rk") > 0 {
				keys = append(keys, c)
			}
		}
		if len(keys) == 0 {
			keys = chans[len(chans)-1:]
		}
		if rapid.IntRange(0, 1).Draw(t, "isdel") == 0 {
			dk := chans
			if len(g.data) > 0 && rapid.IntRange(0, 1).Draw(t, "donly") == 0 {
				dk = g.data
			}
			body = append(body, vOp{K: "delete", A: a, B: b, Keys: dk})
		}
		body = append(body, vOp{K: "read", A: a, B: b, Keys: keys})
		a2, b2 := rng("s")
		body = append(body, vOp{K: "read", A: a2, B: b2, Keys: keys})
	}
	round := func(w int) []vOp {
		ops := []vOp{{K: "open", W: w, Start: ts[0], Chans: chans, Persist: -1, Sync: true}}
		prev := 0
		for _, c := range append(append([]int(nil), cuts...), len(ts)) {
			ops = append(ops, vOp{K: "write", W: w, TS: append([]int64(nil), ts[prev:c]...)})
			prev = c
		}
		ops = append(ops, vOp{K: "close", W: w})
		return append(ops, body...)
	}
	var ops []vOp
	ops = append(ops, round(0)...)
	rounds := rapid.IntRange(1, 2).Draw(t, "rounds")
	for r := 1; r <= rounds; r++ {
		ops = append(ops, vOp{K: "delete", A: lo, B: hi, Keys: chans})
		if rapid.IntRange(0, 2).Draw(t, "gcb") == 0 {
			ops = append(ops, vOp{K: "gc"})
		}
		ops = append(ops, round(r)...)
	}
	ops = append(ops, vOp{K: "read", A: lo - 1, B: hi + 1, Keys: chans})
	return vScript{Schema: sch, Ops: ops}
}

func genC04(t *rapid.T) c04Case {
	if rapid.IntRange(0, 4).Draw(t, "template") == 0 {
		sc := genRepeatAfterWipe(t)
		if rapid.Bool().Draw(t, "gcth0") {
			sc.Schema.GCThresh = 0.0000001
		}
		return c04Case{Script: sc}
	}
	sc := genScript(t, c04Opts)
	switch rapid.IntRange(0, 2).Draw(t, "gcth") {
	case 0:
		sc.Schema.GCThresh = 0.0000001 // always collects
	case 1:
		sc.Schema.GCThresh = float32(rapid.IntRange(1, 90).Draw(t, "gcthv")) / 100
	}
	return c04Case{Script: sc}
}

func (r *vRun) dataBytes() int64 {
	var n int64
	for p, b := range r.core.Dump() {
		if strings.HasSuffix(p, ".domain") && !strings.HasSuffix(p, "index.domain") && !strings.HasSuffix(p, "counter.domain") {
			n += int64(len(b))
		}
	}
	return n
}

func c04Step(r *vRun, i int, op vOp) (bool, *drv.Failure) {
	switch op.K {
	case "delete":
		named := map[uint32]bool{}
		var idxKeys, dataKeys []uint32
		for _, k := range op.Keys {
			named[k] = true
			if r.chans[k].IsIndex {
				idxKeys = append(idxKeys, k)
			} else {
				dataKeys = append(dataKeys, k)
			}
		}
		// What the property allows for each named index channel, given that named data
		// channels are deleted by the same request.
		mustRefuse, maySucceed := false, true
		mustSucceed := true
		for _, idx := range idxKeys {
			for _, c := range r.sch.Chans {
				if c.IsIndex || c.Index != idx {
					continue
				}
				// a named dependent's samples in the range go away with the same request
				if !named[c.Key] && r.model.Count(c.Key, op.A, op.B) > 0 {
					mustRefuse = true
					maySucceed = false
				}
				// a dependent domain can only overlap the range if the dependent has
				// a sample in one of the time slots the range touches
				lo, hi := (op.A/vSlot)*vSlot, (op.B/vSlot+1)*vSlot
				if r.model.Count(c.Key, lo, hi) > 0 {
					mustSucceed = false
				}
			}
		}
		before := r.model.Clone()
		pre := map[uint32][]vPtr{}
		for _, k := range op.Keys {
			pre[k] = r.layout(k)
		}
		// Known-finding precondition (see known_findings.json): a bound of the delete
		// falls strictly inside a domain whose start precedes its first sample (a domain
		// created by file rollover starts at the previous domain's end). The offset
		// computation then rewrites the domain's start to 0 or its end to 1, after which
		// anything may fail, so every later failure of this run carries the prefix.
		// every channel of the index groups the request touches (a bound that falls into
		// the sample-free start of a sibling's domain desynchronises index and data)
		groupKeys := map[uint32]bool{}
		for _, k := range op.Keys {
			for _, c := range r.sch.Chans {
				if c.Index == r.chans[k].Index {
					groupKeys[c.Key] = true
				}
			}
		}
		for _, c := range r.sch.Chans {
			k := c.Key
			if !groupKeys[k] {
				continue
			}
			lay := pre[k]
			if lay == nil {
				lay = r.layout(k)
			}
			if os.Getenv("VERIF_DEBUG") != "" {
				fmt.Printf("DEBUG pre-delete layout ch %d: %+v\n", k, lay)
			}
			for _, d := range lay {
				first := before.Read(k, d.Start, d.End)
				gap := len(first) > 0 && first[0].TS > d.Start
				inDomain := (d.Start < op.A && op.A < d.End) || (d.Start < op.B && op.B < d.End)
				inGap := gap && ((d.Start <= op.A && op.A < first[0].TS) || (d.Start <= op.B && op.B < first[0].TS))
				if gap && (inDomain || inGap) {
					r.taint = "delete-cut-inside-domain-with-leading-gap"
					r.st.Probe("delete_cut_in_leading_gap_domain")
				}
			}
		}
		err := r.db.DeleteTimeRange(r.ctx, op.Keys, telem.TimeRange{Start: telem.TimeStamp(op.A), End: telem.TimeStamp(op.B)})
		removed := 0
		if err != nil {
			if !mustRefuse && (len(idxKeys) == 0 || mustSucceed) {
				return false, drv.Failf("delete-refused", "delete:"+errSig(err), "op %d delete [%d,%d) keys=%v refused although nothing forbids it: %v", i, op.A, op.B, op.Keys, err)
			}
			r.st.Probe("index_delete_refused")
			// data channels named in the request may or may not have been deleted
			// before the refusal; the property only says the index delete is refused.
			// Determine which by reading: each named data channel must equal either its
			// old or its new content.
			for _, k := range dataKeys {
				fr, rerr := r.db.Read(r.ctx, telem.TimeRangeMax, ChannelKey(k))
				if rerr != nil {
					return false, drv.Failf("unexpected-error", "read:"+errSig(rerr), "op %d read after refused delete: %v", i, rerr)
				}
				got := decodeVals(fr.Get(ChannelKey(k)))
				if len(got) != len(before.All(k)) {
					r.model.Delete(k, op.A, op.B)
				}
			}
		} else {
			if !maySucceed {
				return false, drv.Failf("delete-not-refused", "index-delete-with-dependent-data", "op %d delete [%d,%d) keys=%v succeeded although an indexed channel still has data in the range", i, op.A, op.B, op.Keys)
			}
			for _, k := range op.Keys {
				removed += r.model.Delete(k, op.A, op.B)
			}
		}
		if removed > 0 {
			r.st.Probe("delete_removed_samples")
			r.shape = append(r.shape, "del"+strconv.Itoa(removed))
			r.deletes++
		} else {
			r.st.Probe("delete_noop")
		}
		// classify the cut for probes
		for _, k := range op.Keys {
			all := before.All(k)
			for j := range all {
				if all[j].TS == op.A {
					r.st.Probe("delete_start_on_sample")
				}
				if all[j].TS == op.B {
					r.st.Probe("delete_end_on_sample")
				}
				if j > 0 && all[j-1].TS < op.A && op.A < all[j].TS {
					r.st.Probe("delete_start_between_samples")
				}
				if j > 0 && all[j-1].TS < op.B && op.B < all[j].TS {
					r.st.Probe("delete_end_between_samples")
				}
			}
		}
		if f := r.fullCheck(fmt.Sprintf("op %d after-delete[%d,%d)%v", i, op.A, op.B, op.Keys)); f != nil {
			f.Sig = "after-delete:" + f.Sig
			return false, f
		}
		return true, nil
	case "gc":
		if f := r.fullCheck(fmt.Sprintf("op %d before-gc", i)); f != nil {
			return false, f
		}
		sz := r.dataBytes()
		if err := r.db.garbageCollect(r.ctx, 4); err != nil {
			return false, drv.Failf("unexpected-error", "gc:"+errSig(err), "op %d gc: %v", i, err)
		}
		if r.dataBytes() < sz {
			r.st.Probe("gc_reclaimed_bytes")
			r.shape = append(r.shape, "gc")
			r.gcs++
		} else {
			r.st.Probe("gc_nothing_to_collect")
		}
		if f := r.fullCheck(fmt.Sprintf("op %d after-gc", i)); f != nil {
			f.Class = "gc-visible"
			return false, f
		}
		return true, nil
	}
	return false, drv.Failf("harness", "bad-op", "unknown op %q", op.K)
}

func runC04(t *testing.T, c c04Case, st *drv.Stats) *drv.Failure {
	return runSeq(t, c.Script, st, func(r *vRun) {
		r.extraStep = c04Step
		r.nontrivial = func(r *vRun) bool { return r.deletes >= 1 && r.commits >= 2 }
	})
}
