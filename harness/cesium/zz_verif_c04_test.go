package cesium

import (
	"fmt"
	"os"
	"strconv"
	"strings"
	"testing"

	"github.com/synnaxlabs/x/telem"
	"pgregory.net/rapid"
	"verifsim/drv"
)

// C04: time-range deletes remove exactly the range; garbage collection is invisible.

var c04Opts = genOpts{MaxGroups: 2, MaxDataPerGroup: 3, MaxWriters: 6, MaxWrites: 8, MaxReads: 20,
	Deletes: true, GC: true, MaxDeletes: 6, MaxGC: 4}

type c04Case struct {
	Script vScript `json:"script"`
}

func genC04(t *rapid.T) c04Case {
	sc := genScript(t, c04Opts)
	switch rapid.IntRange(0, 2).Draw(t, "gcth") {
	case 0:
		sc.Schema.GCThresh = 0.0000001 // always collects
	case 1:
		sc.Schema.GCThresh = float32(rapid.IntRange(1, 90).Draw(t, "gcthv")) / 100
	}
	return c04Case{Script: sc}
}

func (r *vRun) dataBytes() int64 {
	var n int64
	for p, b := range r.core.Dump() {
		if strings.HasSuffix(p, ".domain") && !strings.HasSuffix(p, "index.domain") && !strings.HasSuffix(p, "counter.domain") {
			n += int64(len(b))
		}
	}
	return n
}

func c04Step(r *vRun, i int, op vOp) (bool, *drv.Failure) {
	switch op.K {
	case "delete":
		named := map[uint32]bool{}
		var idxKeys, dataKeys []uint32
		for _, k := range op.Keys {
			named[k] = true
			if r.chans[k].IsIndex {
				idxKeys = append(idxKeys, k)
			} else {
				dataKeys = append(dataKeys, k)
			}
		}
		// What the property allows for each named index channel, given that named data
		// channels are deleted by the same request.
		mustRefuse, maySucceed := false, true
		mustSucceed := true
		for _, idx := range idxKeys {
			for _, c := range r.sch.Chans {
				if c.IsIndex || c.Index != idx {
					continue
				}
				// a named dependent's samples in the range go away with the same request
				if !named[c.Key] && r.model.Count(c.Key, op.A, op.B) > 0 {
					mustRefuse = true
					maySucceed = false
				}
				// a dependent domain can only overlap the range if the dependent has
				// a sample in one of the time slots the range touches
				lo, hi := (op.A/vSlot)*vSlot, (op.B/vSlot+1)*vSlot
				if r.model.Count(c.Key, lo, hi) > 0 {
					mustSucceed = false
				}
			}
		}
		before := r.model.Clone()
		pre := map[uint32][]vPtr{}
		for _, k := range op.Keys {
			pre[k] = r.layout(k)
		}
		// Known-finding precondition (see known_findings.json): a bound of the delete
		// falls strictly inside a domain whose start precedes its first sample (a domain
		// created by file rollover starts at the previous domain's end). The offset
		// computation then rewrites the domain's start to 0 or its end to 1, after which
		// anything may fail, so every later failure of this run carries the prefix.
		for _, k := range op.Keys {
			if os.Getenv("VERIF_DEBUG") != "" {
				fmt.Printf("DEBUG pre-delete layout ch %d: %+v\n", k, pre[k])
			}
			for _, d := range pre[k] {
				first := before.Read(k, d.Start, d.End)
				gap := len(first) > 0 && first[0].TS > d.Start
				if gap && ((d.Start < op.A && op.A < d.End) || (d.Start < op.B && op.B < d.End)) {
					r.taint = "delete-cut-inside-domain-with-leading-gap"
					r.st.Probe("delete_cut_in_leading_gap_domain")
				}
			}
		}
		err := r.db.DeleteTimeRange(r.ctx, op.Keys, telem.TimeRange{Start: telem.TimeStamp(op.A), End: telem.TimeStamp(op.B)})
		removed := 0
		if err != nil {
			if !mustRefuse && (len(idxKeys) == 0 || mustSucceed) {
				return false, drv.Failf("delete-refused", "delete:"+errSig(err), "op %d delete [%d,%d) keys=%v refused although nothing forbids it: %v", i, op.A, op.B, op.Keys, err)
			}
			r.st.Probe("index_delete_refused")
			// data channels named in the request may or may not have been deleted
			// before the refusal; the property only says the index delete is refused.
			// Determine which by reading: each named data channel must equal either its
			// old or its new content.
			for _, k := range dataKeys {
				fr, rerr := r.db.Read(r.ctx, telem.TimeRangeMax, ChannelKey(k))
				if rerr != nil {
					return false, drv.Failf("unexpected-error", "read:"+errSig(rerr), "op %d read after refused delete: %v", i, rerr)
				}
				got := decodeVals(fr.Get(ChannelKey(k)))
				if len(got) != len(before.All(k)) {
					r.model.Delete(k, op.A, op.B)
				}
			}
		} else {
			if !maySucceed {
				return false, drv.Failf("delete-not-refused", "index-delete-with-dependent-data", "op %d delete [%d,%d) keys=%v succeeded although an indexed channel still has data in the range", i, op.A, op.B, op.Keys)
			}
			for _, k := range op.Keys {
				removed += r.model.Delete(k, op.A, op.B)
			}
		}
		if removed > 0 {
			r.st.Probe("delete_removed_samples")
			r.shape = append(r.shape, "del"+strconv.Itoa(removed))
			r.deletes++
		} else {
			r.st.Probe("delete_noop")
		}
		// classify the cut for probes
		for _, k := range op.Keys {
			all := before.All(k)
			for j := range all {
				if all[j].TS == op.A {
					r.st.Probe("delete_start_on_sample")
				}
				if all[j].TS == op.B {
					r.st.Probe("delete_end_on_sample")
				}
				if j > 0 && all[j-1].TS < op.A && op.A < all[j].TS {
					r.st.Probe("delete_start_between_samples")
				}
				if j > 0 && all[j-1].TS < op.B && op.B < all[j].TS {
					r.st.Probe("delete_end_between_samples")
				}
			}
		}
		if f := r.fullCheck(fmt.Sprintf("op %d after-delete[%d,%d)%v", i, op.A, op.B, op.Keys)); f != nil {
			f.Sig = "after-delete:" + f.Sig
			return false, f
		}
		return true, nil
	case "gc":
		if f := r.fullCheck(fmt.Sprintf("op %d before-gc", i)); f != nil {
			return false, f
		}
		sz := r.dataBytes()
		if err := r.db.garbageCollect(r.ctx, 4); err != nil {
			return false, drv.Failf("unexpected-error", "gc:"+errSig(err), "op %d gc: %v", i, err)
		}
		if r.dataBytes() < sz {
			r.st.Probe("gc_reclaimed_bytes")
			r.shape = append(r.shape, "gc")
			r.gcs++
		} else {
			r.st.Probe("gc_nothing_to_collect")
		}
		if f := r.fullCheck(fmt.Sprintf("op %d after-gc", i)); f != nil {
			f.Class = "gc-visible"
			return false, f
		}
		return true, nil
	}
	return false, drv.Failf("harness", "bad-op", "unknown op %q", op.K)
}

func runC04(t *testing.T, c c04Case, st *drv.Stats) *drv.Failure {
	return runSeq(t, c.Script, st, func(r *vRun) {
		r.extraStep = c04Step
		r.nontrivial = func(r *vRun) bool { return r.deletes >= 1 && r.commits >= 2 }
	})
}
