package test

// Injected by /verif via `go test -overlay`; never part of the repository.
//
// freighter-stream engines (C14). A case is a pair of scripts: one for the client side of
// a stream (send i, closeSend, receive, drain = receive until the stream ends, pause) and
// one for the server handler (receive, send j, pause, and finally return nil or return one
// of the error kinds of the registry / an unregistered error). Both scripts run against the
// REAL transport (freighter/go/mock, freighter/go/http over websockets, freighter/go/grpc)
// and every call's outcome is recorded on both ends in one totally ordered log. The oracle
// is written from the property statement and the doc comments of freighter/go/stream.go,
// not from any transport:
//
//   - what a side receives is a prefix of what the other side sent successfully, same
//     order, same bytes, no duplicates;
//   - a receive on the client may only fail after the handler has returned; it then fails
//     with end-of-stream for a nil result, or with an error matching the handler's error,
//     every response sent before the return has been received before it, and every later
//     receive fails the same way;
//   - a receive in the handler may only fail with end-of-stream, only after the client
//     started CloseSend, only after every request that was sent has been received, and keeps
//     failing the same way;
//   - send on the client: nil only before CloseSend and before the client has seen the end
//     of the stream; end-of-stream only once the handler has returned; stream-closed only
//     after CloseSend; never nil again after a failure. send in the handler and CloseSend
//     never fail (no transport faults are injected);
//   - no call blocks forever: scripts are planned against a bounded-buffer model (see
//     c14Plan) so that they cannot deadlock by themselves on a correct transport.
//
// Engine "c14" (the registered one) draws the transport per case; "c14-mock", "c14-ws" and
// "c14-grpc" are the same engine pinned to one transport (focused runs). ALL THREE
// transports run inside a testing/synctest bubble under the seeded scheduler (sim.Sched):
//
//   - mock: freighter/go/mock as is (NewStreamPair or a mock.Network), channel capacities
//     0..11 per direction drawn per case;
//   - ws: the real fiber/fasthttp server and the real websocket client of freighter/go/http
//     over fasthttputil's in-memory listener, json or msgpack codec, with or without a
//     stream write deadline;
//   - grpc: the real grpc-go server and client of freighter/go/grpc (the repository's test
//     service) over grpc/test/bufconn.
//
// The two scripts are goroutines that park before every call and again after it returned,
// so the order of calls and the order in which concurrent calls are seen to complete come
// from the seed; inside the instrumented repository packages every lock, atomic, channel
// operation and select is a yield point too (that needs ./mock, ./http and ./grpc among the
// instrumented roots of the unit), and with c14Case.NetYield every read and write on the
// in-memory connection is one, so when bytes leave one side and reach the other is seeded
// as well. Pauses (1 ms .. 2.5 s) run on virtual time and cross the websocket server's
// 500 ms close handshake. grpc-go, fasthttp and the websocket library themselves are not
// instrumented: their goroutines run freely between two decisions of the scheduler until
// the bubble is quiescent.
//
// No transport fault, no context cancellation and no call on a ServerStream after its
// handler returned are generated: the statement does not cover them (the last one is
// called a programming error by stream.go).

import (
	"context"
	"fmt"
	"os"
	"strconv"
	"strings"
	"sync"
	"testing"
	"testing/synctest"
	"time"

	"github.com/synnaxlabs/freighter"
	"github.com/synnaxlabs/freighter/mock"
	"github.com/synnaxlabs/x/address"
	"github.com/synnaxlabs/x/control"
	"github.com/synnaxlabs/x/errors"
	"github.com/synnaxlabs/x/query"
	"github.com/synnaxlabs/x/validate"
	"pgregory.net/rapid"
	"verifsim/drv"
	"verifsim/sim"
	"verifsim/simrt"
)

func TestVerif(t *testing.T) {
	drv.Main(t,
		// the registered engine: all three transports, every case in a bubble under the
		// seeded scheduler
		drv.Wrap(drv.Engine[c14Case]{Property: "C14", Name: "c14", Gen: genC14, Run: runC14, BatchChecks: 100, GCEvery: 8}),
		// the same engine restricted to one transport (for focused runs; not in the unit's
		// default engine list)
		drv.Wrap(drv.Engine[c14Case]{Property: "C14", Name: "c14-mock", Gen: func(t *rapid.T) c14Case { return genC14For(t, "mock") }, Run: runC14, BatchChecks: 100, GCEvery: 16}),
		drv.Wrap(drv.Engine[c14Case]{Property: "C14", Name: "c14-ws", Gen: func(t *rapid.T) c14Case { return genC14For(t, "ws") }, Run: runC14, BatchChecks: 50, GCEvery: 8}),
		drv.Wrap(drv.Engine[c14Case]{Property: "C14", Name: "c14-grpc", Gen: func(t *rapid.T) c14Case { return genC14For(t, "grpc") }, Run: runC14, BatchChecks: 50, GCEvery: 8}),
	)
}

// ---- case -----------------------------------------------------------------------------

type c14Op struct {
	// K: send, recv, close (client only), drain (client only: receive until the stream
	// ends), pause
	K    string `json:"k"`
	Size int    `json:"size,omitempty"`
	MS   int    `json:"ms,omitempty"`
}

func (o c14Op) String() string {
	switch o.K {
	case "send":
		return "send(" + strconv.Itoa(o.Size) + ")"
	case "pause":
		return "pause(" + strconv.Itoa(o.MS) + "ms)"
	}
	return o.K
}

type c14Case struct {
	Transport string `json:"transport"` // mock, ws, grpc
	// mock: channel capacities (messages) of the request and the response direction
	ReqBuf int `json:"req_buf"`
	ResBuf int `json:"res_buf"`
	// mock: true = client and server are resolved through a mock.Network
	ViaNet bool `json:"via_net,omitempty"`
	// ws: json or msgpack
	Codec string `json:"codec,omitempty"`
	// ws: RouterConfig.StreamWriteDeadline (0 = the router's default); never shorter than
	// any wait a script can impose, so it is armed on every write but never expires
	WriteDeadlineMS int `json:"write_deadline_ms,omitempty"`
	// ws, grpc: every read and write on the connection is a seeded scheduling point
	NetYield bool    `json:"net_yield,omitempty"`
	Client   []c14Op `json:"client"`
	Server   []c14Op `json:"server"` // the handler returns after its last op
	// Ret: index into c14Errs (0 = nil)
	Ret      int    `json:"ret"`
	Seed     uint32 `json:"seed"`
	Strategy int    `json:"strategy"`
}

// ---- error kinds ----------------------------------------------------------------------

type c14ErrKind struct {
	name string
	// registered: the registry has an encoder/decoder for it
	registered bool
	err        error
	// match reports whether got is "an error matching the handler's error"
	match func(got error) bool
}

func isErr(ref error) func(error) bool { return func(got error) bool { return errors.Is(got, ref) } }
func hasMsg(msg string) func(error) bool {
	return func(got error) bool { return got != nil && strings.Contains(got.Error(), msg) }
}

var c14Errs = func() []c14ErrKind {
	plain := errors.New("zero is not allowed!")
	dashes := errors.New("bad range 3---7 given")
	pathed := validate.PathedError(validate.ErrValidation, "channel.name")
	return []c14ErrKind{
		{name: "nil", registered: true, err: nil, match: isErr(freighter.EOF)},
		{name: "freighter.eof", registered: true, err: freighter.EOF, match: isErr(freighter.EOF)},
		{name: "freighter.stream_closed", registered: true, err: freighter.ErrStreamClosed, match: isErr(freighter.ErrStreamClosed)},
		{name: "test.custom", registered: true, err: ErrCustom, match: isErr(ErrCustom)},
		{name: "query.not_found", registered: true, err: query.ErrNotFound, match: isErr(query.ErrNotFound)},
		{name: "query.not_found.wrapped", registered: true, err: errors.Wrap(query.ErrNotFound, "channel 12"), match: isErr(query.ErrNotFound)},
		{name: "query.unique_violation", registered: true, err: query.ErrUniqueViolation, match: isErr(query.ErrUniqueViolation)},
		{name: "query.invalid_parameters", registered: true, err: query.ErrInvalidParameters, match: isErr(query.ErrInvalidParameters)},
		{name: "query", registered: true, err: query.ErrQuery, match: isErr(query.ErrQuery)},
		{name: "control.unauthorized", registered: true, err: control.ErrUnauthorized, match: isErr(control.ErrUnauthorized)},
		{name: "validation", registered: true, err: validate.ErrValidation, match: isErr(validate.ErrValidation)},
		{name: "validation.path", registered: true, err: pathed, match: func(got error) bool {
			var pe validate.PathError
			return errors.As(got, &pe) && strings.Join(pe.Path, ".") == "channel.name" && errors.Is(pe.Err, validate.ErrValidation)
		}},
		{name: "query.not_found.dashes", registered: true, err: errors.Wrap(query.ErrNotFound, "range 3---7"), match: isErr(query.ErrNotFound)},
		{name: "unregistered", err: plain, match: hasMsg("zero is not allowed!")},
		{name: "unregistered.dashes", err: dashes, match: hasMsg("bad range 3---7 given")},
	}
}()

// ---- generator ------------------------------------------------------------------------

var c14Sizes = []int{0, 1, 1, 7, 7, 100, 100, 1000, 1000, 4095, 4096, 4097, 65535, 65536, 70_000, 1 << 20}

func genC14Scripts(t *rapid.T, c *c14Case) {
	size := func() int { return rapid.SampledFrom(c14Sizes).Draw(t, "size") }
	pause := func() int { return rapid.SampledFrom([]int{1, 20, 600, 2500}).Draw(t, "ms") }
	for n := rapid.IntRange(0, 8).Draw(t, "nclient"); n > 0; n-- {
		switch k := rapid.IntRange(0, 10).Draw(t, "ck"); {
		case k < 5:
			c.Client = append(c.Client, c14Op{K: "send", Size: size()})
		case k < 9:
			c.Client = append(c.Client, c14Op{K: "recv"})
		case k < 10:
			c.Client = append(c.Client, c14Op{K: "close"})
		default:
			c.Client = append(c.Client, c14Op{K: "pause", MS: pause()})
		}
	}
	if rapid.IntRange(0, 9).Draw(t, "close_at_end") < 8 {
		c.Client = append(c.Client, c14Op{K: "close"})
	}
	if rapid.IntRange(0, 9).Draw(t, "pause_before_drain") == 0 {
		c.Client = append(c.Client, c14Op{K: "pause", MS: pause()})
	}
	if rapid.IntRange(0, 9).Draw(t, "drain") < 8 {
		c.Client = append(c.Client, c14Op{K: "drain"})
		for n := rapid.SampledFrom([]int{0, 0, 0, 1, 2, 3, 4}).Draw(t, "nafter"); n > 0; n-- {
			switch k := rapid.IntRange(0, 5).Draw(t, "ak"); {
			case k < 3:
				c.Client = append(c.Client, c14Op{K: "recv"})
			case k < 5:
				c.Client = append(c.Client, c14Op{K: "send", Size: size()})
			default:
				c.Client = append(c.Client, c14Op{K: "close"})
			}
		}
	}
	for n := rapid.IntRange(0, 8).Draw(t, "nserver"); n > 0; n-- {
		switch k := rapid.IntRange(0, 10).Draw(t, "sk"); {
		case k < 5:
			c.Server = append(c.Server, c14Op{K: "recv"})
		case k < 10:
			c.Server = append(c.Server, c14Op{K: "send", Size: size()})
		default:
			c.Server = append(c.Server, c14Op{K: "pause", MS: pause()})
		}
	}
	if rapid.IntRange(0, 9).Draw(t, "ret_nil") < 4 {
		c.Ret = 0
	} else {
		c.Ret = rapid.IntRange(1, len(c14Errs)-1).Draw(t, "ret")
	}
}

func genC14(t *rapid.T) c14Case {
	return genC14For(t, rapid.SampledFrom([]string{"mock", "mock", "mock", "mock", "grpc", "grpc", "grpc", "ws", "ws", "ws"}).Draw(t, "transport"))
}

func genC14For(t *rapid.T, transport string) c14Case {
	c := c14Case{Transport: transport, Seed: rapid.Uint32().Draw(t, "seed"), Strategy: rapid.IntRange(0, 2).Draw(t, "strategy")}
	if transport != "mock" {
		c.NetYield = rapid.IntRange(0, 9).Draw(t, "net_yield") < 7
	}
	switch transport {
	case "mock":
		bufs := []int{0, 1, 1, 2, 3, 10, 10, 11}
		c.ReqBuf = rapid.SampledFrom(bufs).Draw(t, "req_buf")
		c.ResBuf = rapid.SampledFrom(bufs).Draw(t, "res_buf")
		c.ViaNet = rapid.Bool().Draw(t, "via_net")
	case "ws":
		c.Codec = rapid.SampledFrom([]string{"json", "msgpack"}).Draw(t, "codec")
		c.WriteDeadlineMS = rapid.SampledFrom([]int{0, 0, 60_000}).Draw(t, "write_deadline")
	}
	genC14Scripts(t, &c)
	c.Client = c14Plan(c)
	return c
}

// ---- planning model -------------------------------------------------------------------
//
// c14Plan makes a pair of scripts free of deadlocks of their own making. The two sides are
// sequential processes connected by two FIFO queues, so whether they can run to completion
// does not depend on the interleaving (only a return or a CloseSend can unblock the other
// side besides data, and both only ever help). The model is conservative about how much
// may be in flight: for the in-memory transport exactly the configured channel capacity;
// for the network transports a few small (<= 1 KiB) messages per direction (gRPC three,
// websocket two), and a larger message only when the other side is already waiting to
// receive it. A transport with more
// room than the model can only unblock more. The one thing the model takes from the
// documentation rather than from a capacity: once the handler has returned, no client call
// blocks (Send reports end-of-stream, Receive reports the terminal result, CloseSend "lets
// the server know", which needs no one to listen). Over websockets the handler's result is
// itself a message on the connection, so there the return waits for room like a send.
//
// The plan edits the client script only: where both sides (or the handler alone, the client
// having finished) would wait forever, the client operation that releases the handler is
// inserted at that point (CloseSend for a handler waiting in Receive, a receive or a drain
// for a handler waiting in Send).

type c14Queue struct {
	sizes []int // -1 = end-of-stream marker of CloseSend
	cap   int   // messages; <0 = network rule with -cap small messages
}

const c14Small = 1024

func (q *c14Queue) fits(size int, peerWaiting bool) bool {
	if len(q.sizes) == 0 && peerWaiting {
		return true
	}
	if q.cap >= 0 {
		return len(q.sizes) < q.cap
	}
	if size > c14Small || len(q.sizes) >= -q.cap {
		return false
	}
	for _, s := range q.sizes {
		if s > c14Small {
			return false
		}
	}
	return true
}

func c14Plan(c c14Case) []c14Op {
	client := append([]c14Op(nil), c.Client...)
	for round := 0; round < 200; round++ {
		req, res := &c14Queue{cap: c.ReqBuf}, &c14Queue{cap: c.ResBuf}
		switch c.Transport {
		case "grpc":
			req.cap, res.cap = -3, -3
		case "ws":
			// The in-memory connection holds four writes per direction and a websocket
			// peer only reads inside Receive; the handler's return needs two of them (the
			// close message and the close frame), which leaves two for data.
			req.cap, res.cap = -2, -2
		}
		ci, si := 0, 0
		closed, returned, clientEnded, serverEOF := false, false, false, false
		cWait, sWait := false, false // waiting in a receive with an empty queue
		stepClient := func() bool {
			if ci >= len(client) {
				return false
			}
			op := client[ci]
			switch op.K {
			case "send":
				if !(closed || returned || clientEnded) {
					if !req.fits(op.Size, sWait) {
						return false
					}
					req.sizes = append(req.sizes, op.Size)
				}
			case "close":
				if !closed {
					if !returned && !clientEnded && !req.fits(0, sWait) {
						return false
					}
					closed = true
					req.sizes = append(req.sizes, -1)
				}
			case "recv", "drain":
				if clientEnded {
					break
				}
				if len(res.sizes) > 0 {
					res.sizes = res.sizes[1:]
					cWait = false
					if op.K == "drain" {
						return true // stay on the drain
					}
					break
				}
				if !returned {
					cWait = true
					return false
				}
				clientEnded = true
			}
			cWait = false
			ci++
			return true
		}
		stepServer := func() bool {
			if returned {
				return false
			}
			if si >= len(c.Server) {
				// Over websockets the terminal result is a message on the same connection
				// and needs room like any other; until it is out the server reads nothing.
				if c.Transport == "ws" && !res.fits(0, cWait) {
					return false
				}
				returned = true
				return true
			}
			op := c.Server[si]
			switch op.K {
			case "send":
				if !res.fits(op.Size, cWait) {
					return false
				}
				res.sizes = append(res.sizes, op.Size)
			case "recv":
				if serverEOF {
					break
				}
				if len(req.sizes) > 0 {
					if req.sizes[0] == -1 {
						serverEOF = true
					}
					req.sizes = req.sizes[1:]
					break
				}
				sWait = true
				return false
			}
			sWait = false
			si++
			return true
		}
		for {
			// a side that starts waiting in a receive changes what the other may do
			// (hand-over to a waiting receiver), so run until nothing changes at all
			pc, ps, pcw, psw, pr := ci, si, cWait, sWait, returned
			for stepClient() {
			}
			for stepServer() {
			}
			if pc == ci && ps == si && pcw == cWait && psw == sWait && pr == returned {
				break
			}
		}
		if ci >= len(client) && returned {
			return client
		}
		// Every repair lets the handler get at least one operation further, so the loop ends.
		release := c14Op{K: "close"} // a handler waiting in Receive is released by CloseSend
		if si >= len(c.Server) || c.Server[si].K == "send" {
			release = c14Op{K: "recv"} // a handler waiting in Send by a receive
			if ci >= len(client) {
				release = c14Op{K: "drain"}
			}
		}
		if ci < len(client) {
			// both wait: the client first does what releases the handler
			client = append(client[:ci:ci], append([]c14Op{release}, client[ci:]...)...)
			continue
		}
		// the client has finished and the handler waits for it
		client = append(client, release)
	}
	panic("c14Plan: no fixpoint")
}

// ---- transports -----------------------------------------------------------------------

type c14Transport struct {
	server freighter.StreamServer[Request, Response]
	client freighter.StreamClient[Request, Response]
	addr   address.Address
	// stop tears the transport down once the case is over (nil = nothing to do)
	stop func()
}

func c14Mock(c c14Case) c14Transport {
	if c.ViaNet {
		net := mock.NewNetwork[Request, Response]()
		return c14Transport{server: net.StreamServer("localhost:7", c.ResBuf), client: net.StreamClient(c.ReqBuf), addr: "localhost:7"}
	}
	s, cl := mock.NewStreamPair[Request, Response](c.ReqBuf, c.ResBuf)
	return c14Transport{server: s, client: cl, addr: "localhost:0"}
}

// ---- recorded history -----------------------------------------------------------------

// c14Event is one call. start is taken just before the call and end just after a yield
// that follows its return, so [start, end] contains the call and "a.end < b.start" means
// that a really returned before b was made; two calls that return in the same scheduling
// step get their ends in the order the seeded scheduler picks (the runtime's own order of
// two goroutines that became runnable together is not reproducible).
type c14Event struct {
	side  byte // 'c' or 's'
	op    c14Op
	start int
	end   int // 0 while the call has not returned
	// send: the message handed to Send; recv: the message Receive returned
	id  int
	msg string
	err error
}

func (e *c14Event) String() string {
	s := fmt.Sprintf("[%d..%d] %c %s", e.start, e.end, e.side, e.op.K)
	switch e.op.K {
	case "send":
		s += fmt.Sprintf(" #%d (%d bytes)", e.id, len(e.msg))
	case "recv":
		if e.err == nil && e.end != 0 {
			s += fmt.Sprintf(" -> #%d (%d bytes)", e.id, len(e.msg))
		}
	}
	if e.end == 0 {
		return s + " ... never returned"
	}
	if e.err != nil {
		return s + " -> error: " + firstLineC14(e.err.Error())
	}
	return s + " -> ok"
}

func firstLineC14(s string) string {
	if i := strings.IndexByte(s, '\n'); i >= 0 {
		s = s[:i]
	}
	if len(s) > 160 {
		s = s[:160] + "..."
	}
	return s
}

type c14Hist struct {
	mu     sync.Mutex
	seq    int
	events []*c14Event
	// retSeq: position in the order at which the handler decided to return (0 = not yet)
	retSeq      int
	handlerRuns int
	handlerEnds int
	clientDone  bool
	streamErr   error
}

func (h *c14Hist) begin(side byte, op c14Op) *c14Event {
	h.mu.Lock()
	defer h.mu.Unlock()
	h.seq++
	e := &c14Event{side: side, op: op, start: h.seq}
	h.events = append(h.events, e)
	return e
}

func (h *c14Hist) finish(e *c14Event, id int, msg string, err error) {
	h.mu.Lock()
	defer h.mu.Unlock()
	h.seq++
	e.end, e.err = h.seq, err
	if e.op.K == "recv" {
		e.id, e.msg = id, msg
	}
}

func (h *c14Hist) dump() string {
	h.mu.Lock()
	defer h.mu.Unlock()
	return h.dumpLocked()
}

func (h *c14Hist) dumpLocked() string {
	var b strings.Builder
	for _, e := range h.events {
		b.WriteString("  " + e.String() + "\n")
	}
	if h.retSeq != 0 {
		fmt.Fprintf(&b, "  [%d] handler returns\n", h.retSeq)
	}
	return b.String()
}

// c14Payload is the message body for the id-th message of a direction: recognisable, of
// exactly the requested length.
func c14Payload(dir byte, id, size int) string {
	unit := string(dir) + strconv.Itoa(id) + ":"
	if size <= 0 {
		return ""
	}
	return strings.Repeat(unit, size/len(unit)+1)[:size]
}

func c14Sleep(ms int) {
	time.Sleep(simrt.UniqueDur(time.Duration(ms) * time.Millisecond))
}

// ---- run ------------------------------------------------------------------------------

// c14Abandoned: the case ended with both scripts blocked in Send (inconclusive); the
// bubble cannot exit cleanly then.
var c14Abandoned bool

func runC14(t *testing.T, c c14Case, st *drv.Stats) (fail *drv.Failure) {
	c14Abandoned = false
	defer func() {
		if p := recover(); p != nil && fail == nil {
			if c14Abandoned && strings.Contains(fmt.Sprint(p), "blocked goroutines remain") {
				return // the two scripts that block each other are abandoned with the bubble
			}
			fail = drv.Failf("panic", firstLineC14(fmt.Sprint(p)), "panic: %v", p)
		}
	}()
	if c.Ret < 0 || c.Ret >= len(c14Errs) {
		return drv.Failf("harness", "bad-case", "ret %d out of range", c.Ret)
	}
	var virtual time.Duration
	if c.Transport == "ws" {
		c14WarmUp()
	}
	synctest.Test(t, func(t *testing.T) {
		t0 := time.Now()
		fail = runC14In(c, st, true)
		virtual = time.Since(t0)
	})
	st.AddVirtual(virtual)
	return fail
}

// runC14In executes one case. bubble: the caller is the root of a synctest bubble and the
// seeded scheduler decides every step; otherwise the call order alone is seeded.
func runC14In(c c14Case, st *drv.Stats, bubble bool) (fail *drv.Failure) {
	var tr c14Transport
	switch c.Transport {
	case "mock":
		tr = c14Mock(c)
	case "grpc":
		tr = c14GRPC(c)
	case "ws":
		var err error
		if tr, err = c14WS(c, bubble); err != nil {
			return drv.Failf("harness", "ws-setup", "%v", err)
		}
	default:
		return drv.Failf("harness", "bad-case", "unknown transport %q", c.Transport)
	}
	h := &c14Hist{}
	ret := c14Errs[c.Ret]
	ctx, cancel := context.WithCancel(context.Background())
	defer cancel()
	var serverStream freighter.ServerStream[Request, Response]
	var clientStream freighter.ClientStream[Request, Response]

	tr.server.BindHandler(func(_ context.Context, srv freighter.ServerStream[Request, Response]) error {
		h.mu.Lock()
		h.handlerRuns++
		serverStream = srv
		h.mu.Unlock()
		defer func() {
			h.mu.Lock()
			h.handlerEnds++
			h.mu.Unlock()
		}()
		sim.Yield(sim.ClassTask, "start handler")
		nSent := 0
		for i, op := range c.Server {
			sim.Yield(sim.ClassTask, "s"+strconv.Itoa(i)+" "+op.K)
			switch op.K {
			case "send":
				e := h.begin('s', op)
				e.id, e.msg = nSent, c14Payload('s', nSent, op.Size)
				nSent++
				err := srv.Send(Response{ID: e.id, Message: e.msg})
				sim.Yield(sim.ClassTask, "s"+strconv.Itoa(i)+" done")
				h.finish(e, 0, "", err)
			case "recv":
				e := h.begin('s', op)
				req, err := srv.Receive()
				sim.Yield(sim.ClassTask, "s"+strconv.Itoa(i)+" done")
				h.finish(e, req.ID, req.Message, err)
			case "pause":
				c14Sleep(op.MS)
			}
		}
		sim.Yield(sim.ClassTask, "s return")
		h.mu.Lock()
		h.seq++
		h.retSeq = h.seq
		h.mu.Unlock()
		return ret.err
	})

	clientScript := func() error {
		defer func() {
			h.mu.Lock()
			h.clientDone = true
			h.mu.Unlock()
		}()
		sim.Yield(sim.ClassTask, "c open")
		stream, err := tr.client.Stream(ctx, tr.addr)
		if err != nil {
			h.mu.Lock()
			h.streamErr = err
			h.mu.Unlock()
			return nil
		}
		h.mu.Lock()
		clientStream = stream
		h.mu.Unlock()
		nSent := 0
		for i, op := range c.Client {
			sim.Yield(sim.ClassTask, "c"+strconv.Itoa(i)+" "+op.K)
			switch op.K {
			case "send":
				e := h.begin('c', op)
				e.id, e.msg = nSent, c14Payload('c', nSent, op.Size)
				nSent++
				err := stream.Send(Request{ID: e.id, Message: e.msg})
				sim.Yield(sim.ClassTask, "c"+strconv.Itoa(i)+" done")
				h.finish(e, 0, "", err)
			case "recv":
				e := h.begin('c', op)
				res, err := stream.Receive()
				sim.Yield(sim.ClassTask, "c"+strconv.Itoa(i)+" done")
				h.finish(e, res.ID, res.Message, err)
			case "drain":
				for n := 0; ; n++ {
					if n > 0 {
						sim.Yield(sim.ClassTask, "c"+strconv.Itoa(i)+" drain")
					}
					e := h.begin('c', c14Op{K: "recv"})
					res, err := stream.Receive()
					sim.Yield(sim.ClassTask, "c"+strconv.Itoa(i)+" done")
					h.finish(e, res.ID, res.Message, err)
					if err != nil || n > 10_000 {
						break
					}
				}
			case "close":
				e := h.begin('c', op)
				err := stream.CloseSend()
				sim.Yield(sim.ClassTask, "c"+strconv.Itoa(i)+" done")
				h.finish(e, 0, "", err)
			case "pause":
				c14Sleep(op.MS)
			}
		}
		return nil
	}

	done := func() bool {
		h.mu.Lock()
		defer h.mu.Unlock()
		return h.clientDone && h.handlerRuns == h.handlerEnds
	}

	var runErr error
	var schedHash uint64
	var taskErrs []string
	if bubble {
		strat := []sim.Strategy{sim.StratRandom, sim.StratSticky, sim.StratPCT}[c.Strategy%3]
		sc := sim.New(sim.Config{Strategy: strat, SwitchInv: 3, PCTDepth: 3, PCTSteps: 200, Classes: sim.ClassAll, MaxSteps: 400_000,
			HorizonNS: int64(30 * time.Second), QuantumNS: 250_000_003, TickNS: 1}, sim.NewChoices(uint64(c.Seed)))
		if p := os.Getenv("VERIF_SCHEDLOG"); p != "" {
			sc.KeepLog = 1 << 20
			defer func() { _ = os.WriteFile(p, []byte(strings.Join(sc.Trace, "\n")+"\n"+h.dump()), 0o644) }()
		}
		sim.Install(sc)
		defer sim.Uninstall()
		tasks := sc.NewTasks()
		tasks.Go("client", clientScript)
		runErr = sc.Run(func() bool { return tasks.Done() && done() })
		st.AddSteps(sc.Steps)
		schedHash = sc.Hash()
		taskErrs = tasks.Errors
		if runErr != nil {
			sc.Abort()
		}
		sim.Uninstall()
	}

	// ---- did it finish? ------------------------------------------------------------------
	if runErr != nil {
		if _, ok := runErr.(*sim.ErrDeadlock); !ok {
			st.Inconcl("step_budget_exceeded")
			go c14Cleanup(tr, cancel, clientStream)
			return nil
		}
		if f := c14Check(c, h, st); f != nil {
			// what did complete already breaks a rule: the more specific report
			go c14Cleanup(tr, cancel, clientStream)
			return f
		}
		sig, msg := c14Stuck(h)
		if strings.Contains(sig, "handler-send-blocked:handler-running") && strings.Contains(sig, "client-send-blocked:handler-running") {
			// Both scripts are in Send and neither has returned: each direction holds
			// as much as the connection buffers. No transport promises unbounded
			// buffering, so this is the two scripts' own making; the planner, which works
			// with an estimate of those buffers, let it through.
			st.Inconcl("scripts_block_each_other_in_send")
			c14Abandoned = true
			go c14Cleanup(tr, cancel, clientStream)
			return nil
		}
		stacks := ""
		if dl, ok := runErr.(*sim.ErrDeadlock); ok && os.Getenv("VERIF_C14_STACKS") != "" {
			stacks = "\ngoroutines of the bubble:\n" + dl.Stacks
		}
		fail = drv.Failf("stuck", c.Transport+":"+sig, "%s: %s; neither script is waiting for the other by its own making (see the planning model)\nhistory:\n%s%s", c.Transport, msg, h.dump(), stacks)
		// best effort only: whatever stays blocked is abandoned with the bubble
		go c14Cleanup(tr, cancel, clientStream)
		return fail
	}
	if len(taskErrs) > 0 {
		go c14Cleanup(tr, cancel, clientStream)
		return drv.Failf("panic", c.Transport+":"+c14PanicSig(taskErrs[0]), "%s\nhistory:\n%s", taskErrs[0], h.dump())
	}
	if h.streamErr != nil {
		return drv.Failf("unexpected-error", c.Transport+":open", "opening the stream failed: %v", h.streamErr)
	}
	_ = serverStream
	fail = c14Check(c, h, st)
	c14Cleanup(tr, cancel, clientStream)
	if bubble && os.Getenv("VERIF_C14_STACKS") != "" {
		synctest.Wait()
		fmt.Println("C14 goroutines left in the bubble after cleanup:\n" + sim.AllStacks())
	}
	if fail == nil {
		var shape strings.Builder
		fmt.Fprintf(&shape, "%s|%d|%d|%v|%s|%d|%v|%d|", c.Transport, c.ReqBuf, c.ResBuf, c.ViaNet, c.Codec, c.WriteDeadlineMS, c.NetYield, c.Ret)
		for _, op := range c.Client {
			shape.WriteString(op.String() + ",")
		}
		shape.WriteString("|")
		for _, op := range c.Server {
			shape.WriteString(op.String() + ",")
		}
		nontrivial := false
		{
			msgs, ended := 0, false
			for _, e := range h.events {
				if e.op.K == "recv" && e.err == nil {
					msgs++
				}
				if e.side == 'c' && e.op.K == "recv" && e.err != nil {
					ended = true
				}
			}
			nontrivial = msgs >= 2 && ended
		}
		if p := os.Getenv("VERIF_C14_OUTLOG"); p != "" {
			if f, err := os.OpenFile(p, os.O_CREATE|os.O_WRONLY|os.O_APPEND, 0o644); err == nil {
				fmt.Fprintf(f, "%s sched=%x %s\n", shape.String(), schedHash, c14Outcomes(h))
				_ = f.Close()
			}
		}
		st.Case(drv.Hash64(shape.String(), strconv.FormatUint(schedHash, 16), c14Outcomes(h)), nontrivial)
	}
	return fail
}

// c14Outcomes renders the results of all calls (for the determinism hash).
func c14Outcomes(h *c14Hist) string {
	var b strings.Builder
	for _, e := range h.events {
		fmt.Fprintf(&b, "%c%s:%d:%d:%d:%d:", e.side, e.op.K, e.start, e.end, e.id, len(e.msg))
		if e.err != nil {
			b.WriteString(firstLineC14(e.err.Error()))
		}
		b.WriteString(";")
	}
	fmt.Fprintf(&b, "ret@%d", h.retSeq)
	return b.String()
}

func c14PanicSig(s string) string {
	if i := strings.Index(s, "panic: "); i >= 0 {
		s = s[i+7:]
	}
	return firstLineC14(s)
}

// c14Cleanup releases whatever the scripts left behind so that the bubble can end.
func c14Cleanup(tr c14Transport, cancel func(), stream freighter.ClientStream[Request, Response]) {
	if stream != nil {
		// the transport may still be handing over the terminal result (and responses the
		// script never asked for); take them so that its goroutines can finish
		func() {
			defer func() { _ = recover() }()
			for n := 0; n < 10_000; n++ {
				if _, err := stream.Receive(); err != nil {
					break
				}
			}
		}()
	}
	cancel()
	if tr.stop != nil {
		tr.stop()
	}
}

// c14Stuck describes which calls never returned.
func c14Stuck(h *c14Hist) (sig, msg string) {
	h.mu.Lock()
	defer h.mu.Unlock()
	var sigs, msgs []string
	for _, e := range h.events {
		if e.end != 0 {
			continue
		}
		who := "client"
		if e.side == 's' {
			who = "handler"
		}
		state := "handler-running"
		if h.retSeq != 0 {
			state = "handler-returned"
		}
		sigs = append(sigs, who+"-"+e.op.K+"-blocked:"+state)
		msgs = append(msgs, fmt.Sprintf("%s is blocked forever in %s (call started at %d; %s)", who, e.op.K, e.start, state))
	}
	if len(sigs) == 0 {
		if h.handlerRuns != h.handlerEnds {
			return "handler-never-finished", "the handler goroutine never finished although no stream call is pending"
		}
		return "no-pending-call", "the run never completed although no stream call is pending"
	}
	return strings.Join(sigs, "+"), strings.Join(msgs, "; ")
}

// ---- oracle ---------------------------------------------------------------------------

func c14Check(c c14Case, h *c14Hist, st *drv.Stats) *drv.Failure {
	h.mu.Lock()
	defer h.mu.Unlock()
	tp := c.Transport
	ret := c14Errs[c.Ret]
	probe := func(name string) { st.Probe(tp + "." + name) }
	failf := func(class, sig, format string, args ...any) *drv.Failure {
		d := h.dumpLocked()
		return drv.Failf(class, tp+":"+sig, "%s: "+format+"\nhandler returns %s; history:\n%s", append(append([]any{tp}, args...), ret.name, d)...)
	}
	if h.handlerRuns != 1 {
		return failf("handler-runs", "count", "the handler ran %d times for one stream", h.handlerRuns)
	}
	var cSendOK, sSendOK, cRecvOK, sRecvOK []*c14Event
	var cSends, cRecvs, sRecvs, cCloses []*c14Event
	for _, e := range h.events {
		if e.end == 0 {
			continue // the call never returned (the run is being reported as stuck)
		}
		switch {
		case e.side == 'c' && e.op.K == "send":
			cSends = append(cSends, e)
			if e.err == nil {
				cSendOK = append(cSendOK, e)
			}
		case e.side == 's' && e.op.K == "send":
			if e.err != nil {
				return failf("handler-send-failed", "send:"+c14ErrSig(e.err), "the handler's send #%d failed although the handler has not returned and no transport fault was injected: %v", e.id, e.err)
			}
			sSendOK = append(sSendOK, e)
		case e.side == 'c' && e.op.K == "recv":
			cRecvs = append(cRecvs, e)
			if e.err == nil {
				cRecvOK = append(cRecvOK, e)
			}
		case e.side == 's' && e.op.K == "recv":
			sRecvs = append(sRecvs, e)
			if e.err == nil {
				sRecvOK = append(sRecvOK, e)
			}
		case e.side == 'c' && e.op.K == "close":
			cCloses = append(cCloses, e)
			if e.err != nil {
				// Neither the statement nor stream.go says what CloseSend returns. A failure
				// while the handler is still running means the handler is never told; once
				// the handler has returned there is no one left to tell.
				if h.retSeq == 0 || e.end < h.retSeq {
					return failf("closesend-failed", c14ErrSig(e.err), "CloseSend failed while the handler was running: %v", e.err)
				}
				probe("closesend_error_after_handler_returned")
			}
		}
	}
	// 1. prefix, order, no duplicates, same bytes (both directions)
	prefix := func(dir string, got, sent []*c14Event) *drv.Failure {
		for i, g := range got {
			if i >= len(sent) {
				return failf("received-unsent", dir, "%s receive %d returned message #%d (%d bytes) but only %d messages were sent successfully", dir, i, g.id, len(g.msg), len(sent))
			}
			s := sent[i]
			if g.id != s.id {
				kind := "out-of-order-or-lost"
				for _, p := range got[:i] {
					if p.id == g.id {
						kind = "duplicate"
					}
				}
				return failf("not-a-prefix", dir+":"+kind, "%s receive %d returned message #%d, the %d-th message sent successfully is #%d", dir, i, g.id, i, s.id)
			}
			if g.msg != s.msg {
				return failf("payload-corrupted", dir, "%s message #%d arrived with %d bytes, %d were sent (or the bytes differ)", dir, g.id, len(g.msg), len(s.msg))
			}
			if g.end < s.start {
				return failf("received-before-sent", dir, "%s message #%d was received before it was sent", dir, g.id)
			}
		}
		return nil
	}
	if f := prefix("request", sRecvOK, cSendOK); f != nil {
		return f
	}
	if f := prefix("response", cRecvOK, sSendOK); f != nil {
		return f
	}
	// 2. client receive: terminal result
	var firstCloseStart, firstCloseEnd int
	if len(cCloses) > 0 {
		firstCloseStart, firstCloseEnd = cCloses[0].start, cCloses[0].end
	}
	var terminal *c14Event
	for _, e := range cRecvs {
		if terminal != nil {
			if e.err == nil {
				return failf("terminal-not-stable", "data-after-end", "a client receive returned message #%d after an earlier receive had reported the end of the stream (%v)", e.id, terminal.err)
			}
			if !ret.match(e.err) {
				return failf("terminal-not-stable", "changed:"+ret.name+":"+c14ErrSig(e.err), "a repeated client receive returned %q, the first terminal result was %q", firstLineC14(e.err.Error()), firstLineC14(terminal.err.Error()))
			}
			probe("client_receive_after_end")
			continue
		}
		if e.err == nil {
			if firstCloseEnd != 0 && e.start > firstCloseEnd {
				probe("client_received_data_after_closesend")
			}
			continue
		}
		terminal = e
		if h.retSeq == 0 || e.end < h.retSeq {
			return failf("premature-end", c14ErrSig(e.err), "a client receive failed with %q before the handler returned", firstLineC14(e.err.Error()))
		}
		if !ret.match(e.err) {
			for _, snd := range cSends {
				if snd.err != nil && snd.end < e.start && snd.err.Error() == e.err.Error() && !errors.Is(snd.err, freighter.EOF) && !errors.Is(snd.err, freighter.ErrStreamClosed) {
					return failf("wrong-terminal-error", "receive-repeats-failed-send:"+c14ErrSig(e.err), "the handler returned %s (%v); client send #%d had failed with %q and the client's receive then reported that same error instead of the handler's result", ret.name, ret.err, snd.id, firstLineC14(e.err.Error()))
				}
			}
			return failf("wrong-terminal-error", ret.name+":"+c14ErrSig(e.err), "the handler returned %s (%v); the client's receive reported %q, which does not match", ret.name, ret.err, firstLineC14(e.err.Error()))
		}
		if len(cRecvOK) != len(sSendOK) {
			return failf("responses-lost", fmt.Sprintf("lost-before-%s", c14Bool(c.Ret == 0, "eof", "error")), "the client was told the stream ended after %d responses, the handler had sent %d before it returned", len(cRecvOK), len(sSendOK))
		}
		switch {
		case c.Ret == 0:
			probe("end_nil")
		case ret.registered:
			probe("end_registered_error")
		default:
			probe("end_unregistered_error")
		}
	}
	// 3. handler receive: end-of-stream only after CloseSend, after every request
	var sEnd *c14Event
	for _, e := range sRecvs {
		if sEnd != nil {
			if e.err == nil {
				return failf("server-eof-not-stable", "data-after-eof", "a handler receive returned request #%d after an earlier one had reported end-of-stream", e.id)
			}
			if !errors.Is(e.err, freighter.EOF) {
				return failf("server-eof-not-stable", "changed:"+c14ErrSig(e.err), "a repeated handler receive returned %q after end-of-stream", firstLineC14(e.err.Error()))
			}
			probe("handler_receive_after_eof")
			continue
		}
		if e.err == nil {
			continue
		}
		sEnd = e
		if !errors.Is(e.err, freighter.EOF) {
			return failf("handler-receive-failed", c14ErrSig(e.err), "a handler receive failed with %q (the handler has not returned, the context is live, no transport fault was injected)", firstLineC14(e.err.Error()))
		}
		if firstCloseStart == 0 || e.end < firstCloseStart {
			return failf("premature-eof", "handler", "a handler receive reported end-of-stream before the client called CloseSend")
		}
		if len(sRecvOK) != len(cSendOK) {
			return failf("requests-lost", "lost-before-eof", "the handler was told the client is done after %d requests, the client had sent %d successfully before CloseSend", len(sRecvOK), len(cSendOK))
		}
		if len(sRecvOK) > 0 {
			probe("handler_eof_after_requests")
		} else {
			probe("handler_eof_without_requests")
		}
	}
	// 4. client send results
	failed := false
	for _, e := range cSends {
		closedBefore := firstCloseEnd != 0 && e.start > firstCloseEnd
		closeBegun := firstCloseStart != 0 && e.end > firstCloseStart
		sawEnd := terminal != nil && e.start > terminal.end
		returned := h.retSeq != 0 && e.end > h.retSeq
		switch {
		case e.err == nil:
			if closedBefore {
				return failf("send-after-closesend-succeeded", "nil", "client send #%d returned nil after CloseSend (documented: freighter.ErrStreamClosed)", e.id)
			}
			if sawEnd {
				return failf("send-after-end-succeeded", "nil", "client send #%d returned nil after the client had received the terminal result (documented: freighter.EOF)", e.id)
			}
			if failed {
				return failf("send-error-not-stable", "nil-after-error", "client send #%d returned nil after an earlier send had failed", e.id)
			}
			if returned {
				probe("client_send_ok_after_handler_returned")
			}
		case errors.Is(e.err, freighter.EOF):
			failed = true
			if !returned {
				return failf("send-eof-without-end", "eof", "client send #%d reported end-of-stream although the handler had not returned", e.id)
			}
			if sawEnd {
				probe("client_send_after_end")
			} else {
				probe("client_send_raced_with_return")
			}
		case errors.Is(e.err, freighter.ErrStreamClosed):
			failed = true
			if !closeBegun {
				return failf("send-closed-without-closesend", "stream-closed", "client send #%d reported a closed stream although CloseSend was never called", e.id)
			}
			probe("client_send_after_closesend")
		default:
			if returned {
				// documented: "If the server closed the stream -> Returns a freighter.EOF error"
				return failf("client-send-failed", "after-handler-returned:"+c14ErrSig(e.err), "client send #%d, issued after the handler had returned, failed with %q (documented: freighter.EOF; no transport fault was injected)", e.id, firstLineC14(e.err.Error()))
			}
			return failf("client-send-failed", "handler-running:"+c14ErrSig(e.err), "client send #%d failed with %q while the handler was running (no transport fault was injected)", e.id, firstLineC14(e.err.Error()))
		}
	}
	// ---- probes ---------------------------------------------------------------------------
	if h.retSeq != 0 {
		got := 0
		for _, e := range cRecvOK {
			if e.end < h.retSeq {
				got++
			}
		}
		if len(sSendOK) > got {
			probe("responses_in_flight_at_return")
		}
		rgot := len(sRecvOK)
		sent := 0
		for _, e := range cSendOK {
			if e.end < h.retSeq {
				sent++
			}
		}
		if sent > rgot {
			probe("requests_unread_at_return")
		}
	}
	for _, e := range h.events {
		if e.op.K == "send" && e.err == nil && len(e.msg) >= 65536 {
			probe("payload_64k_or_more")
			break
		}
	}
	if len(cCloses) > 1 {
		probe("closesend_twice")
	}
	if terminal == nil {
		probe("client_stopped_before_end")
	}
	return nil
}

func c14Bool(b bool, y, n string) string {
	if b {
		return y
	}
	return n
}

// c14ErrSig is a short, stable description of an error for signatures.
func c14ErrSig(err error) string {
	if err == nil {
		return "nil"
	}
	switch {
	case errors.Is(err, freighter.EOF):
		return "eof"
	case errors.Is(err, freighter.ErrStreamClosed):
		return "stream-closed"
	case errors.Is(err, context.Canceled):
		return "context-canceled"
	case errors.Is(err, context.DeadlineExceeded):
		return "deadline-exceeded"
	}
	for _, k := range c14Errs[3:] {
		if k.registered && k.match(err) {
			return "kind-" + k.name
		}
	}
	s := firstLineC14(err.Error())
	// keep letters only: no addresses, ports, counters
	var b strings.Builder
	for _, r := range s {
		switch {
		case r >= 'a' && r <= 'z', r >= 'A' && r <= 'Z', r == ' ', r == '-', r == '.', r == ':':
			b.WriteRune(r)
		}
		if b.Len() >= 60 {
			break
		}
	}
	return "other:" + strings.TrimSpace(b.String())
}
