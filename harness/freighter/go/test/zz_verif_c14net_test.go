package test

// Injected by /verif via `go test -overlay`; never part of the repository.
//
// The websocket (freighter/go/http) and gRPC (freighter/go/grpc) client/server pairs of the
// C14 engines, built the way the transports' own suites build them but on in-memory
// listeners: fasthttputil.InmemoryListener behind fiber for websockets (the client's
// private websocket dialer is pointed at the listener through reflection: the constructor
// offers no option for it) and grpc/test/bufconn for gRPC (a context dialer handed to
// fgrpc.NewPool). No socket, no port, no kernel: every goroutine of both stacks lives in
// the case's synctest bubble and all their timers run on virtual time.

import (
	"context"
	"net"
	"reflect"
	"sync"
	"time"
	"unsafe"

	ws "github.com/fasthttp/websocket"
	"github.com/gofiber/fiber/v3"
	fgrpc "github.com/synnaxlabs/freighter/grpc"
	v1 "github.com/synnaxlabs/freighter/grpc/v1"
	fhttp "github.com/synnaxlabs/freighter/http"
	"github.com/synnaxlabs/x/encoding/json"
	"github.com/synnaxlabs/x/encoding/msgpack"
	"github.com/valyala/fasthttp/fasthttputil"
	"google.golang.org/grpc"
	"google.golang.org/grpc/credentials/insecure"
	"google.golang.org/grpc/test/bufconn"
	"verifsim/sim"
	"verifsim/simrt"
)

// ---- seeded network timing ------------------------------------------------------------
//
// With c14Case.NetYield every Read and Write on the in-memory connection (both ends) is a
// yield point of the seeded scheduler, so when bytes leave one side and when the other side
// picks them up is decided by the seed as well: a response or the terminal result can be
// "on the wire" while the peer makes its next call.

type c14Conn struct {
	net.Conn
	side string
}

func (c *c14Conn) Read(p []byte) (int, error) {
	sim.Yield(sim.ClassNet, c.side+" read")
	return c.Conn.Read(p)
}

func (c *c14Conn) Write(p []byte) (int, error) {
	sim.Yield(sim.ClassNet, c.side+" write")
	return c.Conn.Write(p)
}

type c14Listener struct {
	net.Listener
	wrap bool
}

func (l c14Listener) Accept() (net.Conn, error) {
	c, err := l.Listener.Accept()
	if err != nil || !l.wrap {
		return c, err
	}
	return &c14Conn{Conn: c, side: "server"}, nil
}

func c14WrapClient(c net.Conn, err error, wrap bool) (net.Conn, error) {
	if err != nil || !wrap {
		return c, err
	}
	return &c14Conn{Conn: c, side: "client"}, nil
}

// ---- gRPC -----------------------------------------------------------------------------

type c14ReqTranslator struct{}

func (c14ReqTranslator) Forward(_ context.Context, r Request) (*v1.Request, error) {
	return &v1.Request{Id: int32(r.ID), Message: r.Message}, nil
}
func (c14ReqTranslator) Backward(_ context.Context, r *v1.Request) (Request, error) {
	return Request{ID: int(r.Id), Message: r.Message}, nil
}

type c14ResTranslator struct{}

func (c14ResTranslator) Forward(_ context.Context, r Response) (*v1.Response, error) {
	return &v1.Response{Id: int32(r.ID), Message: r.Message}, nil
}
func (c14ResTranslator) Backward(_ context.Context, r *v1.Response) (Response, error) {
	return Response{ID: int(r.Id), Message: r.Message}, nil
}

type c14GRPCServer struct {
	fgrpc.StreamServerCore[Request, *v1.Request, Response, *v1.Response]
}

func (s *c14GRPCServer) Exec(stream v1.TestStreamService_ExecServer) error {
	return s.Handler(stream.Context(), stream)
}

func c14GRPC(c c14Case) c14Transport {
	lis := bufconn.Listen(1 << 20)
	srv := grpc.NewServer()
	ss := &c14GRPCServer{StreamServerCore: fgrpc.StreamServerCore[Request, *v1.Request, Response, *v1.Response]{
		RequestTranslator: c14ReqTranslator{}, ResponseTranslator: c14ResTranslator{},
		ServiceDesc: &v1.TestStreamService_ServiceDesc, Internal: true,
	}}
	v1.RegisterTestStreamServiceServer(srv, ss)
	go func() { _ = srv.Serve(c14Listener{Listener: lis, wrap: c.NetYield}) }()
	pool := fgrpc.NewPool("passthrough:///",
		grpc.WithTransportCredentials(insecure.NewCredentials()),
		grpc.WithContextDialer(func(ctx context.Context, _ string) (net.Conn, error) {
			conn, err := lis.DialContext(ctx)
			return c14WrapClient(conn, err, c.NetYield)
		}),
	)
	client := &fgrpc.StreamClient[Request, *v1.Request, Response, *v1.Response]{
		RequestTranslator: c14ReqTranslator{}, ResponseTranslator: c14ResTranslator{}, Pool: pool,
		ServiceDesc: &v1.TestStreamService_ServiceDesc,
		ClientFunc: func(ctx context.Context, conn grpc.ClientConnInterface) (fgrpc.GRPCClientStream[*v1.Request, *v1.Response], error) {
			return v1.NewTestStreamServiceClient(conn).Exec(ctx)
		},
	}
	return c14Transport{server: &ss.StreamServerCore, client: client, addr: "bufnet", stop: func() {
		_ = pool.Close()
		srv.Stop()
		_ = lis.Close()
	}}
}

// ---- websocket ------------------------------------------------------------------------

var c14WarmOnce sync.Once

// c14WarmUp serves one request with fasthttp OUTSIDE any bubble: fasthttp starts a
// process-wide goroutine (the cached Date header) on first use, and a goroutine started
// inside a bubble would belong to that bubble for ever.
func c14WarmUp() {
	c14WarmOnce.Do(func() {
		wl := fasthttputil.NewInmemoryListener()
		wa := fiber.New(fiber.Config{})
		wa.Get("/", func(c fiber.Ctx) error { return c.SendStatus(200) })
		go func() { _ = wa.Listener(wl, fiber.ListenConfig{DisableStartupMessage: true}) }()
		conn, err := wl.Dial()
		if err == nil {
			_, _ = conn.Write([]byte("GET / HTTP/1.1\r\nHost: x\r\n\r\n"))
			buf := make([]byte, 256)
			_, _ = conn.Read(buf)
			_ = conn.Close()
		}
		_ = wa.Shutdown()
	})
}

func c14WS(c c14Case, bubble bool) (c14Transport, error) {
	ln := fasthttputil.NewInmemoryListener()
	app := fiber.New(fiber.Config{})
	router, err := fhttp.NewRouter(fhttp.RouterConfig{StreamWriteDeadline: time.Duration(c.WriteDeadlineMS) * time.Millisecond})
	if err != nil {
		return c14Transport{}, err
	}
	server := fhttp.NewStreamServer[Request, Response](router, "/")
	router.BindTo(app)
	go func() {
		_ = app.Listener(c14Listener{Listener: ln, wrap: c.NetYield}, fiber.ListenConfig{DisableStartupMessage: true})
	}()
	cfg := fhttp.StreamClientConfig{Codec: json.Codec}
	if c.Codec == "msgpack" {
		cfg.Codec = msgpack.Codec
	}
	client, err := fhttp.NewStreamClient[Request, Response](cfg)
	if err != nil {
		return c14Transport{}, err
	}
	// streamClient.dialer is the zero ws.Dialer; make it dial the in-memory listener
	f := reflect.ValueOf(client).Elem().FieldByName("dialer")
	d := (*ws.Dialer)(unsafe.Pointer(f.UnsafeAddr()))
	d.NetDialContext = func(context.Context, string, string) (net.Conn, error) {
		conn, err := ln.Dial()
		return c14WrapClient(conn, err, c.NetYield)
	}
	return c14Transport{server: server, client: client, addr: "inmem:80/", stop: func() {
		_ = app.Shutdown()
		_ = ln.Close()
		if bubble {
			// fasthttp's worker pool notices the shutdown on its next sweep
			time.Sleep(simrt.UniqueDur(16 * time.Second))
		}
	}}, nil
}
