// check is the driver CLI registered in MANIFEST.json:
//
//	check <property> [--tier quick|thorough] [--replay file] [--seed N] [--budget seconds] [--workers N] [--keep]
//
// It regenerates the overlay and scratch go.mod from /repo's current working tree, builds
// the harness test binary with go1.26.8, runs seeded worker processes, confirms any
// failure by replaying it in a fresh process, writes /verif/evidence/<id>.json and exits
// 0 (held), 1 (VIOLATION line printed) or 2 (build / watchdog / harness trouble).
package main

import (
	"bufio"
	"bytes"
	"encoding/json"
	"flag"
	"fmt"
	"io"
	"os"
	"os/exec"
	"path/filepath"
	"regexp"
	"sort"
	"strconv"
	"strings"
	"sync"
	"syscall"
	"time"
)

const (
	verifDir = "/verif"
	goRoot   = "/opt/veriftools/go1.26.8"
)

// repoDir is the tree the checks rebuild from: /repo. VERIF_REPO points a run at a
// scratch worktree instead (used only to evaluate seeded changes without touching /repo;
// never set by a registered command).
var repoDir = func() string {
	if d := os.Getenv("VERIF_REPO"); d != "" {
		return d
	}
	return "/repo"
}()

func goEnv() []string {
	env := os.Environ()
	out := env[:0:0]
	for _, e := range env {
		if strings.HasPrefix(e, "GOFLAGS=") || strings.HasPrefix(e, "GOPROXY=") || strings.HasPrefix(e, "GOSUMDB=") ||
			strings.HasPrefix(e, "GOTOOLCHAIN=") || strings.HasPrefix(e, "PATH=") || strings.HasPrefix(e, "GOWORK=") {
			continue
		}
		out = append(out, e)
	}
	return append(out,
		"GOFLAGS=-mod=mod", "GOPROXY=off", "GOSUMDB=off", "GOTOOLCHAIN=local", "GOWORK=off",
		"PATH="+goRoot+"/bin:"+os.Getenv("PATH"))
}

func fatal2(format string, args ...any) {
	fmt.Fprintf(os.Stderr, "check: "+format+"\n", args...)
	os.Exit(2)
}

// --- scratch module file -------------------------------------------------------------

var replaceRe = regexp.MustCompile(`=>\s*(\.\.?/[^\s]*)`)

func makeModfile(moduleDir, scratch string) string {
	src := filepath.Join(repoDir, moduleDir, "go.mod")
	b, err := os.ReadFile(src)
	if err != nil {
		fatal2("read %s: %v", src, err)
	}
	abs := replaceRe.ReplaceAllStringFunc(string(b), func(m string) string {
		sub := replaceRe.FindStringSubmatch(m)
		return "=> " + filepath.Join(repoDir, moduleDir, sub[1])
	})
	abs += "\nrequire (\n\tverifsim v0.0.0\n\tpgregory.net/rapid v1.3.0\n\tgithub.com/anishathalye/porcupine v1.3.0\n)\n\nreplace verifsim => " + filepath.Join(verifDir, "sim") + "\n"
	mf := filepath.Join(scratch, "go.mod")
	if err := os.WriteFile(mf, []byte(abs), 0o644); err != nil {
		fatal2("%v", err)
	}
	sum, _ := os.ReadFile(filepath.Join(repoDir, moduleDir, "go.sum"))
	extra := `github.com/anishathalye/porcupine v1.3.0 h1:yo51Niv8Tg0tAAn5XOG2UVvJXUregK4WFuLrBRoowP8=
pgregory.net/rapid v1.3.0 h1:vBvO0VSqti75J1jjYqpgPNBLKMd1+gxa9fYo7vk/Exc=
`
	if err := os.WriteFile(filepath.Join(scratch, "go.sum"), append(sum, []byte(extra)...), 0o644); err != nil {
		fatal2("%v", err)
	}
	return mf
}

// --- overlay -------------------------------------------------------------------------

type overlayResult struct {
	Replace  map[string]string `json:"Replace"`
	Counters map[string]int    `json:"counters"`
	Packages []string          `json:"packages"`
}

// harnessFiles maps every file under /verif/harness/<rel>/ to /repo/<rel>/.
func harnessFiles() map[string]string {
	out := map[string]string{}
	root := filepath.Join(verifDir, "harness")
	_ = filepath.Walk(root, func(p string, info os.FileInfo, err error) error {
		if err != nil || info.IsDir() || !strings.HasSuffix(p, ".go") {
			return nil
		}
		rel, _ := filepath.Rel(root, p)
		out[filepath.Join(repoDir, rel)] = p
		return nil
	})
	return out
}

func buildUnit(u *unit, scratch string, logw io.Writer) (bin string, ov overlayResult) {
	mf := makeModfile(u.Module, scratch)
	ovDir := filepath.Join(scratch, "ov")
	_ = os.MkdirAll(ovDir, 0o755)
	roots := u.Roots
	if len(roots) == 0 {
		roots = []string{u.Package}
	}
	// The harness may add imports of repo packages; those listed in ExtraRoots are
	// instrumented as well.
	roots = append(roots, u.ExtraRoots...)
	args := []string{"-repo", repoDir, "-dir", filepath.Join(repoDir, u.Module), "-modfile", mf, "-out", ovDir,
		"-passes", strings.Join(u.Passes, ","), "-roots", strings.Join(roots, ",")}
	if u.Exclude != "" {
		args = append(args, "-exclude", u.Exclude)
	}
	cmd := exec.Command(filepath.Join(verifDir, "bin", "overlaygen"), args...)
	cmd.Env = goEnv()
	var stderr bytes.Buffer
	cmd.Stderr = &stderr
	t0 := time.Now()
	b, err := cmd.Output()
	if err != nil {
		fatal2("overlaygen failed: %v\n%s", err, stderr.String())
	}
	if err := json.Unmarshal(b, &ov); err != nil {
		fatal2("overlaygen output: %v", err)
	}
	fmt.Fprintf(logw, "check: overlay %d files rewritten (%v) in %v\n", len(ov.Replace), ov.Counters, time.Since(t0).Round(time.Millisecond))
	merged := map[string]string{}
	for k, v := range ov.Replace {
		merged[k] = v
	}
	for k, v := range harnessFiles() {
		merged[k] = v
	}
	ob, _ := json.Marshal(map[string]any{"Replace": merged})
	ovPath := filepath.Join(scratch, "overlay.json")
	if err := os.WriteFile(ovPath, ob, 0o644); err != nil {
		fatal2("%v", err)
	}
	bin = filepath.Join(scratch, "harness.test")
	bargs := []string{"test", "-c", "-o", bin, "-overlay", ovPath, "-modfile", mf}
	if u.Race {
		bargs = append(bargs, "-race")
	}
	bargs = append(bargs, u.Package)
	cmd = exec.Command(goRoot+"/bin/go", bargs...)
	cmd.Dir = filepath.Join(repoDir, u.Module)
	cmd.Env = goEnv()
	var out bytes.Buffer
	cmd.Stdout, cmd.Stderr = &out, &out
	t0 = time.Now()
	if err := cmd.Run(); err != nil {
		fatal2("build of harness for %s failed (%v):\n%s", u.Name, err, out.String())
	}
	fmt.Fprintf(logw, "check: built %s harness in %v\n", u.Name, time.Since(t0).Round(time.Millisecond))
	return bin, ov
}

// --- worker results --------------------------------------------------------------------

type failure struct {
	Class     string `json:"class"`
	Sig       string `json:"sig"`
	Msg       string `json:"msg"`
	TraceHash string `json:"trace_hash,omitempty"`
}

type engStats struct {
	Evaluations  int64             `json:"evaluations"`
	NonTrivial   int64             `json:"nontrivial"`
	Probes       map[string]int64  `json:"probes"`
	Faults       map[string]int64  `json:"faults"`
	VirtualNS    int64             `json:"virtual_ns"`
	Steps        int64             `json:"steps"`
	Inconclusive map[string]int64  `json:"inconclusive"`
	Known        map[string]int64  `json:"known"`
	Samples      []json.RawMessage `json:"samples"`
	Distinct     int64             `json:"distinct_nontrivial"`
	DistinctCap  bool              `json:"distinct_capped"`
	WallMS       int64             `json:"wall_ms"`
	Shrinks      int64             `json:"shrink_runs"`
}

type workerResult struct {
	Property string               `json:"property"`
	Worker   int                  `json:"worker"`
	Seed     uint64               `json:"seed"`
	Engines  map[string]*engStats `json:"engines"`
	Replay   string               `json:"replay,omitempty"`
	Failure  *failure             `json:"failure,omitempty"`
	Engine   string               `json:"engine,omitempty"`
	Harness  string               `json:"harness_error,omitempty"`
}

type runOutcome struct {
	results   []*workerResult
	hashes    map[string]struct{}
	crashed   []string // worker logs of crashed workers
	violation *workerResult
}

func runWorkers(u *unit, bin, prop, outDir string, seed uint64, workers int, budget time.Duration, extraEnv []string) *runOutcome {
	_ = os.MkdirAll(outDir, 0o755)
	var wg sync.WaitGroup
	oc := &runOutcome{hashes: map[string]struct{}{}}
	var mu sync.Mutex
	hardLimit := 2*budget + 150*time.Second
	for w := 0; w < workers; w++ {
		wg.Add(1)
		go func(w int) {
			defer wg.Done()
			args := []string{"-test.run", "^TestVerif$", "-test.timeout", "0", "-test.count", "1", "-rapid.shrinktime", "25s"}
			cmd := exec.Command(bin, args...)
			cmd.Dir = filepath.Join(repoDir, u.Module, u.Package)
			gmp := "1"
			if u.GoMaxProcs != nil {
				gmp = strconv.Itoa(u.GoMaxProcs[w%len(u.GoMaxProcs)])
			}
			cmd.Env = append(os.Environ(),
				"VERIF_PROP="+prop, "VERIF_OUT="+outDir, "VERIF_WORKER="+strconv.Itoa(w),
				"VERIF_SEED="+strconv.FormatUint(seed, 10), "VERIF_BUDGET_MS="+strconv.FormatInt(budget.Milliseconds(), 10),
				"VERIF_REPLAY_DIR="+filepath.Join(outDir, "replays"),
				"VERIF_KNOWN="+filepath.Join(verifDir, "known_findings.json"),
				"GOMAXPROCS="+gmp, "GODEBUG=randseednop=0,asyncpreemptoff=1", "GOTRACEBACK=all")
			cmd.Env = append(cmd.Env, extraEnv...)
			if u.Race {
				cmd.Env = append(cmd.Env, "GORACE=exitcode=0 history_size=3", "VERIF_RACE=1")
			}
			logPath := filepath.Join(outDir, fmt.Sprintf("worker-%d.log", w))
			lf, _ := os.Create(logPath)
			cmd.Stdout, cmd.Stderr = lf, lf
			if err := cmd.Start(); err != nil {
				fatal2("start worker: %v", err)
			}
			done := make(chan error, 1)
			go func() { done <- cmd.Wait() }()
			var err error
			timedOut := false
			select {
			case err = <-done:
			case <-time.After(hardLimit):
				timedOut = true
				_ = cmd.Process.Signal(syscall.SIGQUIT) // goroutine dump into the worker log
				select {
				case err = <-done:
				case <-time.After(5 * time.Second):
					_ = cmd.Process.Kill()
					err = <-done
				}
			}
			lf.Close()
			mu.Lock()
			defer mu.Unlock()
			if timedOut {
				oc.crashed = append(oc.crashed, "WATCHDOG "+logPath)
				return
			}
			rb, rerr := os.ReadFile(filepath.Join(outDir, fmt.Sprintf("result-%d.json", w)))
			if rerr != nil {
				oc.crashed = append(oc.crashed, fmt.Sprintf("%s (exit: %v)", logPath, err))
				return
			}
			var wr workerResult
			if jerr := json.Unmarshal(rb, &wr); jerr != nil {
				oc.crashed = append(oc.crashed, logPath)
				return
			}
			if wr.Failure != nil && wr.Failure.Class == "harness" {
				// the harness found itself inconsistent: never a pass
				oc.crashed = append(oc.crashed, fmt.Sprintf("%s (harness error: %s)", logPath, wr.Failure.Msg))
				return
			}
			if err != nil && wr.Failure == nil {
				// exited non-zero without a recorded failure: crash after partial results
				oc.crashed = append(oc.crashed, fmt.Sprintf("%s (exit: %v)", logPath, err))
			}
			oc.results = append(oc.results, &wr)
			if wr.Failure != nil && wr.Replay != "" && oc.violation == nil {
				oc.violation = &wr
			}
			if hb, herr := os.ReadFile(filepath.Join(outDir, fmt.Sprintf("hashes-%d.txt", w))); herr == nil {
				sc := bufio.NewScanner(bytes.NewReader(hb))
				for sc.Scan() {
					if l := sc.Text(); l != "" {
						oc.hashes[l] = struct{}{}
					}
				}
			}
		}(w)
	}
	wg.Wait()
	sort.Slice(oc.results, func(i, j int) bool { return oc.results[i].Worker < oc.results[j].Worker })
	return oc
}

// replayOnce runs the harness binary on a replay file in a fresh process.
func replayOnce(u *unit, bin, prop, replayPath, outDir string, raw bool) (*failure, string) {
	_ = os.MkdirAll(outDir, 0o755)
	cmd := exec.Command(bin, "-test.run", "^TestVerif$", "-test.timeout", "20m", "-test.count", "1")
	cmd.Dir = filepath.Join(repoDir, u.Module, u.Package)
	cmd.Env = append(os.Environ(), "VERIF_PROP="+prop, "VERIF_OUT="+outDir, "VERIF_WORKER=999", "VERIF_REPLAY="+replayPath,
		"GOMAXPROCS=1", "GODEBUG=randseednop=0,asyncpreemptoff=1", "GOTRACEBACK=all")
	if !raw {
		// same known-findings view as the search, so an enumeration engine walks past
		// recorded findings to the violation the file was written for
		cmd.Env = append(cmd.Env, "VERIF_KNOWN="+filepath.Join(verifDir, "known_findings.json"))
	}
	var out bytes.Buffer
	cmd.Stdout, cmd.Stderr = &out, &out
	_ = cmd.Run()
	rb, err := os.ReadFile(filepath.Join(outDir, "result-999.json"))
	if err != nil {
		return nil, "replay process produced no result:\n" + tail(out.String(), 60)
	}
	var wr workerResult
	if err := json.Unmarshal(rb, &wr); err != nil {
		return nil, "bad replay result"
	}
	if wr.Failure == nil {
		// an enumeration engine walks past recorded findings: report what it met
		for _, es := range wr.Engines {
			for k, n := range es.Known {
				if n > 0 && !strings.HasPrefix(k, "COLLECT ") {
					fmt.Printf("KNOWN-FINDING: property=%s replay of %s meets a recorded finding %d time(s) (%s)\n", prop, filepath.Base(replayPath), n, k)
				}
			}
		}
	}
	return wr.Failure, out.String()
}

func tail(s string, n int) string {
	l := strings.Split(s, "\n")
	if len(l) > n {
		l = l[len(l)-n:]
	}
	return strings.Join(l, "\n")
}

// --- known findings -----------------------------------------------------------------------

type knownFinding struct {
	Property string   `json:"property"`
	Class    string   `json:"class"`
	SigRe    string   `json:"sig_regex"`
	What     string   `json:"what"`
	Status   string   `json:"status"`
	Commit   string   `json:"commit,omitempty"`
	AlsoFor  []string `json:"also_for,omitempty"`
}

func loadKnown() []knownFinding {
	b, err := os.ReadFile(filepath.Join(verifDir, "known_findings.json"))
	if err != nil {
		return nil
	}
	var kf struct {
		Findings []knownFinding `json:"findings"`
	}
	if err := json.Unmarshal(b, &kf); err != nil {
		fatal2("known_findings.json: %v", err)
	}
	return kf.Findings
}

// --- main -----------------------------------------------------------------------------------

func repoStatus() string {
	out, _ := exec.Command("git", "-C", repoDir, "status", "--porcelain").Output()
	return string(out)
}

func main() {
	if len(os.Args) < 2 {
		fatal2("usage: check <property> [--tier quick|thorough] [--replay file] [--seed N]")
	}
	prop := os.Args[1]
	fs := flag.NewFlagSet("check", flag.ExitOnError)
	tier := fs.String("tier", os.Getenv("VERIF_TIER"), "quick or thorough")
	replay := fs.String("replay", "", "replay file")
	seedF := fs.Int64("seed", -1, "seed (default VERIF_SEED or 1)")
	budgetF := fs.Int("budget", 0, "wall budget in seconds for the search phase (overrides tier default)")
	workersF := fs.Int("workers", 0, "number of worker processes")
	keep := fs.Bool("keep", false, "keep scratch directory")
	raw := fs.Bool("raw", false, "with --replay: ignore known_findings.json (show the first failing point even if it is a recorded finding)")
	selftest := fs.Bool("selftest", false, "determinism self-test: run the same seeds in many processes at GOMAXPROCS 1/4/16 and diff the per-case trace hashes")
	noEvidence := fs.Bool("no-evidence", false, "do not write the evidence file")
	_ = fs.Parse(os.Args[2:])
	if *tier == "" {
		*tier = "quick"
	}
	if *tier != "quick" && *tier != "thorough" {
		fatal2("bad tier %q", *tier)
	}
	seed := uint64(1)
	if v := os.Getenv("VERIF_SEED"); v != "" {
		n, err := strconv.ParseUint(v, 10, 63)
		if err != nil {
			fatal2("bad VERIF_SEED %q", v)
		}
		seed = n
	}
	if *seedF >= 0 {
		seed = uint64(*seedF)
	}
	pd, ok := properties[prop]
	if !ok {
		fatal2("unknown property %s", prop)
	}
	before := repoStatus()
	scratchRoot, err := os.MkdirTemp("", "verif-"+prop+"-")
	if err != nil {
		fatal2("%v", err)
	}
	defer func() {
		if !*keep {
			_ = os.RemoveAll(scratchRoot)
		}
	}()
	exit := func(code int) {
		if !*keep {
			_ = os.RemoveAll(scratchRoot)
		} else {
			fmt.Fprintln(os.Stderr, "check: scratch kept at", scratchRoot)
		}
		if after := repoStatus(); after != before {
			fmt.Fprintf(os.Stderr, "check: /repo working tree was modified by the check!\nbefore:\n%s\nafter:\n%s\n", before, after)
			os.Exit(2)
		}
		os.Exit(code)
	}
	start := time.Now()
	fmt.Printf("check: property=%s tier=%s seed=%d\n", prop, *tier, seed)

	if *selftest {
		code := runSelftest(prop, pd, seed, scratchRoot)
		exit(code)
	}
	if *replay != "" {
		if abs, err := filepath.Abs(*replay); err == nil {
			*replay = abs
		}
		rb, err := os.ReadFile(*replay)
		if err != nil {
			fatal2("%v", err)
		}
		var rf struct {
			Engine  string   `json:"engine"`
			Failure *failure `json:"failure"`
		}
		if err := json.Unmarshal(rb, &rf); err != nil {
			fatal2("bad replay file: %v", err)
		}
		if rf.Engine == "race" {
			var rr raceReplay
			_ = json.Unmarshal(rb, &rr)
			for i := range pd.Units {
				u := &pd.Units[i]
				if u.Name != rr.Unit {
					continue
				}
				scratch := filepath.Join(scratchRoot, u.Name)
				_ = os.MkdirAll(scratch, 0o755)
				bin, _ := buildUnit(u, scratch, os.Stdout)
				budget := time.Duration(rr.BudgetS) * time.Second
				if budget <= 0 {
					budget = 20 * time.Second
				}
				fmt.Printf("check: re-running %s under the race detector: %d workers x %v, seed %d\n", u.Name, rr.Workers, budget, rr.Seed)
				runWorkers(u, bin, prop, filepath.Join(scratch, "out"), rr.Seed, rr.Workers, budget, []string{"VERIF_TIER=quick"})
				if got := scanRaces(prop, filepath.Join(scratch, "out"), rr.Workers); got != nil {
					fmt.Printf("data-race [%s]:\n%s\n", got.Failure.Sig, got.Failure.Msg)
					fmt.Printf("VIOLATION property=%s replay=%s\n", prop, *replay)
					exit(1)
				}
				fmt.Println("check: no race report this time (the -race tier does not replay exactly)")
				exit(0)
			}
			fatal2("no unit %q", rr.Unit)
		}
		for i := range pd.Units {
			u := &pd.Units[i]
			if !u.hasEngine(rf.Engine) {
				continue
			}
			scratch := filepath.Join(scratchRoot, u.Name)
			_ = os.MkdirAll(scratch, 0o755)
			bin, _ := buildUnit(u, scratch, os.Stdout)
			f, out := replayOnce(u, bin, prop, *replay, filepath.Join(scratch, "replay"), *raw)
			if f == nil {
				fmt.Println(tail(out, 30))
				if !strings.Contains(out, "REPLAY-PASS") {
					fmt.Println("check: replay process did not complete")
					exit(2)
				}
				fmt.Println("check: replay did not reproduce a failure")
				exit(0)
			}
			if os.Getenv("VERIF_DEBUG") != "" {
				fmt.Println(out)
			}
			fmt.Printf("%s: %s\n", f.Class, f.Msg)
			if !*raw && strings.Contains(out, "REPLAY-KNOWN") {
				// the replayed failure is a recorded known finding (use --raw to judge it
				// without the known-findings file)
				fmt.Printf("KNOWN-FINDING: property=%s replay of %s reproduces a recorded finding (%s [%s])\n", prop, filepath.Base(*replay), f.Class, f.Sig)
				exit(0)
			}
			fmt.Printf("VIOLATION property=%s replay=%s\n", prop, *replay)
			exit(1)
		}
		fatal2("no unit of %s has engine %q", prop, rf.Engine)
	}

	var runs []unitRun
	raceViolation := ""
	for i := range pd.Units {
		u := &pd.Units[i]
		scratch := filepath.Join(scratchRoot, u.Name)
		_ = os.MkdirAll(scratch, 0o755)
		bin, ov := buildUnit(u, scratch, os.Stdout)
		budget := u.QuickBudget
		workers := u.QuickWorkers
		if *tier == "thorough" {
			budget, workers = u.ThoroughBudget, u.ThoroughWorkers
		}
		if *budgetF > 0 {
			budget = time.Duration(*budgetF) * time.Second
		}
		if *workersF > 0 {
			workers = *workersF
		}
		if workers <= 0 {
			workers = 8
		}
		var env []string
		if len(u.Engines) > 0 {
			// the unit restricts which engines of the harness run
			env = append(env, "VERIF_ENGINES="+strings.Join(u.Engines, ","))
		}
		env = append(env, "VERIF_TIER="+*tier)
		fmt.Printf("check: running %s: %d workers x %v\n", u.Name, workers, budget)
		oc := runWorkers(u, bin, prop, filepath.Join(scratch, "out"), seed, workers, budget, env)
		runs = append(runs, unitRun{u, oc, ov, bin})
		if u.Race && oc.violation == nil {
			if rr := scanRaces(prop, filepath.Join(scratch, "out"), workers); rr != nil {
				rr.Unit, rr.Seed, rr.BudgetS, rr.Workers = u.Name, seed, int(budget.Seconds()), workers
				dst := filepath.Join(verifDir, "replays", fmt.Sprintf("%s-race-s%d-w%d.json", prop, seed, rr.Worker))
				b, _ := json.MarshalIndent(rr, "", " ")
				_ = os.MkdirAll(filepath.Dir(dst), 0o755)
				_ = os.WriteFile(dst, b, 0o644)
				fmt.Printf("data-race [%s]:\n%s\n", rr.Failure.Sig, rr.Failure.Msg)
				raceViolation = fmt.Sprintf("VIOLATION property=%s replay=%s", prop, dst)
				break
			}
		}
		if len(oc.crashed) > 0 && oc.violation == nil {
			for _, c := range oc.crashed {
				fmt.Fprintln(os.Stderr, "check: worker crashed or hung:", c)
				parts := strings.Fields(c)
				p := parts[0]
				if p == "WATCHDOG" && len(parts) > 1 {
					p = parts[1]
				}
				if lb, err := os.ReadFile(p); err == nil {
					fmt.Fprintln(os.Stderr, tail(string(lb), 80))
				}
			}
			fmt.Fprintln(os.Stderr, "check: exiting 2 (worker crash/hang is harness trouble until reproduced as a violation)")
			*keep = true
			exit(2)
		}
		if oc.violation != nil {
			break
		}
	}

	// evidence
	ev := buildEvidence(prop, pd, *tier, seed, runs, time.Since(start))
	var viol *workerResult
	var violUnit *unitRun
	for i := range runs {
		if runs[i].oc.violation != nil {
			viol = runs[i].oc.violation
			violUnit = &runs[i]
			break
		}
	}
	code := 0
	var final string
	if viol != nil {
		// confirm by replay in a fresh process
		f, out := replayOnce(violUnit.u, violUnit.bin, prop, viol.Replay, filepath.Join(scratchRoot, "confirm"), false)
		dst := filepath.Join(verifDir, "replays", filepath.Base(viol.Replay))
		_ = os.MkdirAll(filepath.Dir(dst), 0o755)
		rb, _ := os.ReadFile(viol.Replay)
		_ = os.WriteFile(dst, rb, 0o644)
		replayKnown := false
		if f != nil {
			for _, k := range loadKnown() {
				applies := k.Property == prop
				for _, a := range k.AlsoFor {
					if a == prop {
						applies = true
					}
				}
				if applies && k.Status == "known" && (k.Class == "" || k.Class == f.Class) {
					if re, err := regexp.Compile(k.SigRe); err == nil && re.MatchString(f.Sig) {
						replayKnown = true
					}
				}
			}
		}
		switch {
		case replayKnown:
			fmt.Fprintf(os.Stderr, "check: worker reported %s/%s but replay in a fresh process ended in a recorded known finding (%s/%s): the harness is not deterministic for this case; replay kept at %s\n",
				viol.Failure.Class, viol.Failure.Sig, f.Class, f.Sig, dst)
			ev["violations"] = 0
			ev["replay_unconfirmed"] = dst
			code = 2
		case f == nil:
			fmt.Fprintf(os.Stderr, "check: worker reported %s but replay in a fresh process passed (non-deterministic harness); replay kept at %s\n%s\n",
				viol.Failure.Class, dst, tail(out, 40))
			ev["violations"] = 0
			ev["replay_unconfirmed"] = dst
			code = 2
		case f.Class != viol.Failure.Class || (viol.Failure.TraceHash != "" && f.TraceHash != viol.Failure.TraceHash):
			fmt.Fprintf(os.Stderr, "check: replay failed differently (found %s/%s, replay %s/%s); reporting the replayed failure\n",
				viol.Failure.Class, viol.Failure.TraceHash, f.Class, f.TraceHash)
			fallthrough
		default:
			fmt.Printf("%s [%s]: %s\n", f.Class, f.Sig, f.Msg)
			final = fmt.Sprintf("VIOLATION property=%s replay=%s", prop, dst)
			ev["violations"] = 1
			code = 1
		}
	}
	for _, k := range loadKnown() {
		applies := k.Property == prop
		for _, a := range k.AlsoFor {
			if a == prop {
				applies = true
			}
		}
		if !applies || k.Status != "known" {
			continue
		}
		fmt.Printf("KNOWN-FINDING: property=%s %s\n", prop, k.What)
	}
	if !*noEvidence {
		ev["wall_s"] = time.Since(start).Seconds()
		eb, _ := json.MarshalIndent(ev, "", " ")
		_ = os.MkdirAll(filepath.Join(verifDir, "evidence"), 0o755)
		if err := os.WriteFile(filepath.Join(verifDir, "evidence", prop+".json"), eb, 0o644); err != nil {
			fatal2("write evidence: %v", err)
		}
	}
	cov := ev["coverage"].(map[string]any)
	if miss, _ := cov["required_probes_not_reached"].([]string); len(miss) > 0 && code == 0 {
		if *tier == "thorough" && *budgetF == 0 && os.Getenv("VERIF_MAXCASES") == "" {
			fmt.Fprintf(os.Stderr, "check: the thorough run did not reach %v: the workload no longer covers what this check claims; exiting 2\n", miss)
			code = 2
		} else {
			fmt.Printf("check: note: not reached in this run: %v\n", miss)
		}
	}
	fmt.Printf("check: %s %s: evaluations=%v distinct_nontrivial=%v wall=%.1fs\n", prop, *tier, cov["evaluations"], cov["distinct_nontrivial"], time.Since(start).Seconds())
	if final != "" {
		fmt.Println(final)
	}
	if raceViolation != "" {
		fmt.Println(raceViolation)
		code = 1
	}
	exit(code)
}

type unitRun struct {
	u   *unit
	oc  *runOutcome
	ov  overlayResult
	bin string
}

// runSelftest proves replay determinism for every unit of a property: the same seed is
// executed in 30 separate processes (10 each at GOMAXPROCS 1, 4 and 16) with a fixed
// number of cases and the per-case trace-hash logs are compared. Any divergence among the
// GOMAXPROCS=1 processes (the configuration every deterministic check uses) fails.
func runSelftest(prop string, pd *propDef, seed uint64, scratchRoot string) int {
	bad := 0
	for i := range pd.Units {
		u := &pd.Units[i]
		if u.Race {
			continue
		}
		scratch := filepath.Join(scratchRoot, u.Name)
		_ = os.MkdirAll(scratch, 0o755)
		bin, _ := buildUnit(u, scratch, os.Stdout)
		type res struct {
			gmp  int
			rep  int
			data string
		}
		var mu sync.Mutex
		var all []res
		var wg sync.WaitGroup
		sem := make(chan struct{}, 15)
		for _, gmp := range []int{1, 4, 16} {
			for rep := 0; rep < 10; rep++ {
				wg.Add(1)
				go func(gmp, rep int) {
					defer wg.Done()
					sem <- struct{}{}
					defer func() { <-sem }()
					out := filepath.Join(scratch, fmt.Sprintf("st-%d-%d", gmp, rep))
					_ = os.MkdirAll(out, 0o755)
					cmd := exec.Command(bin, "-test.run", "^TestVerif$", "-test.timeout", "0", "-test.count", "1")
					cmd.Dir = filepath.Join(repoDir, u.Module, u.Package)
					hl := filepath.Join(out, "hashes.log")
					cmd.Env = append(os.Environ(), "VERIF_PROP="+prop, "VERIF_OUT="+out, "VERIF_WORKER=0",
						"VERIF_SEED="+strconv.FormatUint(seed, 10), "VERIF_BUDGET_MS=600000", "VERIF_MAXCASES=400",
						"VERIF_HASHLOG="+hl, "VERIF_KNOWN="+filepath.Join(verifDir, "known_findings.json"),
						"GOMAXPROCS="+strconv.Itoa(gmp), "GODEBUG=randseednop=0,asyncpreemptoff=1")
					if len(u.Engines) > 0 {
						cmd.Env = append(cmd.Env, "VERIF_ENGINES="+strings.Join(u.Engines, ","))
					}
					if gmp == 1 {
						td := filepath.Join(out, "traces")
						_ = os.MkdirAll(td, 0o755)
						cmd.Env = append(cmd.Env, "VERIF_TRACEDIR="+td)
					}
					_ = cmd.Run()
					b, _ := os.ReadFile(hl)
					mu.Lock()
					all = append(all, res{gmp, rep, string(b)})
					mu.Unlock()
				}(gmp, rep)
			}
		}
		wg.Wait()
		var ref string
		for _, r := range all {
			if r.gmp == 1 && r.rep == 0 {
				ref = r.data
			}
		}
		div := map[int]int{}
		for _, r := range all {
			if r.data != ref {
				div[r.gmp]++
			}
		}
		n := strings.Count(ref, "\n")
		fmt.Printf("selftest: unit %s: %d cases per process, 30 processes; diverging from the GOMAXPROCS=1 reference: gomaxprocs1=%d/10 gomaxprocs4=%d/10 gomaxprocs16=%d/10\n",
			u.Name, n, div[1], div[4], div[16])
		if n == 0 || div[1] > 0 {
			bad++
			// show where the first diverging GOMAXPROCS=1 process departs from the reference
			for _, r := range all {
				if r.gmp != 1 || r.data == ref {
					continue
				}
				a, b := strings.Split(ref, "\n"), strings.Split(r.data, "\n")
				for i := 0; i < len(a) && i < len(b); i++ {
					if a[i] != b[i] {
						fa := filepath.Join(scratch, "st-1-0", "traces", strconv.Itoa(i+1)+".trace")
						fb := filepath.Join(scratch, fmt.Sprintf("st-1-%d", r.rep), "traces", strconv.Itoa(i+1)+".trace")
						out, _ := exec.Command("diff", fa, fb).CombinedOutput()
						fmt.Printf("selftest: case %d diverges between rep 0 and rep %d; diff of scheduler traces:\n%s\n", i+1, r.rep, tail(string(out), 40))
						break
					}
				}
				break
			}
		}
	}
	if bad > 0 {
		fmt.Println("selftest: FAILED (non-deterministic at GOMAXPROCS=1 or no cases ran)")
		return 2
	}
	fmt.Println("selftest: ok")
	return 0
}

// ---- race reports ---------------------------------------------------------------------------

type raceReplay struct {
	Property string   `json:"property"`
	Engine   string   `json:"engine"` // "race"
	Unit     string   `json:"unit"`
	Seed     uint64   `json:"seed"`
	Worker   int      `json:"worker"`
	Workers  int      `json:"workers"`
	BudgetS  int      `json:"budget_s"`
	Failure  *failure `json:"failure"`
	Note     string   `json:"note"`
}

var raceFrameRe = regexp.MustCompile(`(?m)^\s+(github\.com/synnaxlabs/[^\s(]+)\(`)

// scanRaces looks for race detector reports in the worker logs whose stacks include
// repository code outside the injected harness files and that no recorded known finding
// explains. The signature is the set of top repository frames of the report.
func scanRaces(prop, outDir string, workers int) *raceReplay {
	known := loadKnown()
	for w := 0; w < workers; w++ {
		b, err := os.ReadFile(filepath.Join(outDir, fmt.Sprintf("worker-%d.log", w)))
		if err != nil {
			continue
		}
		parts := strings.Split(string(b), "WARNING: DATA RACE")
		for _, rep := range parts[1:] {
			if i := strings.Index(rep, "=================="); i >= 0 {
				rep = rep[:i]
			}
			// top repo frame of each of the stacks (skip harness files)
			var frames []string
			for _, blk := range strings.Split(rep, "\n\n") {
				lines := strings.Split(blk, "\n")
				for i := 0; i+1 < len(lines); i++ {
					m := raceFrameRe.FindStringSubmatch(lines[i] + "(")
					if m == nil || !strings.Contains(lines[i], "synnaxlabs/") {
						continue
					}
					if strings.Contains(lines[i+1], "zz_verif") {
						continue
					}
					fn := strings.TrimSuffix(strings.TrimSpace(lines[i]), "()")
					if j := strings.LastIndex(fn, "/"); j >= 0 {
						fn = fn[j+1:]
					}
					frames = append(frames, fn)
					break
				}
			}
			if len(frames) == 0 {
				continue // a race entirely inside harness or third-party code is not judged
			}
			seen := map[string]bool{}
			var uniq []string
			for _, f := range frames {
				if !seen[f] {
					seen[f] = true
					uniq = append(uniq, f)
				}
			}
			sort.Strings(uniq)
			sig := strings.Join(uniq, "|")
			isKnown := false
			for _, k := range known {
				if k.Status != "known" || (k.Class != "" && k.Class != "data-race") {
					continue
				}
				applies := k.Property == prop
				for _, a := range k.AlsoFor {
					if a == prop {
						applies = true
					}
				}
				if applies {
					if re, err := regexp.Compile(k.SigRe); err == nil && re.MatchString(sig) {
						isKnown = true
					}
				}
			}
			if isKnown {
				continue
			}
			return &raceReplay{Property: prop, Engine: "race", Worker: w,
				Failure: &failure{Class: "data-race", Sig: sig, Msg: "WARNING: DATA RACE" + tail(rep, 80)},
				Note:    "race-detector report; re-running the same seed/worker under -race re-executes the same accesses (the -race tier does not replay exactly)"}
		}
	}
	return nil
}
