package main

import (
	"encoding/json"
	"sort"
	"time"
)

func addMap(dst map[string]int64, src map[string]int64) {
	for k, v := range src {
		dst[k] += v
	}
}

func buildEvidence(prop string, pd *propDef, tier string, seed uint64, runs []unitRun, wall time.Duration) map[string]any {
	var evals, nontriv, steps, virt, shrinks int64
	probes, faults, inconcl, known := map[string]int64{}, map[string]int64{}, map[string]int64{}, map[string]int64{}
	var samples []any
	perEngine := map[string]any{}
	distinct := 0
	workers := 0
	counters := map[string]int{}
	for _, r := range runs {
		distinct += len(r.oc.hashes)
		workers += len(r.oc.results)
		for k, v := range r.ov.Counters {
			counters[r.u.Name+"."+k] = v
		}
		agg := map[string]*engStats{}
		for _, wr := range r.oc.results {
			for name, st := range wr.Engines {
				a := agg[name]
				if a == nil {
					a = &engStats{Probes: map[string]int64{}, Faults: map[string]int64{}, Inconclusive: map[string]int64{}, Known: map[string]int64{}}
					agg[name] = a
				}
				a.Evaluations += st.Evaluations
				a.NonTrivial += st.NonTrivial
				a.Steps += st.Steps
				a.VirtualNS += st.VirtualNS
				a.WallMS += st.WallMS
				a.Shrinks += st.Shrinks
				addMap(a.Probes, st.Probes)
				addMap(a.Faults, st.Faults)
				addMap(a.Inconclusive, st.Inconclusive)
				addMap(a.Known, st.Known)
				if len(a.Samples) < 2 {
					a.Samples = append(a.Samples, st.Samples...)
					if len(a.Samples) > 2 {
						a.Samples = a.Samples[:2]
					}
				}
			}
		}
		names := make([]string, 0, len(agg))
		for n := range agg {
			names = append(names, n)
		}
		sort.Strings(names)
		for _, n := range names {
			a := agg[n]
			evals += a.Evaluations
			nontriv += a.NonTrivial
			steps += a.Steps
			virt += a.VirtualNS
			shrinks += a.Shrinks
			addMap(probes, a.Probes)
			addMap(faults, a.Faults)
			addMap(inconcl, a.Inconclusive)
			addMap(known, a.Known)
			for _, s := range a.Samples {
				var v any
				if json.Unmarshal(s, &v) == nil {
					samples = append(samples, map[string]any{"engine": n, "case": v})
				}
			}
			perEngine[r.u.Name+"/"+n] = map[string]any{
				"evaluations": a.Evaluations, "nontrivial": a.NonTrivial, "scheduler_steps": a.Steps,
				"virtual_seconds": float64(a.VirtualNS) / 1e9, "cpu_ms_in_engine": a.WallMS,
			}
		}
	}
	if samples == nil {
		samples = []any{}
	}
	rph := 0.0
	if wall > 0 {
		rph = float64(evals) / wall.Hours()
	}
	cov := map[string]any{
		"evaluations":         evals,
		"distinct_nontrivial": distinct,
		"nontrivial_total":    nontriv,
		"rule":                pd.Rule,
		"samples":             samples,
		"runs_per_hour":       rph,
		"simulated_seconds":   float64(virt) / 1e9,
		"scheduler_steps":     steps,
		"fault_kinds_fired":   faults,
		"probes":              probes,
		"inconclusive":        inconcl,
		"known_finding_hits":  known,
		"shrink_runs":         shrinks,
		"workers":             workers,
		"engines":             perEngine,
		"components_real":     pd.Real,
		"components_stubbed":  pd.Stub,
		"overlay_counters":    counters,
		"seeds":               "worker w of this run uses rapid seeds derived from (VERIF_SEED, w, batch)",
		"exhaustive":          false,
	}
	missing := []string{}
	for _, n := range pd.RequiredProbes {
		if probes[n] == 0 && faults[n] == 0 {
			missing = append(missing, n)
		}
	}
	cov["required_probes"] = pd.RequiredProbes
	cov["required_probes_not_reached"] = missing
	return map[string]any{
		"property_id": prop,
		"tier":        tier,
		"seed":        seed,
		"level":       pd.Level,
		"coverage":    cov,
		"assumptions": pd.Assumptions,
		"wall_s":      wall.Seconds(),
		"violations":  0,
	}
}
