package main

import "time"

// unit is one harness binary (module, package, overlay passes) and the engines of a
// property it runs.
type unit struct {
	Name       string
	Module     string   // directory of the Go module under /repo
	Package    string   // package pattern relative to the module (e.g. ".")
	Passes     []string // overlay passes
	Roots      []string // packages whose dependency closure is instrumented (default: Package)
	ExtraRoots []string
	Exclude    string
	Race       bool
	GoMaxProcs []int // per-worker GOMAXPROCS cycle (default 1)
	Engines    []string

	QuickBudget     time.Duration
	QuickWorkers    int
	ThoroughBudget  time.Duration
	ThoroughWorkers int
}

func (u *unit) hasEngine(name string) bool {
	if len(u.Engines) == 0 {
		return true
	}
	for _, e := range u.Engines {
		if e == name {
			return true
		}
	}
	return false
}

type propDef struct {
	Level       string
	Rule        string
	Real        []string
	Stub        []string
	Assumptions []string
	// RequiredProbes must be non-zero in the thorough tier (otherwise exit 2: the
	// workload no longer reaches what the check claims to reach).
	RequiredProbes []string
	Units          []unit
}

var allPasses = []string{"simsync", "simatomic", "detrange", "chanyield", "detselect", "dettimer"}

func cesiumUnit(name string, engines ...string) unit {
	return unit{
		Name: name, Module: "cesium", Package: ".", Passes: allPasses, Engines: engines,
		QuickBudget: 25 * time.Second, QuickWorkers: 8,
		ThoroughBudget: 20 * time.Minute, ThoroughWorkers: 16,
	}
}

var cesiumReal = []string{
	"cesium (DB, writers, iterators, streamers, relay, control, unary, domain, index, meta, GC) — real code, instrumented copy via -overlay",
	"x/go/{confluence,signal,io,telem,control,...} — real code",
}
var cesiumStub = []string{
	"disk: verifsim/simfs (in-memory POSIX-like FS with mutation log) behind cesium.WithFS",
	"clock/timers: testing/synctest bubble (virtual time)",
	"goroutine scheduler: verifsim/sim (seeded) at instrumented sync/atomic/channel/FS points",
	"map iteration order: simrt.MapKeys (sorted, optionally permuted from the run's choice source)",
}

var properties = map[string]*propDef{
	"C01": {
		Level: "exploration",
		Rule:  "cases are rapid-generated scripts (schema, file-size cap, writers with frames/commits, reads); a case is non-trivial when it committed >=2 domains or rolled a file over or wrote out of order, and executed >=1 read whose range cuts between samples; distinct = distinct hash of (script shape, layout of committed domains, read boundary classes)",
		Real:  cesiumReal, Stub: cesiumStub,
		Assumptions: []string{
			"reference model (ts->bytes map of committed samples) is written from the property statement",
			"legal scripts only: strictly increasing timestamps per index, writers at disjoint times",
		},
		RequiredProbes: []string{"rollover", "out_of_order_domain", "read_cuts_between_samples", "variable_type", "reopen"},
		Units:          []unit{cesiumUnit("cesium-seq", "c01")},
	},
	"C04": {
		Level: "exploration",
		Rule:  "cases are rapid-generated scripts of writes, time-range deletes (data-only, index-only, whole group; unaligned bounds), GC passes at drawn thresholds, reopen and reads; after every delete and around every GC pass every channel is read in full and compared with the reference map; non-trivial = at least one delete that removed samples and >=2 committed domains; distinct = hash of (script shape, samples removed per delete, GC effect, file-size cap)",
		Real:  cesiumReal, Stub: cesiumStub,
		Assumptions: []string{
			"reference model: ts->bytes map minus deleted keys; index-channel delete: must be refused when a non-named dependent channel has a sample in the range, must succeed when no dependent has a sample in any writer time slot the range touches, either otherwise",
			"GC is invoked in-package through the DB's own garbageCollect pass (no hook)",
		},
		RequiredProbes: []string{"delete_removed_samples", "gc_reclaimed_bytes", "delete_start_between_samples", "delete_end_between_samples", "delete_start_on_sample", "delete_end_on_sample", "index_delete_refused", "reopen"},
		Units:          []unit{cesiumUnit("cesium-seq", "c04")},
	},
	"C02": {
		Level: "fault_enumeration",
		Rule:  "cases are rapid-generated scripts (writes with always/lazy persistence, explicit commits, closes, time-range deletes, GC passes, reopen); for each script EVERY prefix of the recorded filesystem mutation log after channel creation is a crash point (when a log exceeds 500 points: all points within +-3 of a rename/truncate/remove/index write plus a seeded sample), plus torn variants of the crashing write (1 byte, half, all but one, one 26-byte pointer record in, one record short); evaluations counts scripts, coverage.crash_points counts recoveries; a script is non-trivial when it produced >=20 crash points; distinct = hash of (script shape, log length)",
		Real:  cesiumReal,
		Stub:  append([]string{"crash: disk image rebuilt from a prefix of the recorded mutation log (process-crash model: completed FS calls survive, nothing else; optionally a torn last write)"}, cesiumStub...),
		Assumptions: []string{
			"process-crash model as the property states (cesium never fsyncs; completed filesystem calls survive)",
			"per channel, the recovered content must equal the reference content after some operation j with d <= j <= s, where d is the last operation that acknowledged persistence for that channel (auto-commit write with always-persist, explicit commit of a non-auto-commit writer, writer close, completed delete, database close) and s the last operation started before the crash; every returned value must have been written to that channel",
			"scripts that trigger the recorded C04 known finding (delete bound inside a rolled-over domain) are skipped, since the store is corrupt before any crash",
		},
		RequiredProbes: []string{"mkchan", "rmchan", "crash_points", "rollover", "gc_rewrote_file"},
		Units:          []unit{func() unit { u := cesiumUnit("cesium-crash", "c02"); return u }()},
	},
	"C10": {
		Level: "exploration",
		Rule:  "layouts come from C01/C04 scripts (multi-domain, rollover, out-of-order, deletes, GC); on them rapid-generated command sequences (SeekFirst/SeekLast/SeekLE/SeekGE, Next/Prev with spans from 1ns to the maximum, auto-span Next/Prev with chunk sizes 1-7, SetBounds) drive the per-channel iterator, whose reported view decides what each step must return; non-trivial = >=2 committed domains and at least one complete traversal of the bounds in one direction; distinct = hash of (script shape incl. command kinds, layout facts)",
		Real:  cesiumReal, Stub: cesiumStub,
		Assumptions: []string{
			"the per-channel iterator (cesium/internal/unary.Iterator, which reports View()) is driven in-package through the real database's channel map; the multi-channel cesium.Iterator is exercised by C01's sweeps",
			"after each step: returned samples == reference samples with timestamp inside the REPORTED view; views of consecutive same-direction steps are adjacent; auto steps return at most chunk-size samples; a SeekFirst/SeekLast-started run that reaches the end of the bounds has visited every in-bounds sample exactly once; an error on an auto step is tolerated only when no stored sample is left in the direction of travel",
		},
		RequiredProbes: []string{"iter_next", "iter_prev", "iter_anext", "iter_aprev", "iter_full_traversal_fwd", "iter_full_traversal_bwd", "iter_direction_reversal", "iter_view_ends_between_samples", "rollover"},
		Units:          []unit{cesiumUnit("cesium-seq", "c10")},
	},
	"C03": {
		Level: "exploration",
		Rule: "cases are rapid-generated histories of open(start[, preset end]) / write / commit(end) / close / delete / reopen over up to 5 writers on one domain database, with timestamps drawn on, next to and inside earlier ranges; after every operation the pointer list (sorted, pairwise non-overlapping, non-empty, inside file length) and the enumerated domains with their bytes are compared with an interval-set model that decides which opens/commits must fail with a validation error and which must succeed; non-trivial = >=2 committed domains and >=1 rejected conflict; distinct = hash of (operation kinds, final domain layout)",
		Real:  []string{"cesium/internal/domain (DB, index, writer, iterator, reader, file controller, delete) — real code, harness compiled into the package via -overlay", "x/go/telem time-range algebra"},
		Stub:  []string{"disk: verifsim/simfs behind domain.Config.FS", "map iteration order: simrt.MapKeys"},
		Assumptions: []string{
			"interval-set model written from the property statement and the package's doc comments: open fails iff start (or the preset range) lies inside committed data; commit fails iff it would overlap another writer's committed range, end <= start, end < previous commit, or end > preset end; equal-to-previous-commit and empty commits are left open",
			"file-size cap left at the default so that rollover does not change writer starts (rollover layouts are covered by C01)",
			"deletes use a linear time->byte resolver (byte i of a domain belongs to timestamp start+i)",
		},
		RequiredProbes: []string{"open_rejected", "commit_overlaps_other", "commit_backwards", "commit_zero_or_negative_length", "delete_cut_domain", "reopen", "commit_ok"},
		Units: []unit{{
			Name: "cesium-domain", Module: "cesium", Package: "./internal/domain", Passes: allPasses,
			QuickBudget: 20 * time.Second, QuickWorkers: 8, ThoroughBudget: 10 * time.Minute, ThoroughWorkers: 16,
		}},
	},
	"C09": {
		Level: "exploration",
		Rule: "cases are rapid-generated task sets (writer tasks on their own index groups with auto/explicit commits and always/lazy persistence, reader tasks with reads and fixed-span sweeps, a deleter on preloaded data, a GC task, a channel create/write/delete task) run as goroutines under the seeded scheduler (random / sticky / PCT strategies, random subsets of yield classes, optional map-order permutation and stall quanta); evaluations counts schedules executed; non-trivial = >=2 tasks and >=40 scheduling decisions; distinct = distinct hashes of the (goroutine, yield label) sequence the scheduler released",
		Real:  cesiumReal, Stub: cesiumStub,
		Assumptions: []string{
			"linearizability is checked per channel (porcupine, histories of successful operations stamped with a global event sequence; multi-channel reads are not assumed atomic across channels); writers use sync mode so a write's effect lies inside its call",
			"deletes that lose against concurrent users may fail and are then excluded from the history",
			"the -race unit re-runs the same harness with the race detector; it does not replay exactly (the race runtime perturbs scheduling)",
			"third-party goroutines (zap, errgroup internals) are scheduled by the Go runtime inside the bubble",
		},
		RequiredProbes: []string{"yield_lock", "yield_chan", "yield_fs", "yield_atomic", "history_ops_checked", "delete_ok", "gc_pass"},
		Units: []unit{cesiumUnit("cesium-conc", "c09"), func() unit {
			u := cesiumUnit("cesium-conc-race", "c09")
			u.Race = true
			u.GoMaxProcs = []int{1, 4, 16}
			u.QuickBudget, u.QuickWorkers = 20*time.Second, 6
			u.ThoroughBudget, u.ThoroughWorkers = 10*time.Minute, 12
			return u
		}()},
	},
	"C05": {
		Level: "exploration",
		Rule: "engine c05-seq: rapid-generated histories of open(subject, authority, time range, ErrIfControlled/ErrOnUnauthorizedOpen) / set-authority / release (incl. double release) over 5 subjects and authority levels with ties, on exclusive and shared controllers, with the iteration order of the gate set permuted from the case's seed; after every step the returned transfer, every open gate's Authorize outcome and LeadingState are compared with the ordered-gate model. engine c05-conc: 2-3 goroutines issue such calls on one controller under the seeded scheduler and the recorded history (calls, outcomes, transfers) is checked with porcupine against the same sequential model. non-trivial = >=2 occurred transfers (seq) / >=10 scheduling decisions (conc); distinct = hash of op kinds+authorities (seq) / scheduler trace hash (conc)",
		Real:  []string{"cesium/internal/control (Controller, region, Gate) — real code, harness compiled into the package via -overlay", "x/go/control (Transfer, State, Authority), x/go/set"},
		Stub:  []string{"goroutine scheduler: verifsim/sim at instrumented lock points", "map iteration order: simrt.MapKeys permuted per case"},
		Assumptions: []string{
			"model: per region, controller = max authority, ties to the earliest successful open; a transfer is reported iff the controller or the controller's authority changes; shared mode authorises every gate whose authority is >= the controller's",
			"a gate bridging two existing regions, SetAuthority on a released gate and the error kind of a duplicate subject are outside the statement (skipped / accepted as implemented)",
			"c05-open (in the cesium-stream unit): sequential scripts of DB.OpenWriter over several channels of index groups and virtual channels (one authority or one per channel, with and without ErrOnUnauthorized), SetAuthority, Close and writes to virtual channels by several subjects; after every operation DB.ControlStates() must name the model's holder of every channel (unary: exclusive control, ties to the earlier opener; virtual: shared control), a refused open leaves no trace, a write is authorised exactly when the model says so",
			"the write-path part of the property (only authorised writes persisted and relayed, refused writes leave no trace) is decided through real cesium writers by the cesium-stream unit (C20's engine, run here as well): writers that lose control to an interloper mid-stream and regain it, virtual channels under shared control with authority changes, and a probe write right after the last authorised sample",
		},
		RequiredProbes: []string{"transfers_checked", "equal_authority_contenders", "double_release", "history_ops_checked", "yield_lock", "open_refused_unauthorized", "open_refused_after_a_virtual_channel_was_won", "open_with_per_channel_authorities", "write_not_in_control"},
		Units: []unit{{
			Name: "cesium-control", Module: "cesium", Package: "./internal/control", Passes: allPasses, Engines: []string{"c05-seq", "c05-conc"},
			QuickBudget: 20 * time.Second, QuickWorkers: 8, ThoroughBudget: 10 * time.Minute, ThoroughWorkers: 16,
		}, cesiumUnit("cesium-stream", "c20", "c05-open")},
	},
	"C20": {
		Level: "exploration",
		Rule: "cases: 1-2 index groups, 1-2 writers per group (two writers contend for control with drawn authorities; modes persist+stream / stream-only / persist-only), 1-3 streamers (drawn key sets and output buffer sizes, always-ready or sleeping consumers, optional concurrent re-subscribe / disconnect scripts), optional database close under the writers; writers, consumers, controllers run as goroutines under the seeded scheduler with the relay's slow-consumer timer on the virtual clock; evaluations counts schedules; non-trivial = >=40 scheduling decisions; distinct = scheduler trace hash",
		Real:  cesiumReal, Stub: cesiumStub,
		Assumptions: []string{
			"streamers are connected sequentially and the system is allowed to quiesce before the writers start, so 'subscribed for the whole interval' is well defined; completeness is asserted only for streamers with a stable subscription and an always-ready consumer, in runs without stall quanta and without a concurrent database close",
			"filter oracle: a received series' key must belong to a subscription requested no later than the receipt",
			"liveness: the run must finish (no deadlock/stall) and the virtual idle time must stay within (frames x streamers x 25ms) + consumer sleeps + 5s",
			"write-path clause of C05: the content persisted at the end equals exactly the writes reported authorized by persisting writers, and no unauthorized or persist-only write is relayed",
		},
		RequiredProbes: []string{"wide_frame_written", "auto_indexed_write", "unauthorized_data_only_write", "resubscribed", "streamers_with_overlapping_subscriptions", "frames_received", "completeness_checked", "unauthorized_write_observed", "resubscribe_or_disconnect_during_writes", "slow_consumer", "persisted_equals_authorized", "yield_chan"},
		Units: []unit{cesiumUnit("cesium-stream", "c20", "c20-seq")},
	},
	"C06": {
		Level: "exploration",
		Rule: "engine kvcore: event sequences over 2-4 simulated nodes and 1-4 keys: local set/delete at the key's leaseholder (real version assigner + persist), adversarially injected operations with explicit (version, leaseholder), and deliveries of arbitrary batches (reordered, duplicated, stale) of already created operations to a node's real ingress segment; afterwards every node is delivered every operation it has not seen (per-node random order). non-trivial = >=2 operations and at least one duplicate or stale delivery; distinct = hash of the event shape || engine cluster: 2-4 whole aspen nodes in one synctest bubble, every goroutine under the seeded scheduler; scripts of set/delete through any node, sleeps, partitions/heals and restarts with a per-case network profile (loss, lost replies, duplication of gossip kinds, delay); after the script faults stop and the nodes must agree within 20 s of virtual time on the latest acknowledged write per key; stored versions are polled after every event and must never regress. non-trivial = >=2 writes",
		Real:  []string{"aspen/internal/kv: filterPersist/supersedes, versionAssigner, persist, digests (operation.go, version.go), x/go/kv + pebble in-memory engine — real code, harness compiled into the package via -overlay", "engine cluster: aspen.Open/Close, cluster (pledge, gossip, store), the whole kv pipeline (plumber, confluence, signal, observe), start-up recovery, x/go/kv/memkv (in-memory pebble), aspen/transport/mock + freighter/go/mock — all real code with sync/atomic/channel/select/map-range points instrumented by the overlay"},
		Stub:  []string{"engine kvcore: plumber wiring, goroutines, transports and gossip timers of the kv pipeline are replaced by the simulator delivering TxRequests (message tier)", "engine cluster: the network is the repository's in-memory transport wrapped by the harness's fault-injecting clients (no sockets, no gRPC); the recovery stream is not wrapped; disks are in-memory pebble engines that survive a node restart (no disk faults)"},
		Assumptions: []string{
			"reference: per key the operation with the highest (version, leaseholder) wins; two distinct operations never share (key, version, leaseholder)",
			"after every delivery the stored (version, leaseholder) of every key must not decrease; after all nodes received the same set they must hold the winner's value/deletion and digest",
			"cluster: a client writes through a node only once that node knows the key (leases are not transferable); a write whose RPC failed may or may not have been applied; unary RPCs are never duplicated by the network",
			"cluster: stalls attributed to the recorded known findings are identified from the recorded message log (lagging node never offered the newest version and every holder had the documented RecoveryThreshold of feedback, or was restarted)",
		},
		RequiredProbes: []string{"local_write", "duplicate_delivery", "stale_delivery_rejected", "equal_version_different_leaseholder", "write_ok", "write_failed_under_faults"},
		Units: []unit{{
			Name: "aspen-kvcore", Module: "aspen", Package: "./internal/kv", Passes: []string{"detrange"}, Engines: []string{"kvcore"},
			QuickBudget: 15 * time.Second, QuickWorkers: 8, ThoroughBudget: 8 * time.Minute, ThoroughWorkers: 16,
		}, {
			Name: "aspen-cluster", Module: "aspen", Package: ".", Passes: allPasses, Engines: []string{"cluster"},
			QuickBudget: 25 * time.Second, QuickWorkers: 8, ThoroughBudget: 15 * time.Minute, ThoroughWorkers: 16,
		}},
	},
	"C07": {
		Level: "exploration",
		Rule:  "cases: a cluster of 1-3 nodes, 1-3 index groups (index channel + 0-2 int64/string data channels) placed on drawn leaseholders, optionally a free virtual channel; a sequential script of writers opened through a drawn gateway on a drawn subset of the groups (+ the free channel), each filling one 100-unit slot of the time axis (slots taken in drawn order, so domains are created before existing ones) with 1-3 frames, then Commit and Close; iterators opened through a drawn gateway on drawn channel subsets and bounds (one step over everything, or a fixed-span sweep), reads of every node's own engine, and opens on channels that do not exist. non-trivial = >=1 write on a cluster of >=2 nodes; distinct = hash of the case shape",
		Real:  []string{"core/pkg/distribution: Layer, channel service, framer writer/iterator services (gateway, peer, switches, synchronizers, broadcaster), proxy; core/pkg/distribution/mock + transport/mock in-memory networks; aspen (membership + kv gossip) over its in-memory transport; one in-memory cesium and pebble per node \u2014 all real code, map ranges made deterministic by the overlay"},
		Stub:  []string{"network: the repository's in-memory transports (no sockets)", "disks: in-memory file systems (no disk faults, no restarts)", "clock: testing/synctest bubble (virtual time for gossip and polling); goroutines of the cluster run freely (no seeded scheduler): scripts are sequential"},
		Assumptions: []string{"reference: per channel a timestamp->value map of the committed samples (what a single store given the same writes holds; C01 decides the single-store semantics)", "the boolean acknowledgement of iterator commands is not judged (the synchronizer forwards the last responder's acknowledgement, not the merged one; recorded as an observation): the frame is read after every step", "a gateway is used once it has learnt of every channel through metadata gossip (bounded wait in virtual time)"},
		RequiredProbes: []string{"write_local", "write_remote", "write_mixed", "write_with_free_channel", "write_before_existing_data", "read_remote", "read_mixed", "local_stores_checked", "open_on_missing_channel_refused", "open_on_missing_channel_among_existing_ones", "open_on_missing_channel_leased_elsewhere"},
		Units: []unit{{
			Name: "core-framer", Module: "core", Package: "./pkg/distribution/framer", Passes: []string{"detrange"}, Engines: []string{"c07"},
			QuickBudget: 30 * time.Second, QuickWorkers: 8, ThoroughBudget: 12 * time.Minute, ThoroughWorkers: 16,
		}},
	},
	"C08": {
		Level: "exploration",
		Rule:  "a case picks a mode (static / dynamic / http with writer, streamer or iterator flow), the merge option, a channel catalogue and one agreed sequence of key sets; the script mixes upd (one side applies the next agreed key set, key order reversed on the decoder), enc (puts a message in flight), dec (delivers the oldest) and raw/burst operations; each side may run up to 3 updates ahead. Frames cover all 15 data types, empty frames and series, subsets, shuffled and repeated keys, >128 entries, keys outside the set, equal/unequal lengths, zero/equal/distinct time ranges and alignments (all 36 legal flag bytes). Every delivery first presents corrupted copies of the message (every prefix, bit flips, overwritten length fields up to 0xFFFFFFFF, overwritten sequence number or flags, garbage with a plausible header, duplicates, splices, chunked stream reads), then the genuine message, which must still round-trip. non-trivial = >=1 compared frame with an in-set series or >=1 hostile decode",
		Real:  []string{"core-codec-conc: one codec.NewDynamic, Update (its hand-over part, without the channel-service look-up) and Encode as two tasks under the seeded goroutine scheduler in a synctest bubble, codec.go instrumented (atomics, channel operations, selects) \u2014 real code", "core/pkg/distribution/framer/codec (NewStatic, NewDynamic+Update against a real channel service on a mock distribution node, Encode/EncodeStream/Decode/DecodeStream), core/pkg/transport/http/framer.Codec with json.Codec over WSMessage[Writer|Streamer|Iterator Request/Response], x/go/binary, x/go/telem \u2014 real code"},
		Stub:  []string{"the websocket / freighter transport: messages are byte slices in FIFO queues between the encoder and decoder instances; corrupted JSON requests aimed at the server go to a scratch codec instance"},
		Assumptions: []string{"round trip: per channel the series in stable alignment order; without merging exact, with merging the normalised lists of maximal contiguous runs are equal; int64 and timestamp are interchangeable; keys outside the set are dropped", "a decoder that is behind must return an error, one that is ahead must decode correctly", "safety: no panic, heap allocation delta <= 1 MiB + 128 x len(input) (runtime/metrics), a frame returned for hostile bytes uses only keys and data types of the state its sequence number selects, whole samples, no more data than the input; length claims above 16 MiB are clamped so the worker survives"},
		RequiredProbes: []string{"concurrent_update_encode_case", "update_returned_during_an_encode", "encode_before_first_update_panicked", "decoder_ahead", "decoder_behind", "frame_beyond_mask", "frame_repeated_key", "frame_subset", "series_variable", "series_empty", "hostile_accepted", "hostile_error", "hostile_claim_beyond_bound", "http_compact_frame", "http_data_before_negotiation", "update_backlog_full"},
		Units: []unit{{
			Name: "core-codec", Module: "core", Package: "./pkg/distribution/framer/codec", Passes: []string{"detrange"}, Engines: []string{"c08"},
			QuickBudget: 25 * time.Second, QuickWorkers: 8, ThoroughBudget: 12 * time.Minute, ThoroughWorkers: 16,
		}, {
			Name: "core-codec-conc", Module: "core", Package: "./pkg/distribution/framer/codec", Passes: allPasses, Engines: []string{"c08-conc"},
			QuickBudget: 10 * time.Second, QuickWorkers: 4, ThoroughBudget: 3 * time.Minute, ThoroughWorkers: 16,
		}},
	},
	"C14": {
		Level: "exploration",
		Rule:  "a case has a transport (in-memory mock, WebSocket, gRPC), its configuration (mock: channel capacities 0-11 per direction, stream pair or network; ws: json/msgpack codec, write deadline; net transports: seeded yields on every Read/Write of the in-memory connection), a client script of send(size)/recv/close/drain/pause with optional calls after the end, and a handler script of recv/send(size)/pause followed by return of one of 15 error kinds (nil, EOF, ErrStreamClosed, custom, query.*, control.Unauthorized, validation with and without path, a registered kind whose message contains the separator, unregistered errors); payloads 0 B - 1 MiB incl. 4095/4096/4097 and 65535/65536; a bounded-buffer planner edits the client script so the two scripts cannot deadlock by their own making. Both scripts run as tasks under the seeded scheduler in a synctest bubble. Engines: c14 draws the transport per case; c14-mock/c14-ws/c14-grpc pin one. non-trivial = >=2 messages delivered and the client observed the end of the stream",
		Real:  []string{"freighter/go/mock (whole), freighter/go/http (real fiber/fasthttp server and websocket client over fasthttputil.InmemoryListener), freighter/go/grpc (real grpc-go server and client with the repository's TestStreamService over bufconn), x/go/errors registry with the real providers \u2014 freighter packages instrumented by the overlay (locks, atomics, channels, selects, timers are yield points)"},
		Stub:  []string{"only the byte pipe: in-memory listeners replace TCP (the ws client's private dialer is pointed at the listener with reflect/unsafe); grpc-go, fasthttp and the websocket library are not instrumented, their goroutines run freely between scheduler decisions; nothing runs over real sockets; no transport faults, no context cancellation, no ServerStream calls after the handler returned"},
		Assumptions: []string{"delivery: what a side receives is a prefix of the other side's successful sends, in order, same bytes", "client Receive may only fail after the handler returned, must then match the handler's result (errors.Is for registered kinds, errors.As + path for PathError, message containment for unregistered), every response sent before the return must already have been received, later receives fail the same way", "handler Receive may only fail with EOF, after CloseSend started and after every sent request was received; client Send follows the doc comments of stream.go; CloseSend may fail only after the handler returned"},
		RequiredProbes: []string{"mock.end_nil", "mock.end_registered_error", "ws.end_nil", "ws.end_registered_error", "grpc.end_nil", "grpc.end_registered_error", "mock.handler_eof_after_requests", "ws.handler_eof_after_requests", "grpc.handler_eof_after_requests", "mock.client_received_data_after_closesend", "ws.payload_64k_or_more", "grpc.payload_64k_or_more", "mock.client_receive_after_end", "grpc.client_receive_after_end"},
		Units: []unit{{
			Name: "freighter-stream", Module: "freighter/go", Package: "./test", Passes: allPasses, Engines: []string{"c14", "c14-mock", "c14-ws", "c14-grpc"}, ExtraRoots: []string{"./mock", "./http", "./grpc"},
			QuickBudget: 25 * time.Second, QuickWorkers: 8, ThoroughBudget: 12 * time.Minute, ThoroughWorkers: 16,
		}},
	},
	"C15": {
		Level: "exploration",
		Rule:  "a case is a seed (math/rand, uuid), a cluster of 1-3 nodes, name validation on or off, and 2-9 requests, each through a drawn gateway node: batched creates of 1-4 channels (index, fixed, variable-length, virtual, virtual index, free, free index, calculated; leaseholder unset, explicit or a node that does not exist; data channels refer to an index on the same node, on another node, to a key nothing has or to none; no option, RetrieveIfNameExists or OverwriteIfNameExistsAndDifferentProperties), renames (Rename, RenameMany, single-entry MapRename), deletes (Delete, DeleteMany, DeleteByName, DeleteManyByNames) and restarts of one node's distribution layer and engine over the same storage. Names come from an 11-entry pool with collisions, invalid names and '_time' suffixes; targets are drawn from everything ever created (live, deleted, never created, internal). After every request and propagation in virtual time the model's live channels are compared with cluster metadata on every node and with every node's engine (directory listing + RetrieveChannel); keys are checked for uniqueness, embedded leaseholder and reuse; names for validity and uniqueness (validation on); deleted channels for being refused by retrieve, Framer.OpenWriter/OpenIterator and the engine's RetrieveChannel/OpenWriter/OpenIterator. non-trivial = >=1 channel deleted and more than the internal channels live",
		Real:  []string{"a whole Synnax distribution layer per node, wired as core/pkg/distribution/mock wires it: aspen (cluster membership, kv gossip), channel service, framer (writer, iterator, relay, deleter), ontology, group, one pebble and one cesium per node on in-memory file systems — real code", "the cluster's goroutines run freely inside a testing/synctest bubble (virtual time, quiescence); case outcomes are a function of the request script (op tier), the harness waits for propagation instead of choosing interleavings"},
		Stub:  []string{"transports: the repository's own in-memory mocks (aspen/transport/mock, distribution/transport/mock)", "math/rand and google/uuid seeded from the case", "no seeded goroutine scheduler and no message faults in this engine: requests are sequential; concurrency of channel requests is not explored"},
		Assumptions: []string{"model: the set of live channels (key, leaseholder, name, data type, index, is_index, virtual) predicted from the requests, seeded with each node's internal channels; calculated channels are free and virtual and bring a '<name>_time' free index", "a FAILED request may leave behind any part of what it asked for (the statement does not make requests atomic) and nothing else; what it left is adopted and the two stores must still agree with each other", "with the two options, names within a batch are distinct, and MapRename gets one entry (otherwise outcomes depend on Go map order inside the service)", "when gossip of a write dies out (recorded C06 finding) the harness restarts the rumour with a change-nothing write at the authority, so the comparison is not blamed on C06"},
		RequiredProbes: []string{"created_index_local", "created_index_remote", "created_data_local", "created_data_remote", "created_virtual_local", "created_virtual_remote", "created_free_free-at-bootstrapper", "created_free_free-via-peer", "created_calculated_free-via-peer", "renamed_index_remote", "renamed_virtual_local", "renamed_free_free-via-peer", "deleted_index_remote", "deleted_virtual_local", "deleted_data_remote", "deleted_free_free-via-peer", "deleted_calculated_free-at-bootstrapper", "create_batch_failed", "delete_batch_failed", "rename_batch_failed", "failed_request_partly_applied", "create_returned_existing_channel", "overwrite_replaced_a_channel", "calculated_auto_index_created", "retrieve_if_name_exists_met_a_name_several_channels_have", "request_in_transaction", "request_without_transaction", "restart_services", "deleted_channel_refused_everywhere", "concurrent_reservations_case", "restart_between_rounds"},
		Units: []unit{{
			Name: "core-channel", Module: "core", Package: "./pkg/distribution/channel", Passes: []string{"detrange"}, Engines: []string{"c15"},
			QuickBudget: 30 * time.Second, QuickWorkers: 8, ThoroughBudget: 12 * time.Minute, ThoroughWorkers: 16,
		}, {
			Name: "core-channel-counter", Module: "core", Package: "./pkg/distribution/channel", Passes: allPasses, Engines: []string{"c15-counter"},
			QuickBudget: 8 * time.Second, QuickWorkers: 4, ThoroughBudget: 2 * time.Minute, ThoroughWorkers: 16,
		}},
	},
	"C16": {
		Level: "exploration",
		Rule:  "a case is a pool of 3-7 identifiers (70% drawn from identifiers that are string prefixes/suffixes of one another: channel:1, channel:10, channel:11, channel:01, channel:1:0, chan:1, xchannel:1, ...) plus a history of up to ~40 operations: Define/DefineMany/Delete/DeleteMany resource, DefineRelationship, DefineFromOneToManyRelationships, DeleteRelationship, DeleteOutgoing/IncomingRelationshipsOfType over three relationship types, open/commit/abort of transactions (one writer at a time in 75% of cases, overlapping writers otherwise), traversal queries (parents via index and via scan, children via key prefix, a forward traverser of another type; 0-4 hops; inside and outside a transaction; ExcludeFieldData, Limit/Offset, WhereTypes), a white-box descendant walk, HasResource/HasRelationship, close+reopen of the ontology. After every write the raw relationship and resource tables are compared with the model in the writing transaction's view and in the committed view, and traversals are swept for the touched identifiers. non-trivial = >=2 relationships committed, >=1 effective delete, >=1 non-empty traversal",
		Real:  []string{"core/pkg/distribution/ontology (Open/Close, dagWriter, Retrieve and traversers, relationship indexes with per-transaction deltas), x/go/gorp, x/go/kv/memkv, x/go/observe \u2014 real code, in-package harness"},
		Stub:  []string{"in-memory services, one per resource type (RetrieveResource always succeeds); no goroutine scheduler (the only goroutine is gorp's index populate at open, which Close waits for)"},
		Assumptions: []string{"model: a resource set and an edge set with per-transaction overlays merged over the live committed state; a define returns nil if every edge exists, otherwise an error iff an endpoint is missing, from == to, or from is reachable from to over edges of any type; the one-to-many form is all-or-nothing", "traversals are compared as sets against a plain graph search over surviving resources; a traversal starting at a missing resource may return not-found; with Limit the result must be a subset no larger than the limit", "an open transaction whose merged view became cyclic or dangling because another writer committed underneath is frozen (only its commit or abort still runs)"},
		RequiredProbes: []string{"tx_committed_with_writes", "tx_aborted_with_writes", "tx_several_open", "reopen", "defrel_ok", "defrels_ok", "defrel_noop_existing", "defrel_refused_cycle", "defrel_refused_missing_endpoint", "delres_with_incoming_and_outgoing", "delres_next_to_aliased_identifier_edges", "query_parents_index", "query_parents_scan", "query_children", "query_multi_hop_nonempty", "query_in_tx_differs_from_committed", "shape_diamond", "pool_with_prefix_aliased_identifiers"},
		Units: []unit{{
			Name: "core-ontology", Module: "core", Package: "./pkg/distribution/ontology", Passes: []string{"detrange"}, Engines: []string{"c16"},
			QuickBudget: 25 * time.Second, QuickWorkers: 8, ThoroughBudget: 12 * time.Minute, ThoroughWorkers: 16,
		}},
	},
	"C17": {
		Level: "exploration",
		Rule:  "engine c17: histories over 6 row ids with colliding indexed values: create/update/delete through the table's builders on the DB or inside up to three interleaved transactions that commit or abort in any order, foreign writes that reach the indexes only through the change observer, table close+reopen over existing rows (bulk populate), queries from drawn filter trees (lookup-index and sorted-index equality leaves, key sets, predicates, And/Or/Not) as Exec/Count/Exists answered three ways (reference model with per-transaction overlays, index-backed query, scan-only query), direct index Get with and without a transaction, ordered cursor pages; at the end the indexes' committed state must equal the live rows. engine c17-conc: 2-3 tasks run transaction scripts concurrently under the seeded scheduler (rows shared, or disjoint rows sharing index buckets); afterwards the committed index state must equal the table. non-trivial = >=4 operations; distinct = case shape (+ scheduler trace hash)",
		Real:  []string{"x/go/gorp (Table, LookupIndex, SortedIndex, delta overlay, filters, Retrieve/Create/Update/Delete, observer pipeline, populate), x/go/kv + in-memory pebble, x/go/observe \u2014 real code; c17-conc with sync/atomic/channel/select/timer points instrumented by the overlay"},
		Stub:  []string{"disk: in-memory pebble", "goroutine scheduler: verifsim/sim (c17-conc); c17 runs each case in a bubble so populate/observer goroutines end with the case"},
		Assumptions: []string{"transactions are pebble indexed batches: a transaction reads its own writes over the CURRENT committed state (read committed), last committer wins", "ordered iteration reads committed state (documented); a page is judged by the indexed values in walk order, and by its rows when unbounded", "bare key-set filters and key sets with repeated keys are outside the statement (no index involved)"},
		RequiredProbes: []string{"query_three_way", "query_inside_tx_with_staged_writes", "interleaved_open_transactions", "tx_aborted_with_staged_writes", "foreign_write_through_observer", "table_reopened_over_existing_rows", "indexed_value_changed", "ordered_page", "concurrent_transactions_case", "concurrent_disjoint_rows_shared_buckets"},
		Units: []unit{{
			Name: "x-gorp", Module: "x/go", Package: "./gorp", Passes: allPasses, Engines: []string{"c17", "c17-conc"},
			QuickBudget: 25 * time.Second, QuickWorkers: 8, ThoroughBudget: 12 * time.Minute, ThoroughWorkers: 16,
		}},
	},
	"C18": {
		Level: "exploration",
		Rule:  "a case is a history of up to ~45 operations over 3 roles, 4 policies (role i and policy i share a UUID), 6 subjects (u1, u10, u2, u defined; u3 definable later; zz never defined), 4 object types incl. channel and chan with keys '' (type-level), 1, 10, 2, and 4 valid actions plus a bogus one: begin/commit/abort of a transaction, create/delete role and policy (creating an existing policy overwrites it), attach policies to a role, assign/unassign role, define a subject, reopen all services, drawn access requests. After every operation, in every view (inside the transaction via NewEnforcer(tx); outside via Service.Enforce and NewEnforcer(nil)), every subject gets a model-derived battery: the largest fully covered request (must be permitted), that request with a near-miss uncovered object inserted, the lone uncovered object, every object only an unreachable policy would grant, the empty request, RetrievePoliciesForSubject vs. the model's policy set, and the last 6 drawn requests. non-trivial = >=1 non-empty permit and >=1 deny",
		Real:  []string{"core/pkg/service/access/rbac (Service.Enforce, NewEnforcer, RetrievePoliciesForSubject, OpenService incl. builtin provisioning and migration), role and policy writers/retrievers, ontology, group, user, auth and search services, gorp tables with per-transaction index overlays, memkv \u2014 real code"},
		Stub:  []string{"nothing in the path under test; the user service is opened without root credentials, subjects are bare ontology resources as in the repository's own specs; uuid.SetRand seeded per case"},
		Assumptions: []string{"model: plain sets subject->roles, role->policies, policy->(actions, objects); a request is permitted exactly when every requested object is covered, by type or by exact identity, by a policy that grants the action and is attached to a role currently assigned to the subject; any non-nil error counts as not permitted", "an empty request from an unknown subject is not judged (the statement both permits it vacuously and denies unknown subjects)", "a deleted role or policy loses its assignments and attachments; a failed operation changes nothing"},
		RequiredProbes: []string{"permit", "permit_by_type", "permit_by_exact_identity_only", "permit_objects_covered_by_different_policies", "deny_mixed_covered_and_uncovered", "deny_same_type_other_instance", "deny_action_not_granted", "deny_subject_without_policies", "deny_unknown_subject", "commit_with_changes", "abort_with_changes", "tx_view_differs_from_committed_view", "deleted_role_was_assigned", "role_recreated_after_delete", "policy_recreated_after_delete", "reopen"},
		Units: []unit{{
			Name: "core-rbac", Module: "core", Package: "./pkg/service/access/rbac", Passes: []string{"detrange"}, Engines: []string{"c18"},
			QuickBudget: 25 * time.Second, QuickWorkers: 8, ThoroughBudget: 12 * time.Minute, ThoroughWorkers: 16,
		}},
	},
	"C11": {
		Level: "exploration",
		Rule: "cases: 1-4 initial members whose views (Config.Candidates) are complete or random subsets, 1-4 pledges started at drawn virtual times through drawn peer lists, a gossip task that lets admitted members become known to the others one by one at drawn times (or never), whether the member a pledge joined through learns of it at once, and a network profile (request loss, delay up to and beyond the request timeout, delivery after the caller gave up) that stops at a drawn time; everything runs under the seeded scheduler (random / sticky / PCT) on the virtual clock. non-trivial = >=2 pledges; distinct = case shape + scheduler trace hash",
		Real:  []string{"aspen/internal/cluster/pledge (Pledge, Arbitrate, responsible.propose/buildQuorum/consultQuorum, juror.verdict), aspen/internal/node (Group), x/go/rand, x/go/time (scaled ticker), freighter/go/mock unary network — real code with sync/atomic/channel/select/map-range points instrumented by the overlay"},
		Stub:  []string{"membership views: each node's Config.Candidates is served by the harness (in production: the cluster store fed by gossip); a new node's first view is the view of the member it joined through", "network: in-memory transport wrapped by a fault-injecting client", "goroutine scheduler and clock: verifsim/sim + synctest"},
		Assumptions: []string{
			"views only grow; a view always contains the node itself",
			"quorum oracle: the approvals counted for an admission are the error-free replies to the coordinator's proposal of exactly that key, from members of the coordinator's view; the required count is the majority of the smallest view the coordinator ever had",
			"liveness bound: every pledge is admitted within the fault window plus 8 s of virtual time",
		},
		RequiredProbes: []string{"pledges_admitted", "concurrent_admissions", "stale_view_at_end", "proposal_retried_with_higher_key", "yield_lock"},
		Units: []unit{{
			Name: "aspen-pledge", Module: "aspen", Package: "./internal/cluster/pledge", Passes: allPasses, Engines: []string{"c11"},
			QuickBudget: 25 * time.Second, QuickWorkers: 8, ThoroughBudget: 12 * time.Minute, ThoroughWorkers: 16,
		}, {
			Name: "aspen-cluster", Module: "aspen", Package: ".", Passes: allPasses, Engines: []string{"cluster"},
			QuickBudget: 20 * time.Second, QuickWorkers: 8, ThoroughBudget: 8 * time.Minute, ThoroughWorkers: 16,
		}},
	},
	"C12": {
		Level: "exploration",
		Rule: "engine c12-seq: 2-4 nodes (plus optionally a member that is not a running node, with a zero or non-zero heartbeat, known to one node) with initial views that are complete, disjoint, a chain or random; seeded sequences of exchange(i,j) [GossipOnceWith], tick(i), host state change(i), GossipOnce(i) with the production peer choice, exchange with the ack2 message lost, restart(i) from the persisted copy (generation bump); after every operation every node's view is compared with the newest records it held before; finally every unordered pair exchanges once in seeded order and direction and all views must be identical and complete. engine c12-conc: the same operations issued by one task per node under the seeded scheduler (random / sticky / PCT), monotonicity sampled after every task step, then the same final phase. non-trivial = >=2 operations (seq) / >=3 (conc); distinct = hash of the case shape (+ scheduler trace hash)",
		Real:  []string{"aspen/internal/cluster/gossip (sync/ack/ack2, GossipOnce, GossipOnceWith, incrementHostHeartbeat), aspen/internal/cluster/store (Merge, SetNode, observable store), aspen/internal/node, x/go/version (Heartbeat), x/go/store, freighter/go/mock unary network — real code, harness compiled into the package via -overlay"},
		Stub:  []string{"timers: exchanges and ticks are issued by the script instead of signal.GoTick", "restart: emulates cluster.Open on an existing store (load persisted state, Heartbeat.Restart on the host record); the persisted copy follows cluster.goFlushStore's rule (flushed when the member set or a non-heartbeat field changes)", "goroutine scheduler: verifsim/sim at instrumented lock/atomic/channel points (c12-conc)"},
		Assumptions: []string{
			"a member changes its own record only together with a heartbeat advance, so (member, heartbeat) identifies one record; a view may only hold records the member published",
			"a restart may forget what the node learnt about OTHER members since its last flush (its monotonicity baseline for them restarts); its own record must supersede via the generation bump",
			"the final phase performs exactly one exchange per unordered pair (the statement's premise), with no ticks in between",
		},
		RequiredProbes: []string{"exchange", "tick", "state_change", "disjoint_initial_views", "zero_heartbeat_member", "converged", "concurrent_case"},
		Units: []unit{{
			Name: "aspen-gossip", Module: "aspen", Package: "./internal/cluster/gossip", Passes: allPasses,
			QuickBudget: 20 * time.Second, QuickWorkers: 8, ThoroughBudget: 10 * time.Minute, ThoroughWorkers: 16,
		}},
	},
	"C13": {
		Level: "exploration",
		Rule: "same event sequences as C06's kvcore engine; the ingress segment's accepted output (the only thing forwarded to the persist splitter and from there to observers) is compared after every delivery with the list of deliveries that change the node's stored state, and every (key, version, leaseholder) may appear in it at most once per node || engine cluster: C06's whole-node scripts with an unfiltered and a host-leaseholder-filtered subscriber on every node (re-attached after restarts): no written value notified twice on a node, never an older write after a newer one of the same key, filtered stream a subsequence of the unfiltered one",
		Real:  []string{"aspen/internal/kv: filterPersist/supersedes and its accepted/rejected routing — real code", "engine cluster: the whole kv pipeline including persistSplitter, ObservableSubscriber, observe.Async and DB.OnChange/NewObservable on complete nodes — real code under the seeded scheduler"},
		Stub:  []string{"engine kvcore: observer fan-out (persistSplitter, ObservableSubscriber) is not run: the accepted output is observed directly at the segment boundary", "engine cluster: network = in-memory transport wrapped by fault-injecting clients; disks = in-memory pebble"},
		Assumptions: []string{
			"an observer that keeps up is notified of exactly what the ingress segment accepts (kv.go routes only the accepted output to the splitter)",
		},
		RequiredProbes: []string{"duplicate_delivery", "stale_delivery_rejected", "observers_checked"},
		Units: []unit{{
			Name: "aspen-kvcore", Module: "aspen", Package: "./internal/kv", Passes: []string{"detrange"}, Engines: []string{"kvcore"},
			QuickBudget: 15 * time.Second, QuickWorkers: 8, ThoroughBudget: 8 * time.Minute, ThoroughWorkers: 16,
		}, {
			Name: "aspen-cluster", Module: "aspen", Package: ".", Passes: allPasses, Engines: []string{"cluster"},
			QuickBudget: 25 * time.Second, QuickWorkers: 8, ThoroughBudget: 15 * time.Minute, ThoroughWorkers: 16,
		}},
	},
}
