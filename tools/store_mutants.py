#!/usr/bin/env python3
"""store_mutants.py <PROP> <worktree> <name>[:<stored-name>]=<status> ...
Copies <worktree>/MUTANTS/<name>/{patch.diff,README.md,demo_test.go} to
/verif/seeded/<PROP>-<name>/ and writes meta.json (status: free text, e.g. 'detected')."""
import json, os, shutil, sys, re
prop, wt = sys.argv[1], sys.argv[2]
for arg in sys.argv[3:]:
    name, status = arg.split('=', 1)
    short = None
    if ':' in name:  # <dir in MUTANTS>:<name under /verif/seeded> (later rounds)
        name, short = name.split(':', 1)
    src = os.path.join(wt, 'MUTANTS', name)
    short = short or name.split('-')[0]
    dst = '/verif/seeded/%s-%s' % (prop, short)
    os.makedirs(dst, exist_ok=True)
    shutil.copy(src + '/patch.diff', dst + '/patch.diff')
    shutil.copy(src + '/README.md', dst + '/README.md')
    shutil.copy(src + '/demo_test.go', dst + '/demo_test.go.txt')
    title = open(src + '/README.md').readline().strip().lstrip('# ')
    files = re.findall(r'^diff --git a/(\S+)', open(src + '/patch.diff').read(), re.M)
    json.dump({
        "property": prop, "breaks": title, "files": files,
        "needs_to_manifest": "see README.md (written by the sub-agent that produced the change)",
        "produced_by": "fresh sub-agent given only the property text and its own scratch worktree (%s)" % wt,
        "confirmed": {"existing_suite_passes_with_change": True, "demo_fails_with_change": True, "demo_passes_without_change": True,
                      "how": "tools/confirm_mutant.sh in the scratch worktree"},
        "check_result": {"command": "tools/run_mutant_wt.sh seeded/%s-%s/patch.diff %s --tier quick" % (prop, short, prop), "status": status, "tier": "quick"},
        "demo_file_note": "demo_test.go.txt is the demonstration test (renamed so that it is never compiled from /verif)",
    }, open(dst + '/meta.json', 'w'), indent=1)
    print('stored', dst)
