#!/bin/bash
# run_mutant.sh <patch.diff> <property> [check args...]
# Applies a seeded change to /repo, runs the property's check, and reverts it straight
# afterwards. Prints DETECTED / MISSED and keeps the replay under /tmp/mutant-replays.
set -u
patch=$1; prop=$2; shift 2
cd /repo || exit 2
if [ -n "$(git status --porcelain)" ]; then echo "/repo not clean"; exit 2; fi
git apply "$patch" || { echo "patch does not apply"; exit 2; }
out=$(/verif/bin/check "$prop" --no-evidence "$@" 2>&1); code=$?
git -C /repo checkout -- .
echo "$out" | grep -v "^KNOWN-FINDING" | tail -4 | cut -c1-400
mkdir -p /tmp/mutant-replays
rp=$(echo "$out" | grep -o 'replay=[^ ]*' | tail -1 | cut -d= -f2)
if [ "$code" = "1" ]; then echo "MUTANT DETECTED exit=1 replay=$rp"; [ -n "$rp" ] && mv "$rp" /tmp/mutant-replays/ 2>/dev/null; else echo "MUTANT MISSED exit=$code"; fi
