#!/usr/bin/env python3
"""Regenerates /verif/MANIFEST.json from the table below (kept next to the check driver's
property table in tools/check/props.go)."""
import json, sys

TECH = "deterministic simulation with fault injection"
claimed = {
 "C01": dict(engine="cesium-seq", cat="exploration", ref="DESIGN.md §5 C01",
   text="Seeded search over legal write scripts (schemas, data types incl. variable-length, file-size caps forcing rollover, out-of-order and abutting writers, data-only writers, commit points) and read ranges (db.Read and fixed-span iterator sweeps) against a timestamp->bytes reference model; real cesium on a simulated disk under virtual time, also after close+reopen. Sampling: a clean batch is evidence, not proof.",
   note="Trusted: the reference model (a sorted map), the script planner's legality rules (first sample stamped at WriterConfig.Start), simfs's POSIX semantics.",
   tech=TECH+": seeded op-tier scripts on simulated disk and clock, reference-model oracle after every step, rapid shrinking, replay files"),
 "C02": dict(engine="cesium-crash", cat="fault_enumeration", ref="DESIGN.md §5 C02",
   text="For each sampled script, every prefix of the recorded filesystem mutation log (and torn variants of the crashing write) is rebuilt into a disk image, the database is reopened on it and every channel is compared with the set of states the property allows at that crash point (between the last acknowledged-persistent operation and the last started one) plus provenance of every value. Exhaustive over crash points per script (sampled only beyond 500 points), sampled over scripts.",
   note="Process-crash model as the property states (completed FS calls survive; torn last write). Known findings (torn index.domain write, GC swap window, index shrink window) are attributed by crash-window signature and enumeration continues past them.",
   tech=TECH+": crash-point enumeration over the simulated disk's mutation log, torn writes, per-channel allowed-state oracle, replay files"),
 "C04": dict(engine="cesium-seq", cat="exploration", ref="DESIGN.md §5 C04",
   text="Seeded scripts of writes, time-range deletes with unaligned bounds (data-only, index-only, whole group), GC passes at drawn thresholds and reopen; every channel is read in full after every delete and before/after every GC pass and compared with the reference map minus deleted keys; refusal rule for index deletes checked both ways.",
   note="Trusted: reference model; GC invoked through the DB's own garbageCollect pass in-package. Runs that perform a delete with a bound inside a rolled-over domain (recorded known finding) are attributed to it.",
   tech=TECH+": seeded op-tier scripts on simulated disk and clock, reference-model oracle after every step, rapid shrinking"),
}
claimed["C10"] = dict(engine="cesium-seq", cat="exploration", ref="DESIGN.md §5 C10",
   text="Seeded command sequences (SeekFirst/SeekLast/SeekLE/SeekGE, Next/Prev with spans from 1ns to the maximum, auto-span steps with chunk sizes 1-7, SetBounds) on the per-channel iterator over layouts built by C01/C04 scripts (multi-domain, rollover, out-of-order, deletes, GC). After every judged step: returned samples == reference samples inside the REPORTED view, adjacent views in one direction, chunk bound, exactly-once and completeness of SeekFirst/SeekLast-started traversals.",
   note="Steps after a failed seek are not judged; seek targets are clamped into the bounds. Auto-span steps and fixed-span steps of walks that reversed direction are attributed to two recorded known findings (see known_findings.json); monotone fixed-span walks are judged strictly.",
   tech=TECH+": seeded op-tier command sequences against a reference model using the iterator's reported view, rapid shrinking, replay files")
claimed["C03"] = dict(engine="cesium-domain", cat="exploration", ref="DESIGN.md §5 C03",
   text="Seeded histories of open(start[, preset end]) / write / commit(end) / close / delete / reopen over several writers on one domain database, timestamps drawn on, next to and inside earlier ranges; after every operation the pointer list (read under the package's own lock) must be sorted, pairwise non-overlapping, non-empty and inside its files, and the enumerated domains with their bytes must equal an interval-set model that decides which opens/commits must fail with a validation error and which must succeed.",
   note="In-package harness on cesium/internal/domain (white-box via -overlay). File-size cap at the default (rollover layouts are C01's). Equal-to-previous-commit and empty commits are left open, as is the error kind for exceeding a preset end.",
   tech=TECH+": seeded op-tier histories on the simulated disk against an interval-set model with per-step invariants, rapid shrinking")
claimed["C09"] = dict(engine="cesium-conc", cat="exploration", ref="DESIGN.md §5 C09",
   text="Task sets (writers on their own index groups, readers, a time-range deleter on preloaded data, GC passes, channel create/write/delete) run as goroutines of one real database inside a synctest bubble; every instrumented lock, atomic, channel operation, simulated FS call and task step is a decision of the seeded scheduler (random / sticky / PCT, yield-class subsets, map-order permutation, stall quanta). Oracles: no deadlock/stall (quiescent, unfinished, no timer helps within the horizon), no panic, per-channel porcupine check that the final content (in memory and after close+reopen) equals some serial order of the successful operations, persisted pointer invariant. A second unit re-runs the task sets free-running under the race detector at GOMAXPROCS 1/4/16.",
   note="Deterministic tier pinned to GOMAXPROCS=1 (self-test: 30 processes x 398 cases, 0 divergences at GOMAXPROCS=1; goroutine ids are not creation-ordered with more Ps). The -race tier does not replay exactly. Concurrent reads are executed and their linearizability is reported as an informational probe only, because the statement constrains the content readable afterwards.",
   tech=TECH+": seeded goroutine-level scheduler over overlay-instrumented sync/atomic/channel/FS points, porcupine on recorded histories, deadlock detection by quiescence, race detector tier")
claimed["C05"] = dict(engine="cesium-control", cat="exploration", ref="DESIGN.md §5 C05",
   text="(a) seeded histories of open(subject, authority, time range, ErrIfControlled/ErrOnUnauthorizedOpen) / set-authority / release on exclusive and shared controllers with the gate set's iteration order permuted per case: after every step the returned transfer, every open gate's Authorize outcome and LeadingState equal the ordered-gate model; (c) the same calls from 2-3 goroutines under the seeded scheduler, recorded history checked with porcupine against the same sequential model; (b) the write path through real cesium writers (cesium-stream unit, C20's engine, run by this check as well): only writes reported authorized are persisted and relayed; writers that lose control to a higher-authority interloper mid-stream and regain it; writers with auto-commit off whose final commit must not extend beyond their last authorized sample; a probe write right after the last authorized sample must succeed; virtual channels (shared control) with opens, closes and authority changes mid-stream checked against the highest-authority model.",
   note="In-package harness on cesium/internal/control. SetAuthority on a released gate, a gate bridging two regions and the error kind of a duplicate subject are outside the statement. Known finding shared with C20: per-channel handoff lets a write reported unauthorized take effect on part of its channels.",
   tech=TECH+": seeded op-tier histories with map-order exploration against an ordered-gate model; goroutine-tier schedules with porcupine linearizability")
claimed["C20"] = dict(engine="cesium-stream", cat="exploration", ref="DESIGN.md §5 C20",
   text="Writers (contending pairs with drawn authorities; persist+stream / stream-only / persist-only), streamer consumers (always-ready or sleeping in virtual time) and streamer controllers (re-subscribe, disconnect), optionally a database close, run as goroutines of one real database under the seeded scheduler with the relay's slow-consumer timer on the virtual clock. Paced writers, writers on virtual channels whose control relation changes mid-run, higher-authority interlopers and writers with auto-commit off are part of the cases. Oracles over the recorded history: a write that began after a re-subscription was certainly in force is filtered by that subscription or a later one; per streamer and writer the received frames are a subsequence of the write log (no duplicate, no reorder, no mixing), every received key was subscribed no later than the receipt, nothing from unauthorized or persist-only writes is relayed, stable always-ready streamers receive every frame, the persisted content equals the writes reported authorized, no deadlock/stall and bounded virtual idle time.",
   note="Streamers are connected before the writers start and the relay is given virtual time to flush before they are disconnected. Completeness is asserted only without stall quanta and without a concurrent database close. After a database close streamers are abandoned, not waited for (disconnecting after the relay has shut down blocks for ever: observation recorded in DESIGN.md).",
   tech=TECH+": goroutine-tier schedules over instrumented channel/lock/atomic points with virtual-time slow-consumer timers; history oracles (subsequence, filter, completeness, bounded liveness)")
claimed["C06"] = dict(engine="aspen-kvcore", cat="exploration", ref="DESIGN.md §5 C06",
   text="(a) kvcore: the real ingress pipeline segments of aspen/internal/kv (filter+persist, persist splitter, recovery transform, gossip store) assembled in-package and fed seeded operation sets in every drawn order, duplication and batching, interleaved with local writes, on several replicas: replicas that received the same set hold identical values, digests and tombstones, no applied operation is replaced by an older one, the winner is the (version, leaseholder) maximum. (b) cluster: 2-4 complete aspen nodes (pledge, membership gossip, kv pipeline, start-up recovery) in one synctest bubble over the repository's in-memory transport, every goroutine under the seeded scheduler, a typed transport wrapper injecting loss, lost replies, duplication, delay and partitions per message kind, node restarts over surviving engines; oracles: stored versions never regress on any node; once faults stop all nodes agree within 20 s of virtual time and hold the latest acknowledged write of each key.",
   note="Writes go through a gateway only once it knows the key (non-transferable leases). Unary RPCs (lease forward, pledge) are lost or delayed but not duplicated. Three recorded known findings (rumor dies out at the feedback threshold; a restarted holder forgets infected operations) are attributed by a structural signature computed from the recorded message log; other stalls are violations. Deterministic at GOMAXPROCS=1 only.",
   tech=TECH+": whole nodes in a synctest bubble under a seeded goroutine scheduler, simulated network with per-kind faults and restarts, convergence/bounded-liveness oracles; in-package permutation/duplication engine for the ingress pipeline")
claimed["C13"] = dict(engine="aspen-kvcore", cat="exploration", ref="DESIGN.md §5 C13",
   text="Same two engines as C06 with observer oracles: (a) kvcore: the ingress segment's accepted output (the only thing routed to the persist splitter and on to observers) carries each (key, version, leaseholder) at most once per node under any redelivery/duplication order, never an operation that lost to a stored newer one, and every operation that changed the stored state; (b) cluster: on every node an unfiltered and a host-leaseholder-filtered subscriber record notifications while gossip, recovery, duplication, loss and restarts run: no write is notified twice, never an older write after a newer one of the same key, the filtered stream is a subsequence of the unfiltered one.",
   note="Cluster-level notifications are identified by their unique written value (the observable exposes no version). Completeness is asserted in the kvcore engine only (subscriber keeps up by construction).",
   tech=TECH+": seeded delivery orders/duplication into the real ingress pipeline plus whole-node simulation with network faults; per-subscriber history oracles")
claimed["C11"] = dict(engine="aspen-pledge", cat="exploration", ref="DESIGN.md §5 C11",
   text="The real pledge protocol (Pledge on the joining side; responsible.propose/buildQuorum/consultQuorum and juror.verdict on every member) over the in-memory unary network in a synctest bubble, every goroutine under the seeded scheduler (random / sticky / PCT) on the virtual clock: 1-4 settled initial members, 1-4 pledges started at drawn times through drawn peer lists, membership views served through Config.Candidates that go stale by construction (admitted members become known to the others one by one at drawn times, or never), and a network profile (request loss, delay up to and beyond the request timeout, delivery after the caller gave up) that stops at a drawn time. Oracles: no two admissions share a key and none reuses a member's key; the key handed out was approved by a majority of the coordinator's view; the response carries the cluster key; no deadlock.",
   note="Known finding: two coordinators whose views differ can assemble disjoint majorities and admit two nodes under one key (no faults needed); attributed only when the approving quorums share no juror AND the coordinators' views differ. The statement makes no progress claim: pledges that are not admitted within the budget (observed cause: all keys in the proposal window burned by earlier failed rounds) are counted, not reported. Initial members know each other (a view that lacks an older member while no juror remembers its key is not reachable).",
   tech=TECH+": concurrent pledges under a seeded goroutine scheduler with virtual-time timeouts, stale membership views and network faults; uniqueness/quorum oracles over the recorded requests")
claimed["C12"] = dict(engine="aspen-gossip", cat="exploration", ref="DESIGN.md §5 C12",
   text="The real sync/ack/ack2 membership gossip over the real cluster store of 2-4 nodes (optionally plus a member that is not a running node, with a zero or non-zero heartbeat) wired through the in-memory unary network. (a) c12-seq: seeded sequences of exchange(i,j), tick(i), host state change(i), GossipOnce(i) with the production peer choice, exchanges that lose ack2, and restart(i) from the persisted copy with a generation bump, from complete, disjoint, chain or random initial views; after every operation: no heartbeat of any member regresses in any view, no record changes without a heartbeat advance, every held record is one the member published, bystanders unchanged, no member forgotten; finally every unordered pair exchanges once (seeded order and direction) and all views must be identical and complete. (b) c12-conc: the same operations issued by one task per node under the seeded scheduler (handlers run in the initiator's goroutine), monotonicity sampled after every task step, then the same final phase.",
   note="In-package harness on aspen/internal/cluster/gossip. A restarted node may forget what it learnt about other members since its last flush (baseline reset); its own record must supersede through the generation. Two genuine defects found and repaired (zero-heartbeat member not returned in ack2; unsynchronised copy-modify-set in the cluster store).",
   tech=TECH+": seeded op-tier exchange sequences against per-view monotonicity/provenance invariants and a one-exchange-per-pair convergence check; goroutine-tier schedules of concurrent exchanges")
not_applicable = {
 "C19": "Pure function of (source, arguments): the Arc compiler/analyzer/wazero call path has no goroutines, timers, I/O, transport or storage for a scheduler, clock or fault injector to act on; generating programs would be input generation in simulator costume (DESIGN.md §1).",
}
pending = "check not yet built in this session (under construction; not claimed)"
allids = ["C%02d" % i for i in range(1, 21)]
checks = []
for pid in allids:
    if pid not in claimed: continue
    c = claimed[pid]
    checks.append({
      "property_id": pid,
      "quick_cmd": "/verif/bin/check %s --tier quick" % pid,
      "thorough_cmd": "/verif/bin/check %s --tier thorough" % pid,
      "evidence_file": "/verif/evidence/%s.json" % pid,
      "replay_cmd_template": "/verif/bin/check %s --replay {path}" % pid,
      "engine": c["engine"],
      "level_claimed": {"category": c["cat"], "text": c["text"], "design_ref": c["ref"]},
      "level_note": c["note"],
      "technique": c["tech"],
    })
na = []
for pid in allids:
    if pid in claimed: continue
    na.append({"property_id": pid, "reason": not_applicable.get(pid, pending)})
m = {
 "version": 1,
 "setup_cmd": "cd /verif/tools && GOFLAGS=-mod=mod GOPROXY=off GOSUMDB=off GOTOOLCHAIN=local PATH=/opt/veriftools/go1.26.8/bin:$PATH go build -o /verif/bin/ ./overlaygen ./check",
 "hooks": {
  "guard": "verifoverlay (no source commits: harness files and instrumented copies of repository sources are injected at build time with go test -overlay; /repo is never edited by a check)",
  "enable": "/verif/bin/check regenerates the overlay from /repo's working tree (tools/overlaygen) and builds with `go test -c -overlay <scratch>/overlay.json -modfile <scratch>/go.mod` using go1.26.8",
  "baseline_off_cmd": "for m in alamos/go arc/go aspen cesium core freighter/go freighter/integration oracle x/go; do (cd /repo/$m && go test -mod=mod -vet=off -count=1 -timeout 25m ./...); done",
  "source_commits": [],
  "add_only": True,
 },
 "engines": [
  {"name": "cesium-seq", "path": "/verif/harness/cesium", "serves_properties": ["C01", "C04", "C10"], "kind_free_text": "op-tier deterministic simulation of real cesium on simfs + virtual clock"},
  {"name": "cesium-domain", "path": "/verif/harness/cesium/internal/domain", "serves_properties": ["C03"], "kind_free_text": "in-package op-tier simulation of cesium/internal/domain on simfs"},
  {"name": "cesium-conc", "path": "/verif/harness/cesium/zz_verif_c09_test.go", "serves_properties": ["C09"], "kind_free_text": "goroutine-tier deterministic simulation (seeded scheduler) + race-detector unit"},
  {"name": "cesium-control", "path": "/verif/harness/cesium/internal/control", "serves_properties": ["C05"], "kind_free_text": "in-package op-tier + goroutine-tier simulation of the control package"},
  {"name": "cesium-stream", "path": "/verif/harness/cesium/zz_verif_c20_test.go", "serves_properties": ["C20", "C05"], "kind_free_text": "goroutine-tier simulation of writers, relay and streamers"},
  {"name": "aspen-kvcore", "path": "/verif/harness/aspen/internal/kv", "serves_properties": ["C06", "C13"], "kind_free_text": "in-package seeded delivery orders into the real kv ingress pipeline"},
  {"name": "aspen-cluster", "path": "/verif/harness/aspen/zz_verif_cluster_test.go", "serves_properties": ["C06", "C13"], "kind_free_text": "whole aspen nodes under the seeded scheduler over the in-memory transport with fault-injecting wrapper"},
  {"name": "aspen-pledge", "path": "/verif/harness/aspen/internal/cluster/pledge", "serves_properties": ["C11"], "kind_free_text": "goroutine-tier simulation of concurrent pledges with stale views and network faults"},
  {"name": "aspen-gossip", "path": "/verif/harness/aspen/internal/cluster/gossip", "serves_properties": ["C12"], "kind_free_text": "in-package op-tier + goroutine-tier simulation of membership gossip over the real cluster store"},
  {"name": "cesium-crash", "path": "/verif/harness/cesium/zz_verif_c02_test.go", "serves_properties": ["C02"], "kind_free_text": "crash-point enumeration over the simulated disk's mutation log"},
 ],
 "checks": checks,
 "not_applicable": na,
 "notes": "Genuine defects found so far are listed in /verif/known_findings.json (status known: attributed by structural signature, KNOWN-FINDING line, exit 0; status fixed: repaired by a 'fix:' commit in /repo, suppresses nothing).",
}
json.dump(m, open("/verif/MANIFEST.json", "w"), indent=1)
print("wrote MANIFEST.json with", len(checks), "checks")
