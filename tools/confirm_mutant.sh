#!/bin/bash
# confirm_mutant.sh <worktree> <mutant-dir> <module-subdir> <demo-pkg-subdir> [extra go test flags]
# Confirms a seeded change in a scratch worktree: (1) patch applies, (2) the module's
# existing tests pass with it, (3) the demonstration fails with it and (4) passes without.
set -u
wt=$1; m=$2; mod=$3; pkg=$4; shift 4; flags="$*"
cd "$wt" || exit 2
git checkout -q -- . ; git clean -fdq -e MUTANTS >/dev/null 2>&1
git apply "$m/patch.diff" || { echo "RESULT patch-does-not-apply"; exit 1; }
( cd "$wt/$mod" && go test -mod=mod -vet=off -count=1 ./... > /tmp/confirm_suite.log 2>&1 ); suite=$?
cp "$m/demo_test.go" "$wt/$mod/$pkg/zz_demo_test.go"
name=$(grep -o 'func Test[A-Za-z0-9_]*' "$m/demo_test.go" | head -1 | sed 's/func //')
( cd "$wt/$mod/$pkg" && timeout 600 go test -mod=mod -vet=off -count=1 $flags -run "^$name\$" . > /tmp/confirm_demo_mut.log 2>&1 ); dm=$?
git checkout -q -- .
( cd "$wt/$mod/$pkg" && timeout 600 go test -mod=mod -vet=off -count=1 $flags -run "^$name\$" . > /tmp/confirm_demo_base.log 2>&1 ); db=$?
rm -f "$wt/$mod/$pkg/zz_demo_test.go"
echo "RESULT suite_exit=$suite demo_with_mutant_exit=$dm demo_on_base_exit=$db test=$name"
