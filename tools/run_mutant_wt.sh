#!/bin/bash
# run_mutant_wt.sh <patch.diff> <property> [check args...]
# Like run_mutant.sh, but never touches /repo: the seeded change is applied to a scratch
# git worktree of /repo's HEAD and the check is pointed at it with VERIF_REPO. Usable
# while other checks are running on /repo.
set -u
patch=$(readlink -f "$1"); prop=$2; shift 2
wt=$(mktemp -d /tmp/wt-mut-XXXXXX); rmdir "$wt"
git -C /repo worktree add -q --detach "$wt" HEAD || exit 2
trap 'git -C /repo worktree remove --force "$wt" >/dev/null 2>&1; git -C /repo worktree prune' EXIT
( cd "$wt" && git apply "$patch" ) || { echo "patch does not apply"; exit 2; }
out=$(VERIF_REPO="$wt" /verif/bin/check "$prop" --no-evidence "$@" 2>&1); code=$?
echo "$out" | grep -v "^KNOWN-FINDING" | tail -4 | cut -c1-400
mkdir -p /tmp/mutant-replays
rp=$(echo "$out" | grep -o 'replay=[^ ]*' | tail -1 | cut -d= -f2)
if [ "$code" = "1" ]; then echo "MUTANT DETECTED exit=1 replay=$rp"; [ -n "$rp" ] && mv "$rp" /tmp/mutant-replays/ 2>/dev/null; else echo "MUTANT MISSED exit=$code"; fi
