// overlaygen regenerates, from /repo's current working tree, instrumented copies of the
// repository's Go sources for `go test -overlay`. It never writes to /repo.
//
// Passes (each mechanical, semantics-preserving when no simulator is installed):
//
//	simsync    import "sync"        -> sync "verifsim/simsync"
//	simatomic  import "sync/atomic" -> atomic "verifsim/simatomic"
//	detrange   for k, v := range <map> -> iteration over simrt.MapKeys (sorted, optionally
//	           permuted from the run's choice source)
//	chanyield  simrt.Yield(...) before statements performing channel operations
//
// Usage: overlaygen -dir MODULEDIR -modfile F -out DIR -passes a,b,c -roots pkg,pkg [-prefix github.com/synnaxlabs/]
// Prints {"Replace":{orig:copy,...}} plus counters on stdout as JSON.
package main

import (
	"bytes"
	"encoding/json"
	"flag"
	"fmt"
	"go/ast"
	"go/format"
	"go/token"
	"go/types"
	"os"
	"os/exec"
	"path/filepath"
	"sort"
	"strconv"
	"strings"

	"golang.org/x/tools/go/ast/astutil"
	"golang.org/x/tools/go/packages"
)

type result struct {
	Replace  map[string]string `json:"Replace"`
	Counters map[string]int    `json:"counters"`
	Packages []string          `json:"packages"`
}

func die(code int, format string, args ...any) {
	fmt.Fprintf(os.Stderr, "overlaygen: "+format+"\n", args...)
	os.Exit(code)
}

func main() {
	dir := flag.String("dir", ".", "module directory")
	modfile := flag.String("modfile", "", "alternate go.mod")
	out := flag.String("out", "", "output directory for rewritten files")
	passes := flag.String("passes", "simsync,detrange", "comma separated passes")
	roots := flag.String("roots", "./...", "comma separated root package patterns whose dependency closure is instrumented")
	prefix := flag.String("prefix", "github.com/synnaxlabs/", "only packages with this import path prefix are instrumented")
	repo := flag.String("repo", "/repo", "only files under this directory are instrumented")
	exclude := flag.String("exclude", "", "comma separated import path prefixes to leave alone")
	flag.Parse()
	if *out == "" {
		die(2, "-out required")
	}
	if err := os.MkdirAll(*out, 0o755); err != nil {
		die(2, "%v", err)
	}
	pass := map[string]bool{}
	for _, p := range strings.Split(*passes, ",") {
		if p != "" {
			pass[p] = true
		}
	}
	var bflags []string
	if *modfile != "" {
		bflags = append(bflags, "-modfile="+*modfile)
	}
	// 1. dependency closure of the roots, restricted to the prefix
	args := append([]string{"list", "-deps", "-f", "{{.ImportPath}}"}, bflags...)
	args = append(args, strings.Split(*roots, ",")...)
	cmd := exec.Command("go", args...)
	cmd.Dir = *dir
	cmd.Stderr = os.Stderr
	b, err := cmd.Output()
	if err != nil {
		die(2, "go list failed: %v", err)
	}
	var excl []string
	for _, e := range strings.Split(*exclude, ",") {
		if e != "" {
			excl = append(excl, e)
		}
	}
	var pkgsToLoad []string
	for _, l := range strings.Split(string(b), "\n") {
		l = strings.TrimSpace(l)
		if l == "" || !strings.HasPrefix(l, *prefix) {
			continue
		}
		skip := false
		for _, e := range excl {
			if strings.HasPrefix(l, e) {
				skip = true
			}
		}
		if !skip {
			pkgsToLoad = append(pkgsToLoad, l)
		}
	}
	sort.Strings(pkgsToLoad)
	needTypes := pass["detrange"] || pass["chanyield"] || pass["detselect"] || pass["dettimer"]
	mode := packages.NeedName | packages.NeedFiles | packages.NeedCompiledGoFiles | packages.NeedSyntax
	if needTypes {
		mode |= packages.NeedTypes | packages.NeedTypesInfo | packages.NeedImports
	}
	cfg := &packages.Config{Mode: mode, Dir: *dir, BuildFlags: bflags}
	pkgs, err := packages.Load(cfg, pkgsToLoad...)
	if err != nil {
		die(2, "load: %v", err)
	}
	res := result{Replace: map[string]string{}, Counters: map[string]int{}}
	for _, p := range pkgs {
		if len(p.Errors) > 0 {
			die(2, "package %s: %v", p.PkgPath, p.Errors[0])
		}
		res.Packages = append(res.Packages, p.PkgPath)
		for i, f := range p.Syntax {
			path := p.CompiledGoFiles[i]
			if strings.HasSuffix(path, "_test.go") || !strings.HasPrefix(path, *repo+"/") {
				continue
			}
			rw := &rewriter{p: p, f: f, path: path, counters: res.Counters}
			if pass["detrange"] {
				rw.detrange()
			}
			if pass["chanyield"] {
				rw.chanyield()
			}
			if pass["detselect"] {
				rw.detselect()
			}
			if pass["dettimer"] {
				rw.dettimer()
			}
			if pass["simsync"] {
				rw.swapImport("sync", "verifsim/simsync", "sync", "sync_imports")
			}
			if pass["simatomic"] {
				rw.swapImport("sync/atomic", "verifsim/simatomic", "atomic", "atomic_imports")
			}
			if !rw.changed {
				continue
			}
			if rw.usesRT {
				astutil.AddNamedImport(p.Fset, f, "simrt__", "verifsim/simrt")
			}
			var buf bytes.Buffer
			if err := format.Node(&buf, p.Fset, f); err != nil {
				die(2, "format %s: %v", path, err)
			}
			dst := filepath.Join(*out, strings.ReplaceAll(strings.Trim(path, "/"), "/", "__"))
			if err := os.WriteFile(dst, buf.Bytes(), 0o644); err != nil {
				die(2, "%v", err)
			}
			res.Replace[path] = dst
			res.Counters["files"]++
		}
	}
	enc := json.NewEncoder(os.Stdout)
	if err := enc.Encode(res); err != nil {
		die(2, "%v", err)
	}
}

type rewriter struct {
	p        *packages.Package
	f        *ast.File
	path     string
	changed  bool
	usesRT   bool
	ctr      int
	counters map[string]int
	// generated marks select statements emitted by detselect (never rewritten again)
	generated map[*ast.SelectStmt]bool
}

func (rw *rewriter) swapImport(from, to, defName, counter string) {
	for _, imp := range rw.f.Imports {
		if imp.Path.Value == strconv.Quote(from) {
			if imp.Name != nil && (imp.Name.Name == "_" || imp.Name.Name == ".") {
				continue
			}
			imp.Path.Value = strconv.Quote(to)
			if imp.Name == nil {
				imp.Name = ast.NewIdent(defName)
			}
			rw.changed = true
			rw.counters[counter]++
		}
	}
}

func isBlank(e ast.Expr) bool { id, ok := e.(*ast.Ident); return ok && id.Name == "_" }

// pure reports whether e is an identifier/selector chain with no calls or indexing, so
// that evaluating it again inside the loop body yields the same map.
func pure(e ast.Expr) bool {
	switch x := e.(type) {
	case *ast.Ident:
		return true
	case *ast.SelectorExpr:
		return pure(x.X)
	case *ast.ParenExpr:
		return pure(x.X)
	case *ast.StarExpr:
		return pure(x.X)
	}
	return false
}

// dettimer gives every timer armed by repository code its own expiry: inside a synctest
// bubble the runtime fires timers that share an expiry in a deliberately randomised order
// (runtime/time.go: "Re-randomize timer order"), which no replay can reproduce. The
// duration (or deadline) argument of the timer-arming calls is passed through
// simrt.UniqueDur / UniqueTime, which move the expiry by the few nanoseconds needed to
// make it unique within the run.
func (rw *rewriter) dettimer() {
	durArg := map[string]int{
		"time.Sleep": 0, "time.After": 0, "time.NewTimer": 0, "time.AfterFunc": 0, "time.NewTicker": 0, "time.Tick": 0,
		"context.WithTimeout": 1, "context.WithTimeoutCause": 1,
		"(*time.Timer).Reset": 0, "(*time.Ticker).Reset": 0,
	}
	timeArg := map[string]int{"context.WithDeadline": 1, "context.WithDeadlineCause": 1}
	ast.Inspect(rw.f, func(n ast.Node) bool {
		call, ok := n.(*ast.CallExpr)
		if !ok {
			return true
		}
		sel, ok := call.Fun.(*ast.SelectorExpr)
		if !ok {
			return true
		}
		fn, ok := rw.p.TypesInfo.Uses[sel.Sel].(*types.Func)
		if !ok {
			return true
		}
		name := fn.FullName()
		if i, ok := durArg[name]; ok && i < len(call.Args) && call.Ellipsis == token.NoPos {
			call.Args[i] = &ast.CallExpr{Fun: rtSel("UniqueDur"), Args: []ast.Expr{call.Args[i]}}
			rw.changed, rw.usesRT = true, true
			rw.counters["timers_made_unique"]++
		} else if i, ok := timeArg[name]; ok && i < len(call.Args) && call.Ellipsis == token.NoPos {
			call.Args[i] = &ast.CallExpr{Fun: rtSel("UniqueTime"), Args: []ast.Expr{call.Args[i]}}
			rw.changed, rw.usesRT = true, true
			rw.counters["timers_made_unique"]++
		}
		return true
	})
}

func rtSel(name string) ast.Expr {
	return &ast.SelectorExpr{X: ast.NewIdent("simrt__"), Sel: ast.NewIdent(name)}
}

func (rw *rewriter) detrange() {
	astutil.Apply(rw.f, func(c *astutil.Cursor) bool {
		rs, ok := c.Node().(*ast.RangeStmt)
		if !ok || rs.Key == nil {
			return true
		}
		tv, ok := rw.p.TypesInfo.Types[rs.X]
		if !ok {
			return true
		}
		if _, isMap := tv.Type.Underlying().(*types.Map); !isMap {
			return true
		}
		rw.ctr++
		n := strconv.Itoa(rw.ctr)
		kName, okName, vName := "k__"+n, "ok__"+n, "v__"+n
		keyIsBlank := isBlank(rs.Key)
		valAbsent := rs.Value == nil || isBlank(rs.Value)
		var pre []ast.Stmt
		var newRS *ast.RangeStmt
		if pure(rs.X) {
			idx := &ast.IndexExpr{X: rs.X, Index: ast.NewIdent(kName)}
			if valAbsent {
				pre = append(pre, &ast.IfStmt{
					Init: &ast.AssignStmt{Lhs: []ast.Expr{ast.NewIdent("_"), ast.NewIdent(okName)}, Tok: token.DEFINE, Rhs: []ast.Expr{idx}},
					Cond: &ast.UnaryExpr{Op: token.NOT, X: ast.NewIdent(okName)},
					Body: &ast.BlockStmt{List: []ast.Stmt{&ast.BranchStmt{Tok: token.CONTINUE}}},
				})
			} else {
				pre = append(pre,
					&ast.AssignStmt{Lhs: []ast.Expr{ast.NewIdent(vName), ast.NewIdent(okName)}, Tok: token.DEFINE, Rhs: []ast.Expr{idx}},
					&ast.IfStmt{Cond: &ast.UnaryExpr{Op: token.NOT, X: ast.NewIdent(okName)},
						Body: &ast.BlockStmt{List: []ast.Stmt{&ast.BranchStmt{Tok: token.CONTINUE}}}},
					&ast.AssignStmt{Lhs: []ast.Expr{rs.Value}, Tok: rs.Tok, Rhs: []ast.Expr{ast.NewIdent(vName)}},
				)
			}
			if !keyIsBlank {
				pre = append(pre, &ast.AssignStmt{Lhs: []ast.Expr{rs.Key}, Tok: rs.Tok, Rhs: []ast.Expr{ast.NewIdent(kName)}})
			}
			newRS = &ast.RangeStmt{
				Key: ast.NewIdent("_"), Value: ast.NewIdent(kName), Tok: token.DEFINE,
				X: &ast.CallExpr{Fun: rtSel("MapKeys"), Args: []ast.Expr{rs.X}},
			}
			rw.counters["map_ranges"]++
		} else {
			// impure map expression: evaluate once, iterate a sorted snapshot
			kv := "kv__" + n
			if !keyIsBlank {
				pre = append(pre, &ast.AssignStmt{Lhs: []ast.Expr{rs.Key}, Tok: rs.Tok,
					Rhs: []ast.Expr{&ast.SelectorExpr{X: ast.NewIdent(kv), Sel: ast.NewIdent("K")}}})
			}
			if !valAbsent {
				pre = append(pre, &ast.AssignStmt{Lhs: []ast.Expr{rs.Value}, Tok: rs.Tok,
					Rhs: []ast.Expr{&ast.SelectorExpr{X: ast.NewIdent(kv), Sel: ast.NewIdent("V")}}})
			}
			pre = append(pre, &ast.AssignStmt{Lhs: []ast.Expr{ast.NewIdent("_")}, Tok: token.ASSIGN, Rhs: []ast.Expr{ast.NewIdent(kv)}})
			newRS = &ast.RangeStmt{
				Key: ast.NewIdent("_"), Value: ast.NewIdent(kv), Tok: token.DEFINE,
				X: &ast.CallExpr{Fun: rtSel("MapItems"), Args: []ast.Expr{rs.X}},
			}
			rw.counters["map_ranges_snapshot"]++
		}
		if rs.Tok == token.DEFINE {
			// avoid "declared and not used" for variables the body ignores
			if !keyIsBlank {
				pre = append(pre, &ast.AssignStmt{Lhs: []ast.Expr{ast.NewIdent("_")}, Tok: token.ASSIGN, Rhs: []ast.Expr{rs.Key}})
			}
			if !valAbsent {
				pre = append(pre, &ast.AssignStmt{Lhs: []ast.Expr{ast.NewIdent("_")}, Tok: token.ASSIGN, Rhs: []ast.Expr{rs.Value}})
			}
		}
		newRS.Body = &ast.BlockStmt{List: append(pre, rs.Body.List...)}
		c.Replace(newRS)
		rw.changed, rw.usesRT = true, true
		return true
	}, nil)
}

// hasChanOp reports whether the statement's own expressions (not nested blocks or
// function literals) perform a channel send or receive.
func (rw *rewriter) hasChanOp(s ast.Stmt) bool {
	found := false
	var visitExpr func(e ast.Node)
	visitExpr = func(e ast.Node) {
		if e == nil || found {
			return
		}
		ast.Inspect(e, func(n ast.Node) bool {
			if found {
				return false
			}
			switch x := n.(type) {
			case *ast.FuncLit:
				return false
			case *ast.UnaryExpr:
				if x.Op == token.ARROW {
					found = true
					return false
				}
			}
			return true
		})
	}
	switch x := s.(type) {
	case *ast.SendStmt:
		return true
	case *ast.SelectStmt:
		return true
	case *ast.LabeledStmt:
		return rw.hasChanOp(x.Stmt)
	case *ast.ExprStmt:
		visitExpr(x.X)
	case *ast.AssignStmt:
		for _, e := range x.Rhs {
			visitExpr(e)
		}
	case *ast.ReturnStmt:
		for _, e := range x.Results {
			visitExpr(e)
		}
	case *ast.DeclStmt:
		visitExpr(x.Decl)
	case *ast.IfStmt:
		if x.Init != nil && rw.hasChanOp(x.Init) {
			return true
		}
		visitExpr(x.Cond)
	case *ast.SwitchStmt:
		if x.Init != nil && rw.hasChanOp(x.Init) {
			return true
		}
		if x.Tag != nil {
			visitExpr(x.Tag)
		}
	case *ast.GoStmt:
		for _, a := range x.Call.Args {
			visitExpr(a)
		}
	case *ast.DeferStmt:
		for _, a := range x.Call.Args {
			visitExpr(a)
		}
	case *ast.RangeStmt:
		if tv, ok := rw.p.TypesInfo.Types[x.X]; ok {
			if _, isChan := tv.Type.Underlying().(*types.Chan); isChan {
				return true
			}
		}
		visitExpr(x.X)
	}
	return found
}

func (rw *rewriter) yieldStmt(pos token.Pos) ast.Stmt {
	p := rw.p.Fset.Position(pos)
	label := fmt.Sprintf("chan@%s:%d", filepath.Base(p.Filename), p.Line)
	return &ast.ExprStmt{X: &ast.CallExpr{Fun: rtSel("Yield"), Args: []ast.Expr{&ast.BasicLit{Kind: token.STRING, Value: strconv.Quote(label)}}}}
}

func (rw *rewriter) instrumentList(list []ast.Stmt) []ast.Stmt {
	out := make([]ast.Stmt, 0, len(list))
	for _, s := range list {
		if rw.hasChanOp(s) {
			out = append(out, rw.yieldStmt(s.Pos()))
			rw.counters["chan_yields"]++
			rw.changed, rw.usesRT = true, true
			// a range over a channel blocks again at every iteration
			inner := s
			if l, ok := inner.(*ast.LabeledStmt); ok {
				inner = l.Stmt
			}
			if r, ok := inner.(*ast.RangeStmt); ok {
				if tv, ok := rw.p.TypesInfo.Types[r.X]; ok {
					if _, isChan := tv.Type.Underlying().(*types.Chan); isChan {
						r.Body.List = append([]ast.Stmt{rw.yieldStmt(r.Pos())}, r.Body.List...)
					}
				}
			}
		}
		out = append(out, s)
	}
	return out
}

func (rw *rewriter) chanyield() {
	ast.Inspect(rw.f, func(n ast.Node) bool {
		switch x := n.(type) {
		case *ast.BlockStmt:
			x.List = rw.instrumentList(x.List)
		case *ast.CaseClause:
			x.Body = rw.instrumentList(x.Body)
		case *ast.CommClause:
			x.Body = rw.instrumentList(x.Body)
		}
		return true
	})
}

// ---- detselect ------------------------------------------------------------------------------
//
// A select with two or more communication clauses picks pseudo-randomly (runtime fastrand,
// which cannot be seeded) among the clauses that are ready when it is entered. The pass
// rewrites such a select into: evaluate the channel operands and send values once, in source
// order; probe the clauses one by one, in source order, with non-blocking operations; if none
// was ready fall into the original (blocking, or defaulted) select over the same operands;
// then dispatch on the chosen clause with a switch, so that an unlabeled break in a clause
// body still leaves the statement. With one runnable goroutine at a time (GOMAXPROCS=1, no
// async preemption) nothing can become ready between the probes and the blocking select, so
// the blocking select is decided by the first counterpart to arrive.

func (rw *rewriter) detselect() {
	ast.Inspect(rw.f, func(n ast.Node) bool {
		switch x := n.(type) {
		case *ast.BlockStmt:
			x.List = rw.detselectList(x.List)
		case *ast.CaseClause:
			x.Body = rw.detselectList(x.Body)
		case *ast.CommClause:
			x.Body = rw.detselectList(x.Body)
		}
		return true
	})
}

func id(name string) *ast.Ident { return ast.NewIdent(name) }

func (rw *rewriter) detselectList(list []ast.Stmt) []ast.Stmt {
	out := make([]ast.Stmt, 0, len(list))
	for _, s := range list {
		var label *ast.LabeledStmt
		inner := s
		if l, ok := inner.(*ast.LabeledStmt); ok {
			label, inner = l, l.Stmt
		}
		sel, ok := inner.(*ast.SelectStmt)
		if !ok || rw.generated[sel] {
			out = append(out, s)
			continue
		}
		pre, sw, ok := rw.rewriteSelect(sel)
		if !ok {
			out = append(out, s)
			continue
		}
		out = append(out, pre...)
		if label != nil {
			label.Stmt = sw
			out = append(out, label)
		} else {
			out = append(out, sw)
		}
		rw.changed, rw.usesRT = true, true
		rw.counters["selects_determinised"]++
	}
	return out
}

func (rw *rewriter) rewriteSelect(sel *ast.SelectStmt) ([]ast.Stmt, ast.Stmt, bool) {
	var comms []*ast.CommClause
	var def *ast.CommClause
	for _, c := range sel.Body.List {
		cc := c.(*ast.CommClause)
		if cc.Comm == nil {
			def = cc
		} else {
			comms = append(comms, cc)
		}
	}
	if len(comms) < 2 {
		return nil, nil, false
	}
	rw.ctr++
	n := strconv.Itoa(rw.ctr)
	which := "which__" + n
	var pre []ast.Stmt
	// which := -1
	pre = append(pre, &ast.AssignStmt{Lhs: []ast.Expr{id(which)}, Tok: token.DEFINE, Rhs: []ast.Expr{&ast.UnaryExpr{Op: token.SUB, X: &ast.BasicLit{Kind: token.INT, Value: "1"}}}})
	notYet := func() ast.Expr {
		return &ast.BinaryExpr{X: id(which), Op: token.LSS, Y: &ast.BasicLit{Kind: token.INT, Value: "0"}}
	}
	setWhich := func(i int) ast.Stmt {
		return &ast.AssignStmt{Lhs: []ast.Expr{id(which)}, Tok: token.ASSIGN, Rhs: []ast.Expr{&ast.BasicLit{Kind: token.INT, Value: strconv.Itoa(i)}}}
	}
	blocking := &ast.SelectStmt{Body: &ast.BlockStmt{}}
	if rw.generated == nil {
		rw.generated = map[*ast.SelectStmt]bool{}
	}
	rw.generated[blocking] = true
	dispatch := &ast.SwitchStmt{Tag: id(which), Body: &ast.BlockStmt{}}
	// phase 0: evaluate operands once, in source order
	type info struct {
		ch, val, r, ok string
		recv           *ast.UnaryExpr
		assign         *ast.AssignStmt
		send           *ast.SendStmt
	}
	infos := make([]info, len(comms))
	for i, cc := range comms {
		k := n + "_" + strconv.Itoa(i)
		in := info{ch: "c__" + k, val: "v__" + k, r: "r__" + k, ok: "ok__" + k}
		switch st := cc.Comm.(type) {
		case *ast.SendStmt:
			in.send = st
			pre = append(pre, &ast.AssignStmt{Lhs: []ast.Expr{id(in.ch)}, Tok: token.DEFINE, Rhs: []ast.Expr{st.Chan}})
			pre = append(pre, &ast.AssignStmt{Lhs: []ast.Expr{id(in.val)}, Tok: token.DEFINE, Rhs: []ast.Expr{st.Value}})
		case *ast.ExprStmt:
			u, ok := unparen(st.X).(*ast.UnaryExpr)
			if !ok || u.Op != token.ARROW {
				return nil, nil, false
			}
			in.recv = u
			pre = append(pre, &ast.AssignStmt{Lhs: []ast.Expr{id(in.ch)}, Tok: token.DEFINE, Rhs: []ast.Expr{u.X}})
		case *ast.AssignStmt:
			if len(st.Rhs) != 1 {
				return nil, nil, false
			}
			u, ok := unparen(st.Rhs[0]).(*ast.UnaryExpr)
			if !ok || u.Op != token.ARROW {
				return nil, nil, false
			}
			in.recv, in.assign = u, st
			pre = append(pre, &ast.AssignStmt{Lhs: []ast.Expr{id(in.ch)}, Tok: token.DEFINE, Rhs: []ast.Expr{u.X}})
		default:
			return nil, nil, false
		}
		infos[i] = in
	}
	// a send value of an untyped constant would change type when hoisted; give up on those
	for _, in := range infos {
		if in.send != nil {
			if tv, ok := rw.p.TypesInfo.Types[in.send.Value]; ok && tv.Value != nil {
				return nil, nil, false
			}
			if tv, ok := rw.p.TypesInfo.Types[in.send.Value]; ok && tv.IsNil() {
				return nil, nil, false
			}
		}
	}
	// phase 1: probes in source order; phase 2: the blocking select; phase 3: dispatch
	for i, cc := range comms {
		in := infos[i]
		var body []ast.Stmt
		if in.send != nil {
			// inline non-blocking send (keeps the original assignability of value to
			// the channel's element type, which a generic helper would not)
			pre = append(pre, &ast.IfStmt{
				Cond: notYet(),
				Body: &ast.BlockStmt{List: []ast.Stmt{&ast.SelectStmt{Body: &ast.BlockStmt{List: []ast.Stmt{
					&ast.CommClause{Comm: &ast.SendStmt{Chan: id(in.ch), Value: id(in.val)}, Body: []ast.Stmt{setWhich(i)}},
					&ast.CommClause{},
				}}}}},
			})
			blocking.Body.List = append(blocking.Body.List, &ast.CommClause{
				Comm: &ast.SendStmt{Chan: id(in.ch), Value: id(in.val)}, Body: []ast.Stmt{setWhich(i)}})
		} else {
			got := "got__" + n + "_" + strconv.Itoa(i)
			pre = append(pre, &ast.AssignStmt{Lhs: []ast.Expr{id(in.r), id(in.ok), id(got)}, Tok: token.DEFINE,
				Rhs: []ast.Expr{&ast.CallExpr{Fun: rtSel("TryRecvIf"), Args: []ast.Expr{notYet(), id(in.ch)}}}})
			pre = append(pre, &ast.IfStmt{Cond: id(got), Body: &ast.BlockStmt{List: []ast.Stmt{setWhich(i)}}})
			pre = append(pre, &ast.AssignStmt{Lhs: []ast.Expr{id("_"), id("_")}, Tok: token.ASSIGN, Rhs: []ast.Expr{id(in.r), id(in.ok)}})
			blocking.Body.List = append(blocking.Body.List, &ast.CommClause{
				Comm: &ast.AssignStmt{Lhs: []ast.Expr{id(in.r), id(in.ok)}, Tok: token.ASSIGN, Rhs: []ast.Expr{&ast.UnaryExpr{Op: token.ARROW, X: id(in.ch)}}},
				Body: []ast.Stmt{setWhich(i)}})
			if in.assign != nil {
				rhs := []ast.Expr{id(in.r)}
				if len(in.assign.Lhs) == 2 {
					rhs = append(rhs, id(in.ok))
				}
				body = append(body, &ast.AssignStmt{Lhs: in.assign.Lhs, Tok: in.assign.Tok, Rhs: rhs})
				if in.assign.Tok == token.DEFINE {
					for _, l := range in.assign.Lhs {
						if !isBlank(l) {
							body = append(body, &ast.AssignStmt{Lhs: []ast.Expr{id("_")}, Tok: token.ASSIGN, Rhs: []ast.Expr{l}})
						}
					}
				}
			}
		}
		body = append(body, cc.Body...)
		dispatch.Body.List = append(dispatch.Body.List, &ast.CaseClause{
			List: []ast.Expr{&ast.BasicLit{Kind: token.INT, Value: strconv.Itoa(i)}}, Body: body})
	}
	if def != nil {
		blocking.Body.List = append(blocking.Body.List, &ast.CommClause{Body: []ast.Stmt{setWhich(len(comms))}})
		dispatch.Body.List = append(dispatch.Body.List, &ast.CaseClause{
			List: []ast.Expr{&ast.BasicLit{Kind: token.INT, Value: strconv.Itoa(len(comms))}}, Body: def.Body})
	}
	pre = append(pre, &ast.IfStmt{Cond: notYet(), Body: &ast.BlockStmt{List: []ast.Stmt{blocking}}})
	// a default clause keeps the statement "terminating" when every clause body is
	// (a select whose clauses all return needs no return after it)
	dispatch.Body.List = append(dispatch.Body.List, &ast.CaseClause{Body: []ast.Stmt{
		&ast.ExprStmt{X: &ast.CallExpr{Fun: id("panic"), Args: []ast.Expr{&ast.BasicLit{Kind: token.STRING, Value: strconv.Quote("verif detselect: unreachable")}}}},
	}})
	return pre, dispatch, true
}

func unparen(e ast.Expr) ast.Expr {
	for {
		p, ok := e.(*ast.ParenExpr)
		if !ok {
			return e
		}
		e = p.X
	}
}
