// overlaygen regenerates, from /repo's current working tree, instrumented copies of the
// repository's Go sources for `go test -overlay`. It never writes to /repo.
//
// Passes (each mechanical, semantics-preserving when no simulator is installed):
//
//	simsync    import "sync"        -> sync "verifsim/simsync"
//	simatomic  import "sync/atomic" -> atomic "verifsim/simatomic"
//	detrange   for k, v := range <map> -> iteration over simrt.MapKeys (sorted, optionally
//	           permuted from the run's choice source)
//	chanyield  simrt.Yield(...) before statements performing channel operations
//
// Usage: overlaygen -dir MODULEDIR -modfile F -out DIR -passes a,b,c -roots pkg,pkg [-prefix github.com/synnaxlabs/]
// Prints {"Replace":{orig:copy,...}} plus counters on stdout as JSON.
package main

import (
	"bytes"
	"encoding/json"
	"flag"
	"fmt"
	"go/ast"
	"go/format"
	"go/token"
	"go/types"
	"os"
	"os/exec"
	"path/filepath"
	"sort"
	"strconv"
	"strings"

	"golang.org/x/tools/go/ast/astutil"
	"golang.org/x/tools/go/packages"
)

type result struct {
	Replace  map[string]string `json:"Replace"`
	Counters map[string]int    `json:"counters"`
	Packages []string          `json:"packages"`
}

func die(code int, format string, args ...any) {
	fmt.Fprintf(os.Stderr, "overlaygen: "+format+"\n", args...)
	os.Exit(code)
}

func main() {
	dir := flag.String("dir", ".", "module directory")
	modfile := flag.String("modfile", "", "alternate go.mod")
	out := flag.String("out", "", "output directory for rewritten files")
	passes := flag.String("passes", "simsync,detrange", "comma separated passes")
	roots := flag.String("roots", "./...", "comma separated root package patterns whose dependency closure is instrumented")
	prefix := flag.String("prefix", "github.com/synnaxlabs/", "only packages with this import path prefix are instrumented")
	repo := flag.String("repo", "/repo", "only files under this directory are instrumented")
	exclude := flag.String("exclude", "", "comma separated import path prefixes to leave alone")
	flag.Parse()
	if *out == "" {
		die(2, "-out required")
	}
	if err := os.MkdirAll(*out, 0o755); err != nil {
		die(2, "%v", err)
	}
	pass := map[string]bool{}
	for _, p := range strings.Split(*passes, ",") {
		if p != "" {
			pass[p] = true
		}
	}
	var bflags []string
	if *modfile != "" {
		bflags = append(bflags, "-modfile="+*modfile)
	}
	// 1. dependency closure of the roots, restricted to the prefix
	args := append([]string{"list", "-deps", "-f", "{{.ImportPath}}"}, bflags...)
	args = append(args, strings.Split(*roots, ",")...)
	cmd := exec.Command("go", args...)
	cmd.Dir = *dir
	cmd.Stderr = os.Stderr
	b, err := cmd.Output()
	if err != nil {
		die(2, "go list failed: %v", err)
	}
	var excl []string
	for _, e := range strings.Split(*exclude, ",") {
		if e != "" {
			excl = append(excl, e)
		}
	}
	var pkgsToLoad []string
	for _, l := range strings.Split(string(b), "\n") {
		l = strings.TrimSpace(l)
		if l == "" || !strings.HasPrefix(l, *prefix) {
			continue
		}
		skip := false
		for _, e := range excl {
			if strings.HasPrefix(l, e) {
				skip = true
			}
		}
		if !skip {
			pkgsToLoad = append(pkgsToLoad, l)
		}
	}
	sort.Strings(pkgsToLoad)
	needTypes := pass["detrange"] || pass["chanyield"]
	mode := packages.NeedName | packages.NeedFiles | packages.NeedCompiledGoFiles | packages.NeedSyntax
	if needTypes {
		mode |= packages.NeedTypes | packages.NeedTypesInfo | packages.NeedImports
	}
	cfg := &packages.Config{Mode: mode, Dir: *dir, BuildFlags: bflags}
	pkgs, err := packages.Load(cfg, pkgsToLoad...)
	if err != nil {
		die(2, "load: %v", err)
	}
	res := result{Replace: map[string]string{}, Counters: map[string]int{}}
	for _, p := range pkgs {
		if len(p.Errors) > 0 {
			die(2, "package %s: %v", p.PkgPath, p.Errors[0])
		}
		res.Packages = append(res.Packages, p.PkgPath)
		for i, f := range p.Syntax {
			path := p.CompiledGoFiles[i]
			if strings.HasSuffix(path, "_test.go") || !strings.HasPrefix(path, *repo+"/") {
				continue
			}
			rw := &rewriter{p: p, f: f, path: path, counters: res.Counters}
			if pass["detrange"] {
				rw.detrange()
			}
			if pass["chanyield"] {
				rw.chanyield()
			}
			if pass["simsync"] {
				rw.swapImport("sync", "verifsim/simsync", "sync", "sync_imports")
			}
			if pass["simatomic"] {
				rw.swapImport("sync/atomic", "verifsim/simatomic", "atomic", "atomic_imports")
			}
			if !rw.changed {
				continue
			}
			if rw.usesRT {
				astutil.AddNamedImport(p.Fset, f, "simrt__", "verifsim/simrt")
			}
			var buf bytes.Buffer
			if err := format.Node(&buf, p.Fset, f); err != nil {
				die(2, "format %s: %v", path, err)
			}
			dst := filepath.Join(*out, strings.ReplaceAll(strings.Trim(path, "/"), "/", "__"))
			if err := os.WriteFile(dst, buf.Bytes(), 0o644); err != nil {
				die(2, "%v", err)
			}
			res.Replace[path] = dst
			res.Counters["files"]++
		}
	}
	enc := json.NewEncoder(os.Stdout)
	if err := enc.Encode(res); err != nil {
		die(2, "%v", err)
	}
}

type rewriter struct {
	p        *packages.Package
	f        *ast.File
	path     string
	changed  bool
	usesRT   bool
	ctr      int
	counters map[string]int
}

func (rw *rewriter) swapImport(from, to, defName, counter string) {
	for _, imp := range rw.f.Imports {
		if imp.Path.Value == strconv.Quote(from) {
			if imp.Name != nil && (imp.Name.Name == "_" || imp.Name.Name == ".") {
				continue
			}
			imp.Path.Value = strconv.Quote(to)
			if imp.Name == nil {
				imp.Name = ast.NewIdent(defName)
			}
			rw.changed = true
			rw.counters[counter]++
		}
	}
}

func isBlank(e ast.Expr) bool { id, ok := e.(*ast.Ident); return ok && id.Name == "_" }

// pure reports whether e is an identifier/selector chain with no calls or indexing, so
// that evaluating it again inside the loop body yields the same map.
func pure(e ast.Expr) bool {
	switch x := e.(type) {
	case *ast.Ident:
		return true
	case *ast.SelectorExpr:
		return pure(x.X)
	case *ast.ParenExpr:
		return pure(x.X)
	case *ast.StarExpr:
		return pure(x.X)
	}
	return false
}

func rtSel(name string) ast.Expr {
	return &ast.SelectorExpr{X: ast.NewIdent("simrt__"), Sel: ast.NewIdent(name)}
}

func (rw *rewriter) detrange() {
	astutil.Apply(rw.f, func(c *astutil.Cursor) bool {
		rs, ok := c.Node().(*ast.RangeStmt)
		if !ok || rs.Key == nil {
			return true
		}
		tv, ok := rw.p.TypesInfo.Types[rs.X]
		if !ok {
			return true
		}
		if _, isMap := tv.Type.Underlying().(*types.Map); !isMap {
			return true
		}
		rw.ctr++
		n := strconv.Itoa(rw.ctr)
		kName, okName, vName := "k__"+n, "ok__"+n, "v__"+n
		keyIsBlank := isBlank(rs.Key)
		valAbsent := rs.Value == nil || isBlank(rs.Value)
		var pre []ast.Stmt
		var newRS *ast.RangeStmt
		if pure(rs.X) {
			idx := &ast.IndexExpr{X: rs.X, Index: ast.NewIdent(kName)}
			if valAbsent {
				pre = append(pre, &ast.IfStmt{
					Init: &ast.AssignStmt{Lhs: []ast.Expr{ast.NewIdent("_"), ast.NewIdent(okName)}, Tok: token.DEFINE, Rhs: []ast.Expr{idx}},
					Cond: &ast.UnaryExpr{Op: token.NOT, X: ast.NewIdent(okName)},
					Body: &ast.BlockStmt{List: []ast.Stmt{&ast.BranchStmt{Tok: token.CONTINUE}}},
				})
			} else {
				pre = append(pre,
					&ast.AssignStmt{Lhs: []ast.Expr{ast.NewIdent(vName), ast.NewIdent(okName)}, Tok: token.DEFINE, Rhs: []ast.Expr{idx}},
					&ast.IfStmt{Cond: &ast.UnaryExpr{Op: token.NOT, X: ast.NewIdent(okName)},
						Body: &ast.BlockStmt{List: []ast.Stmt{&ast.BranchStmt{Tok: token.CONTINUE}}}},
					&ast.AssignStmt{Lhs: []ast.Expr{rs.Value}, Tok: rs.Tok, Rhs: []ast.Expr{ast.NewIdent(vName)}},
				)
			}
			if !keyIsBlank {
				pre = append(pre, &ast.AssignStmt{Lhs: []ast.Expr{rs.Key}, Tok: rs.Tok, Rhs: []ast.Expr{ast.NewIdent(kName)}})
			}
			newRS = &ast.RangeStmt{
				Key: ast.NewIdent("_"), Value: ast.NewIdent(kName), Tok: token.DEFINE,
				X: &ast.CallExpr{Fun: rtSel("MapKeys"), Args: []ast.Expr{rs.X}},
			}
			rw.counters["map_ranges"]++
		} else {
			// impure map expression: evaluate once, iterate a sorted snapshot
			kv := "kv__" + n
			if !keyIsBlank {
				pre = append(pre, &ast.AssignStmt{Lhs: []ast.Expr{rs.Key}, Tok: rs.Tok,
					Rhs: []ast.Expr{&ast.SelectorExpr{X: ast.NewIdent(kv), Sel: ast.NewIdent("K")}}})
			}
			if !valAbsent {
				pre = append(pre, &ast.AssignStmt{Lhs: []ast.Expr{rs.Value}, Tok: rs.Tok,
					Rhs: []ast.Expr{&ast.SelectorExpr{X: ast.NewIdent(kv), Sel: ast.NewIdent("V")}}})
			}
			pre = append(pre, &ast.AssignStmt{Lhs: []ast.Expr{ast.NewIdent("_")}, Tok: token.ASSIGN, Rhs: []ast.Expr{ast.NewIdent(kv)}})
			newRS = &ast.RangeStmt{
				Key: ast.NewIdent("_"), Value: ast.NewIdent(kv), Tok: token.DEFINE,
				X: &ast.CallExpr{Fun: rtSel("MapItems"), Args: []ast.Expr{rs.X}},
			}
			rw.counters["map_ranges_snapshot"]++
		}
		if rs.Tok == token.DEFINE {
			// avoid "declared and not used" for variables the body ignores
			if !keyIsBlank {
				pre = append(pre, &ast.AssignStmt{Lhs: []ast.Expr{ast.NewIdent("_")}, Tok: token.ASSIGN, Rhs: []ast.Expr{rs.Key}})
			}
			if !valAbsent {
				pre = append(pre, &ast.AssignStmt{Lhs: []ast.Expr{ast.NewIdent("_")}, Tok: token.ASSIGN, Rhs: []ast.Expr{rs.Value}})
			}
		}
		newRS.Body = &ast.BlockStmt{List: append(pre, rs.Body.List...)}
		c.Replace(newRS)
		rw.changed, rw.usesRT = true, true
		return true
	}, nil)
}

// hasChanOp reports whether the statement's own expressions (not nested blocks or
// function literals) perform a channel send or receive.
func (rw *rewriter) hasChanOp(s ast.Stmt) bool {
	found := false
	var visitExpr func(e ast.Node)
	visitExpr = func(e ast.Node) {
		if e == nil || found {
			return
		}
		ast.Inspect(e, func(n ast.Node) bool {
			if found {
				return false
			}
			switch x := n.(type) {
			case *ast.FuncLit:
				return false
			case *ast.UnaryExpr:
				if x.Op == token.ARROW {
					found = true
					return false
				}
			}
			return true
		})
	}
	switch x := s.(type) {
	case *ast.SendStmt:
		return true
	case *ast.SelectStmt:
		return true
	case *ast.LabeledStmt:
		return rw.hasChanOp(x.Stmt)
	case *ast.ExprStmt:
		visitExpr(x.X)
	case *ast.AssignStmt:
		for _, e := range x.Rhs {
			visitExpr(e)
		}
	case *ast.ReturnStmt:
		for _, e := range x.Results {
			visitExpr(e)
		}
	case *ast.DeclStmt:
		visitExpr(x.Decl)
	case *ast.IfStmt:
		if x.Init != nil && rw.hasChanOp(x.Init) {
			return true
		}
		visitExpr(x.Cond)
	case *ast.SwitchStmt:
		if x.Init != nil && rw.hasChanOp(x.Init) {
			return true
		}
		if x.Tag != nil {
			visitExpr(x.Tag)
		}
	case *ast.GoStmt:
		for _, a := range x.Call.Args {
			visitExpr(a)
		}
	case *ast.DeferStmt:
		for _, a := range x.Call.Args {
			visitExpr(a)
		}
	case *ast.RangeStmt:
		if tv, ok := rw.p.TypesInfo.Types[x.X]; ok {
			if _, isChan := tv.Type.Underlying().(*types.Chan); isChan {
				return true
			}
		}
		visitExpr(x.X)
	}
	return found
}

func (rw *rewriter) yieldStmt(pos token.Pos) ast.Stmt {
	p := rw.p.Fset.Position(pos)
	label := fmt.Sprintf("chan@%s:%d", filepath.Base(p.Filename), p.Line)
	return &ast.ExprStmt{X: &ast.CallExpr{Fun: rtSel("Yield"), Args: []ast.Expr{&ast.BasicLit{Kind: token.STRING, Value: strconv.Quote(label)}}}}
}

func (rw *rewriter) instrumentList(list []ast.Stmt) []ast.Stmt {
	out := make([]ast.Stmt, 0, len(list))
	for _, s := range list {
		if rw.hasChanOp(s) {
			out = append(out, rw.yieldStmt(s.Pos()))
			rw.counters["chan_yields"]++
			rw.changed, rw.usesRT = true, true
			// a range over a channel blocks again at every iteration
			inner := s
			if l, ok := inner.(*ast.LabeledStmt); ok {
				inner = l.Stmt
			}
			if r, ok := inner.(*ast.RangeStmt); ok {
				if tv, ok := rw.p.TypesInfo.Types[r.X]; ok {
					if _, isChan := tv.Type.Underlying().(*types.Chan); isChan {
						r.Body.List = append([]ast.Stmt{rw.yieldStmt(r.Pos())}, r.Body.List...)
					}
				}
			}
		}
		out = append(out, s)
	}
	return out
}

func (rw *rewriter) chanyield() {
	ast.Inspect(rw.f, func(n ast.Node) bool {
		switch x := n.(type) {
		case *ast.BlockStmt:
			x.List = rw.instrumentList(x.List)
		case *ast.CaseClause:
			x.Body = rw.instrumentList(x.Body)
		case *ast.CommClause:
			x.Body = rw.instrumentList(x.Body)
		}
		return true
	})
}
