// Package simatomic is a drop-in for "sync/atomic" injected by the overlay. Every
// operation is preceded by a scheduler yield so the unit of atomicity is the code
// between two synchronisation operations.
package simatomic

import (
	"sync/atomic"
	"unsafe"

	"verifsim/sim"
)

func y(op string) { sim.Yield(sim.ClassAtomic, op) }

type Bool struct{ v atomic.Bool }

func (x *Bool) Load() bool                        { y("a.Load"); return x.v.Load() }
func (x *Bool) Store(val bool)                    { y("a.Store"); x.v.Store(val) }
func (x *Bool) Swap(new bool) bool                { y("a.Swap"); return x.v.Swap(new) }
func (x *Bool) CompareAndSwap(old, new bool) bool { y("a.CAS"); return x.v.CompareAndSwap(old, new) }

type Int32 struct{ v atomic.Int32 }

func (x *Int32) Load() int32                        { y("a.Load"); return x.v.Load() }
func (x *Int32) Store(val int32)                    { y("a.Store"); x.v.Store(val) }
func (x *Int32) Swap(new int32) int32               { y("a.Swap"); return x.v.Swap(new) }
func (x *Int32) CompareAndSwap(old, new int32) bool { y("a.CAS"); return x.v.CompareAndSwap(old, new) }
func (x *Int32) Add(d int32) int32                  { y("a.Add"); return x.v.Add(d) }
func (x *Int32) And(m int32) int32                  { y("a.And"); return x.v.And(m) }
func (x *Int32) Or(m int32) int32                   { y("a.Or"); return x.v.Or(m) }

type Int64 struct{ v atomic.Int64 }

func (x *Int64) Load() int64                        { y("a.Load"); return x.v.Load() }
func (x *Int64) Store(val int64)                    { y("a.Store"); x.v.Store(val) }
func (x *Int64) Swap(new int64) int64               { y("a.Swap"); return x.v.Swap(new) }
func (x *Int64) CompareAndSwap(old, new int64) bool { y("a.CAS"); return x.v.CompareAndSwap(old, new) }
func (x *Int64) Add(d int64) int64                  { y("a.Add"); return x.v.Add(d) }
func (x *Int64) And(m int64) int64                  { y("a.And"); return x.v.And(m) }
func (x *Int64) Or(m int64) int64                   { y("a.Or"); return x.v.Or(m) }

type Uint32 struct{ v atomic.Uint32 }

func (x *Uint32) Load() uint32           { y("a.Load"); return x.v.Load() }
func (x *Uint32) Store(val uint32)       { y("a.Store"); x.v.Store(val) }
func (x *Uint32) Swap(new uint32) uint32 { y("a.Swap"); return x.v.Swap(new) }
func (x *Uint32) CompareAndSwap(old, new uint32) bool {
	y("a.CAS")
	return x.v.CompareAndSwap(old, new)
}
func (x *Uint32) Add(d uint32) uint32 { y("a.Add"); return x.v.Add(d) }
func (x *Uint32) And(m uint32) uint32 { y("a.And"); return x.v.And(m) }
func (x *Uint32) Or(m uint32) uint32  { y("a.Or"); return x.v.Or(m) }

type Uint64 struct{ v atomic.Uint64 }

func (x *Uint64) Load() uint64           { y("a.Load"); return x.v.Load() }
func (x *Uint64) Store(val uint64)       { y("a.Store"); x.v.Store(val) }
func (x *Uint64) Swap(new uint64) uint64 { y("a.Swap"); return x.v.Swap(new) }
func (x *Uint64) CompareAndSwap(old, new uint64) bool {
	y("a.CAS")
	return x.v.CompareAndSwap(old, new)
}
func (x *Uint64) Add(d uint64) uint64 { y("a.Add"); return x.v.Add(d) }
func (x *Uint64) And(m uint64) uint64 { y("a.And"); return x.v.And(m) }
func (x *Uint64) Or(m uint64) uint64  { y("a.Or"); return x.v.Or(m) }

type Uintptr struct{ v atomic.Uintptr }

func (x *Uintptr) Load() uintptr            { y("a.Load"); return x.v.Load() }
func (x *Uintptr) Store(val uintptr)        { y("a.Store"); x.v.Store(val) }
func (x *Uintptr) Swap(new uintptr) uintptr { y("a.Swap"); return x.v.Swap(new) }
func (x *Uintptr) CompareAndSwap(old, new uintptr) bool {
	y("a.CAS")
	return x.v.CompareAndSwap(old, new)
}
func (x *Uintptr) Add(d uintptr) uintptr { y("a.Add"); return x.v.Add(d) }

type Pointer[T any] struct{ v atomic.Pointer[T] }

func (x *Pointer[T]) Load() *T       { y("a.Load"); return x.v.Load() }
func (x *Pointer[T]) Store(val *T)   { y("a.Store"); x.v.Store(val) }
func (x *Pointer[T]) Swap(new *T) *T { y("a.Swap"); return x.v.Swap(new) }
func (x *Pointer[T]) CompareAndSwap(old, new *T) bool {
	y("a.CAS")
	return x.v.CompareAndSwap(old, new)
}

type Value struct{ v atomic.Value }

func (x *Value) Load() any                        { y("a.Load"); return x.v.Load() }
func (x *Value) Store(val any)                    { y("a.Store"); x.v.Store(val) }
func (x *Value) Swap(new any) any                 { y("a.Swap"); return x.v.Swap(new) }
func (x *Value) CompareAndSwap(old, new any) bool { y("a.CAS"); return x.v.CompareAndSwap(old, new) }

func AddInt32(addr *int32, delta int32) int32         { y("a.Add"); return atomic.AddInt32(addr, delta) }
func AddInt64(addr *int64, delta int64) int64         { y("a.Add"); return atomic.AddInt64(addr, delta) }
func AddUint32(addr *uint32, delta uint32) uint32     { y("a.Add"); return atomic.AddUint32(addr, delta) }
func AddUint64(addr *uint64, delta uint64) uint64     { y("a.Add"); return atomic.AddUint64(addr, delta) }
func LoadInt32(addr *int32) int32                     { y("a.Load"); return atomic.LoadInt32(addr) }
func LoadInt64(addr *int64) int64                     { y("a.Load"); return atomic.LoadInt64(addr) }
func LoadUint32(addr *uint32) uint32                  { y("a.Load"); return atomic.LoadUint32(addr) }
func LoadUint64(addr *uint64) uint64                  { y("a.Load"); return atomic.LoadUint64(addr) }
func LoadPointer(addr *unsafe.Pointer) unsafe.Pointer { y("a.Load"); return atomic.LoadPointer(addr) }
func StoreInt32(addr *int32, val int32)               { y("a.Store"); atomic.StoreInt32(addr, val) }
func StoreInt64(addr *int64, val int64)               { y("a.Store"); atomic.StoreInt64(addr, val) }
func StoreUint32(addr *uint32, val uint32)            { y("a.Store"); atomic.StoreUint32(addr, val) }
func StoreUint64(addr *uint64, val uint64)            { y("a.Store"); atomic.StoreUint64(addr, val) }
func StorePointer(addr *unsafe.Pointer, val unsafe.Pointer) {
	y("a.Store")
	atomic.StorePointer(addr, val)
}
func SwapInt32(addr *int32, new int32) int32     { y("a.Swap"); return atomic.SwapInt32(addr, new) }
func SwapInt64(addr *int64, new int64) int64     { y("a.Swap"); return atomic.SwapInt64(addr, new) }
func SwapUint32(addr *uint32, new uint32) uint32 { y("a.Swap"); return atomic.SwapUint32(addr, new) }
func SwapUint64(addr *uint64, new uint64) uint64 { y("a.Swap"); return atomic.SwapUint64(addr, new) }
func CompareAndSwapInt32(addr *int32, old, new int32) bool {
	y("a.CAS")
	return atomic.CompareAndSwapInt32(addr, old, new)
}
func CompareAndSwapInt64(addr *int64, old, new int64) bool {
	y("a.CAS")
	return atomic.CompareAndSwapInt64(addr, old, new)
}
func CompareAndSwapUint32(addr *uint32, old, new uint32) bool {
	y("a.CAS")
	return atomic.CompareAndSwapUint32(addr, old, new)
}
func CompareAndSwapUint64(addr *uint64, old, new uint64) bool {
	y("a.CAS")
	return atomic.CompareAndSwapUint64(addr, old, new)
}
