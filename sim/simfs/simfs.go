// Package simfs is the simulated disk: an in-memory POSIX-like file system that logs
// every mutation (so a crash image is the replay of a log prefix, optionally with a torn
// last write), lets a hook fail or shorten any call, and makes every call a scheduler
// yield point. It has no dependency on the repository; a thin adapter injected into
// x/io/fs exposes it as an xfs.FS.
package simfs

import (
	"errors"
	"io"
	iofs "io/fs"
	"os"
	"path"
	"sort"
	"strings"
	"sync"
	"syscall"
	"time"

	"verifsim/sim"
)

type OpKind uint8

const (
	OpCreate OpKind = iota + 1
	OpMkdir
	OpWrite
	OpTruncate
	OpRename
	OpRemove
)

func (k OpKind) String() string {
	return [...]string{"?", "create", "mkdir", "write", "truncate", "rename", "remove"}[k]
}

// Op is one logged mutation. Files are identified by inode so that writes through a
// handle follow the file across renames, as on a real OS.
type Op struct {
	Kind  OpKind `json:"k"`
	Ino   int    `json:"i,omitempty"`
	Path  string `json:"p,omitempty"`
	Path2 string `json:"q,omitempty"`
	Off   int64  `json:"o,omitempty"`
	Size  int64  `json:"s,omitempty"`
	Data  []byte `json:"d,omitempty"`
}

type node struct {
	ino      int
	name     string
	isDir    bool
	children map[string]*node
	data     []byte
	mod      time.Time
}

// Call describes one FS call for the fault hook.
type Call struct {
	Seq  int
	Kind string // open, sub, list, exists, stat, remove, rename, read, readat, write, writeat, truncate, fstat, sync, close
	Path string
	Len  int
}

// Fault is a hook's verdict: fail the call with Err, and/or (for writes) apply only
// Short bytes before failing.
type Fault struct {
	Err   error
	Short int
}

var (
	ErrIO    = &os.PathError{Op: "simfs", Path: "", Err: syscall.EIO}
	ErrNoSpc = &os.PathError{Op: "simfs", Path: "", Err: syscall.ENOSPC}
)

type FS struct {
	mu      sync.Mutex
	root    *node
	nextIno int
	inodes  map[int]*node
	Log     []Op
	NoLog   bool
	Hook    func(Call) *Fault
	Calls   int
	Counts  map[string]int
	Fired   map[string]int
	// Yields makes each call a scheduler yield point (goroutine tier).
	Yields bool
}

func New() *FS {
	f := &FS{nextIno: 1, inodes: map[int]*node{}, Counts: map[string]int{}, Fired: map[string]int{}}
	f.root = &node{ino: 0, name: "/", isDir: true, children: map[string]*node{}}
	return f
}

func clean(p string) []string {
	p = path.Clean("/" + p)
	if p == "/" {
		return nil
	}
	return strings.Split(strings.TrimPrefix(p, "/"), "/")
}

func (f *FS) lookup(parts []string) *node {
	n := f.root
	for _, s := range parts {
		if n == nil || !n.isDir {
			return nil
		}
		n = n.children[s]
	}
	return n
}

func notExist(op, p string) error { return &os.PathError{Op: op, Path: p, Err: iofs.ErrNotExist} }

func (f *FS) enter(kind, p string, ln int) *Fault {
	if f.Yields {
		sim.Yield(sim.ClassFS, "fs."+kind+" "+p)
	}
	f.mu.Lock()
	f.Calls++
	f.Counts[kind]++
	c := Call{Seq: f.Calls, Kind: kind, Path: p, Len: ln}
	h := f.Hook
	f.mu.Unlock()
	if h != nil {
		if ft := h(c); ft != nil {
			f.mu.Lock()
			f.Fired[kind]++
			f.mu.Unlock()
			return ft
		}
	}
	return nil
}

func (f *FS) log(op Op) {
	if !f.NoLog {
		f.Log = append(f.Log, op)
	}
}

// LogLen returns the number of mutations logged so far.
func (f *FS) LogLen() int {
	f.mu.Lock()
	defer f.mu.Unlock()
	return len(f.Log)
}

func (f *FS) mkdirAll(parts []string) (*node, error) {
	n := f.root
	for i, s := range parts {
		c := n.children[s]
		if c == nil {
			c = &node{ino: f.nextIno, name: s, isDir: true, children: map[string]*node{}, mod: time.Now()}
			f.nextIno++
			n.children[s] = c
			f.log(Op{Kind: OpMkdir, Path: "/" + strings.Join(parts[:i+1], "/")})
		} else if !c.isDir {
			return nil, &os.PathError{Op: "mkdir", Path: strings.Join(parts[:i+1], "/"), Err: syscall.ENOTDIR}
		}
		n = c
	}
	return n, nil
}

// Open opens or creates a file (or opens a directory read-only).
func (f *FS) Open(name string, flag int) (*Handle, error) {
	if ft := f.enter("open", name, 0); ft != nil {
		return nil, ft.Err
	}
	parts := clean(name)
	f.mu.Lock()
	defer f.mu.Unlock()
	if len(parts) == 0 {
		return &Handle{fs: f, n: f.root, name: "/", read: true}, nil
	}
	dir := f.lookup(parts[:len(parts)-1])
	if dir == nil || !dir.isDir {
		return nil, notExist("open", name)
	}
	base := parts[len(parts)-1]
	n := dir.children[base]
	if n == nil {
		if flag&os.O_CREATE == 0 {
			return nil, notExist("open", name)
		}
		n = &node{ino: f.nextIno, name: base, mod: time.Now()}
		f.nextIno++
		f.inodes[n.ino] = n
		dir.children[base] = n
		f.log(Op{Kind: OpCreate, Ino: n.ino, Path: "/" + strings.Join(parts, "/")})
	} else {
		if flag&os.O_CREATE != 0 && flag&os.O_EXCL != 0 {
			return nil, &os.PathError{Op: "open", Path: name, Err: iofs.ErrExist}
		}
		if n.isDir && flag&(os.O_WRONLY|os.O_RDWR) != 0 {
			return nil, &os.PathError{Op: "open", Path: name, Err: syscall.EISDIR}
		}
		if flag&os.O_TRUNC != 0 && !n.isDir && len(n.data) > 0 {
			n.data = nil
			n.mod = time.Now()
			f.log(Op{Kind: OpTruncate, Ino: n.ino, Size: 0})
		}
	}
	return &Handle{fs: f, n: n, name: "/" + strings.Join(parts, "/"),
		read:   flag&os.O_WRONLY == 0,
		write:  flag&(os.O_WRONLY|os.O_RDWR) != 0,
		append: flag&os.O_APPEND != 0,
	}, nil
}

// MkdirAll creates the directory and parents (the xfs.FS Sub semantics).
func (f *FS) MkdirAll(name string) error {
	if ft := f.enter("sub", name, 0); ft != nil {
		return ft.Err
	}
	f.mu.Lock()
	defer f.mu.Unlock()
	_, err := f.mkdirAll(clean(name))
	return err
}

type info struct {
	name  string
	size  int64
	isDir bool
	mod   time.Time
}

func (i info) Name() string       { return i.name }
func (i info) Size() int64        { return i.size }
func (i info) IsDir() bool        { return i.isDir }
func (i info) ModTime() time.Time { return i.mod }
func (i info) Sys() any           { return nil }
func (i info) Mode() iofs.FileMode {
	if i.isDir {
		return iofs.ModeDir | 0o755
	}
	return 0o755
}

func infoOf(n *node) iofs.FileInfo {
	return info{name: n.name, size: int64(len(n.data)), isDir: n.isDir, mod: n.mod}
}

func (f *FS) List(name string) ([]iofs.FileInfo, error) {
	if ft := f.enter("list", name, 0); ft != nil {
		return nil, ft.Err
	}
	f.mu.Lock()
	defer f.mu.Unlock()
	n := f.lookup(clean(name))
	if n == nil {
		return nil, notExist("list", name)
	}
	if !n.isDir {
		return nil, &os.PathError{Op: "list", Path: name, Err: syscall.ENOTDIR}
	}
	out := make([]iofs.FileInfo, 0, len(n.children))
	for _, c := range n.children {
		out = append(out, infoOf(c))
	}
	sort.Slice(out, func(i, j int) bool { return out[i].Name() < out[j].Name() })
	return out, nil
}

func (f *FS) Stat(name string) (iofs.FileInfo, error) {
	if ft := f.enter("stat", name, 0); ft != nil {
		return nil, ft.Err
	}
	f.mu.Lock()
	defer f.mu.Unlock()
	n := f.lookup(clean(name))
	if n == nil {
		return nil, notExist("stat", name)
	}
	return infoOf(n), nil
}

func (f *FS) Exists(name string) (bool, error) {
	if ft := f.enter("exists", name, 0); ft != nil {
		return false, ft.Err
	}
	f.mu.Lock()
	defer f.mu.Unlock()
	return f.lookup(clean(name)) != nil, nil
}

// Remove removes name and everything under it; a missing name is not an error
// (os.RemoveAll semantics, as the repository's default FS).
func (f *FS) Remove(name string) error {
	if ft := f.enter("remove", name, 0); ft != nil {
		return ft.Err
	}
	parts := clean(name)
	if len(parts) == 0 {
		return errors.New("simfs: cannot remove root")
	}
	f.mu.Lock()
	defer f.mu.Unlock()
	dir := f.lookup(parts[:len(parts)-1])
	if dir == nil || !dir.isDir {
		return nil
	}
	base := parts[len(parts)-1]
	if _, ok := dir.children[base]; !ok {
		return nil
	}
	delete(dir.children, base)
	f.log(Op{Kind: OpRemove, Path: "/" + strings.Join(parts, "/")})
	return nil
}

func (f *FS) Rename(oldName, newName string) error {
	if ft := f.enter("rename", oldName, 0); ft != nil {
		return ft.Err
	}
	op, np := clean(oldName), clean(newName)
	if len(op) == 0 || len(np) == 0 {
		return errors.New("simfs: cannot rename root")
	}
	f.mu.Lock()
	defer f.mu.Unlock()
	od := f.lookup(op[:len(op)-1])
	if od == nil || !od.isDir || od.children[op[len(op)-1]] == nil {
		return notExist("rename", oldName)
	}
	nd := f.lookup(np[:len(np)-1])
	if nd == nil || !nd.isDir {
		return notExist("rename", newName)
	}
	n := od.children[op[len(op)-1]]
	if t := nd.children[np[len(np)-1]]; t != nil && t != n {
		if t.isDir && (len(t.children) > 0 || !n.isDir) {
			return &os.PathError{Op: "rename", Path: newName, Err: syscall.ENOTEMPTY}
		}
		if !t.isDir && n.isDir {
			return &os.PathError{Op: "rename", Path: newName, Err: syscall.ENOTDIR}
		}
	}
	delete(od.children, op[len(op)-1])
	n.name = np[len(np)-1]
	nd.children[n.name] = n
	f.log(Op{Kind: OpRename, Path: "/" + strings.Join(op, "/"), Path2: "/" + strings.Join(np, "/")})
	return nil
}

// Handle is an open file.
type Handle struct {
	fs     *FS
	n      *node
	name   string
	rpos   int64
	wpos   int64
	read   bool
	write  bool
	append bool
	closed bool
}

var errClosed = iofs.ErrClosed

func (h *Handle) Name() string { return h.name }

func (h *Handle) Close() error {
	if ft := h.fs.enter("close", h.name, 0); ft != nil {
		return ft.Err
	}
	h.fs.mu.Lock()
	defer h.fs.mu.Unlock()
	if h.closed {
		return errClosed
	}
	h.closed = true
	return nil
}

func (h *Handle) Read(p []byte) (int, error) {
	if ft := h.fs.enter("read", h.name, len(p)); ft != nil {
		return 0, ft.Err
	}
	h.fs.mu.Lock()
	defer h.fs.mu.Unlock()
	if h.closed {
		return 0, errClosed
	}
	if !h.read || h.n.isDir {
		return 0, &os.PathError{Op: "read", Path: h.name, Err: syscall.EBADF}
	}
	if h.rpos >= int64(len(h.n.data)) {
		return 0, io.EOF
	}
	n := copy(p, h.n.data[h.rpos:])
	h.rpos += int64(n)
	return n, nil
}

func (h *Handle) ReadAt(p []byte, off int64) (int, error) {
	if ft := h.fs.enter("readat", h.name, len(p)); ft != nil {
		return 0, ft.Err
	}
	h.fs.mu.Lock()
	defer h.fs.mu.Unlock()
	if h.closed {
		return 0, errClosed
	}
	if !h.read || h.n.isDir {
		return 0, &os.PathError{Op: "read", Path: h.name, Err: syscall.EBADF}
	}
	if off < 0 {
		return 0, &os.PathError{Op: "readat", Path: h.name, Err: syscall.EINVAL}
	}
	if off >= int64(len(h.n.data)) {
		return 0, io.EOF
	}
	n := copy(p, h.n.data[off:])
	if n < len(p) {
		return n, io.EOF
	}
	return n, nil
}

func (h *Handle) writeAt(p []byte, off int64) {
	end := off + int64(len(p))
	if end > int64(len(h.n.data)) {
		nd := make([]byte, end)
		copy(nd, h.n.data)
		h.n.data = nd
	}
	copy(h.n.data[off:], p)
	h.n.mod = time.Now()
	h.fs.log(Op{Kind: OpWrite, Ino: h.n.ino, Off: off, Data: append([]byte(nil), p...)})
}

func (h *Handle) Write(p []byte) (int, error) {
	ft := h.fs.enter("write", h.name, len(p))
	h.fs.mu.Lock()
	defer h.fs.mu.Unlock()
	if h.closed {
		return 0, errClosed
	}
	if !h.write {
		return 0, &os.PathError{Op: "write", Path: h.name, Err: syscall.EBADF}
	}
	if ft != nil {
		n := ft.Short
		if n > len(p) {
			n = len(p)
		}
		if n > 0 {
			off := h.wpos
			if h.append {
				off = int64(len(h.n.data))
			}
			h.writeAt(p[:n], off)
			h.wpos = off + int64(n)
		}
		return n, ft.Err
	}
	if len(p) == 0 {
		return 0, nil
	}
	off := h.wpos
	if h.append {
		off = int64(len(h.n.data))
	}
	h.writeAt(p, off)
	h.wpos = off + int64(len(p))
	return len(p), nil
}

func (h *Handle) WriteAt(p []byte, off int64) (int, error) {
	ft := h.fs.enter("writeat", h.name, len(p))
	h.fs.mu.Lock()
	defer h.fs.mu.Unlock()
	if h.closed {
		return 0, errClosed
	}
	if !h.write {
		return 0, &os.PathError{Op: "write", Path: h.name, Err: syscall.EBADF}
	}
	if h.append {
		// os.File.WriteAt refuses files opened with O_APPEND.
		return 0, errors.New("os: invalid use of WriteAt on file opened with O_APPEND")
	}
	if off < 0 {
		return 0, &os.PathError{Op: "writeat", Path: h.name, Err: syscall.EINVAL}
	}
	if ft != nil {
		n := ft.Short
		if n > len(p) {
			n = len(p)
		}
		if n > 0 {
			h.writeAt(p[:n], off)
		}
		return n, ft.Err
	}
	if len(p) == 0 {
		return 0, nil
	}
	h.writeAt(p, off)
	return len(p), nil
}

func (h *Handle) Truncate(size int64) error {
	if ft := h.fs.enter("truncate", h.name, int(size)); ft != nil {
		return ft.Err
	}
	h.fs.mu.Lock()
	defer h.fs.mu.Unlock()
	if h.closed {
		return errClosed
	}
	if !h.write {
		return &os.PathError{Op: "truncate", Path: h.name, Err: syscall.EINVAL}
	}
	truncateNode(h.n, size)
	h.fs.log(Op{Kind: OpTruncate, Ino: h.n.ino, Size: size})
	return nil
}

func truncateNode(n *node, size int64) {
	if size <= int64(len(n.data)) {
		n.data = n.data[:size]
	} else {
		nd := make([]byte, size)
		copy(nd, n.data)
		n.data = nd
	}
	n.mod = time.Now()
}

func (h *Handle) Stat() (iofs.FileInfo, error) {
	if ft := h.fs.enter("fstat", h.name, 0); ft != nil {
		return nil, ft.Err
	}
	h.fs.mu.Lock()
	defer h.fs.mu.Unlock()
	if h.closed {
		return nil, errClosed
	}
	return infoOf(h.n), nil
}

func (h *Handle) Sync() error {
	if ft := h.fs.enter("sync", h.name, 0); ft != nil {
		return ft.Err
	}
	return nil
}

// Rebuild constructs the file system image produced by the first n logged mutations.
// If torn >= 0 and mutation n is a write, its first torn bytes are applied as well
// (a write cut short by the crash).
func Rebuild(log []Op, n int, torn int) *FS {
	f := New()
	f.NoLog = true
	apply := func(op Op, limit int) {
		switch op.Kind {
		case OpMkdir:
			_, _ = f.mkdirAll(clean(op.Path))
		case OpCreate:
			parts := clean(op.Path)
			dir := f.lookup(parts[:len(parts)-1])
			if dir == nil {
				return
			}
			nd := &node{ino: op.Ino, name: parts[len(parts)-1]}
			dir.children[nd.name] = nd
			f.inodes[op.Ino] = nd
		case OpWrite:
			nd := f.inodes[op.Ino]
			if nd == nil {
				return
			}
			d := op.Data
			if limit >= 0 && limit < len(d) {
				d = d[:limit]
			}
			end := op.Off + int64(len(d))
			if end > int64(len(nd.data)) {
				x := make([]byte, end)
				copy(x, nd.data)
				nd.data = x
			}
			copy(nd.data[op.Off:], d)
		case OpTruncate:
			if nd := f.inodes[op.Ino]; nd != nil {
				truncateNode(nd, op.Size)
			}
		case OpRename:
			o, np := clean(op.Path), clean(op.Path2)
			od, nd := f.lookup(o[:len(o)-1]), f.lookup(np[:len(np)-1])
			if od == nil || nd == nil {
				return
			}
			x := od.children[o[len(o)-1]]
			if x == nil {
				return
			}
			delete(od.children, o[len(o)-1])
			x.name = np[len(np)-1]
			nd.children[x.name] = x
		case OpRemove:
			parts := clean(op.Path)
			if dir := f.lookup(parts[:len(parts)-1]); dir != nil {
				delete(dir.children, parts[len(parts)-1])
			}
		}
	}
	for i := 0; i < n && i < len(log); i++ {
		apply(log[i], -1)
	}
	if torn >= 0 && n < len(log) && log[n].Kind == OpWrite {
		apply(log[n], torn)
	}
	// keep inode allocation disjoint from the image's inodes
	for ino := range f.inodes {
		if ino >= f.nextIno {
			f.nextIno = ino + 1
		}
	}
	f.NoLog = false
	f.nextIno += 1000
	return f
}

// Dump returns path -> content for every regular file (for provenance checks/debugging).
func (f *FS) Dump() map[string][]byte {
	f.mu.Lock()
	defer f.mu.Unlock()
	out := map[string][]byte{}
	var walk func(p string, n *node)
	walk = func(p string, n *node) {
		if !n.isDir {
			out[p] = append([]byte(nil), n.data...)
			return
		}
		for name, c := range n.children {
			walk(p+"/"+name, c)
		}
	}
	walk("", f.root)
	return out
}

// FlipByte flips one stored byte of the file at path (bit-rot fault). Returns false if
// the file does not exist or is empty.
func (f *FS) FlipByte(p string, off int64, mask byte) bool {
	f.mu.Lock()
	defer f.mu.Unlock()
	n := f.lookup(clean(p))
	if n == nil || n.isDir || len(n.data) == 0 {
		return false
	}
	n.data[int(off)%len(n.data)] ^= mask
	return true
}
