// Package simsync is a drop-in for "sync" injected by the overlay: Mutex/RWMutex block
// on channels (durably blocked for testing/synctest, which a real sync.Mutex is not) and
// every Lock/RLock is a scheduler yield point. FIFO, writer-preferring like the runtime.
// WaitGroup, Cond, Pool and Map stay the real types (they block durably in a bubble).
package simsync

import (
	"runtime"
	"strconv"
	"strings"
	"sync"

	"verifsim/sim"
)

type (
	WaitGroup = sync.WaitGroup
	Map       = sync.Map
	Pool      = sync.Pool
	Cond      = sync.Cond
	Locker    = sync.Locker
)

func NewCond(l Locker) *Cond { return sync.NewCond(l) }

type waiter struct {
	writer bool
	ch     chan struct{}
}

type RWMutex struct {
	mu      sync.Mutex
	readers int
	writer  bool
	q       []*waiter
}

func (m *RWMutex) Lock() {
	sim.Yield(sim.ClassLock, lbl("Lock"))
	m.mu.Lock()
	if !m.writer && m.readers == 0 && len(m.q) == 0 {
		m.writer = true
		m.mu.Unlock()
		return
	}
	w := &waiter{writer: true, ch: make(chan struct{})}
	m.q = append(m.q, w)
	m.mu.Unlock()
	<-w.ch
}

func (m *RWMutex) TryLock() bool {
	sim.Yield(sim.ClassLock, lbl("TryLock"))
	m.mu.Lock()
	defer m.mu.Unlock()
	if !m.writer && m.readers == 0 && len(m.q) == 0 {
		m.writer = true
		return true
	}
	return false
}

func (m *RWMutex) Unlock() {
	m.mu.Lock()
	if !m.writer {
		m.mu.Unlock()
		panic("sync: Unlock of unlocked RWMutex")
	}
	m.writer = false
	m.grant()
	m.mu.Unlock()
}

func (m *RWMutex) RLock() {
	sim.Yield(sim.ClassLock, lbl("RLock"))
	m.mu.Lock()
	if !m.writer && len(m.q) == 0 {
		m.readers++
		m.mu.Unlock()
		return
	}
	w := &waiter{ch: make(chan struct{})}
	m.q = append(m.q, w)
	m.mu.Unlock()
	<-w.ch
}

func (m *RWMutex) TryRLock() bool {
	sim.Yield(sim.ClassLock, lbl("TryRLock"))
	m.mu.Lock()
	defer m.mu.Unlock()
	if !m.writer && len(m.q) == 0 {
		m.readers++
		return true
	}
	return false
}

func (m *RWMutex) RUnlock() {
	m.mu.Lock()
	if m.readers <= 0 {
		m.mu.Unlock()
		panic("sync: RUnlock of unlocked RWMutex")
	}
	m.readers--
	if m.readers == 0 {
		m.grant()
	}
	m.mu.Unlock()
}

func (m *RWMutex) RLocker() Locker { return (*rlocker)(m) }

type rlocker RWMutex

func (r *rlocker) Lock()   { (*RWMutex)(r).RLock() }
func (r *rlocker) Unlock() { (*RWMutex)(r).RUnlock() }

// grant hands the lock to the head of the FIFO queue (all leading readers, or one writer).
func (m *RWMutex) grant() {
	for len(m.q) > 0 {
		h := m.q[0]
		if h.writer {
			if m.readers == 0 && !m.writer {
				m.writer = true
				m.q = m.q[1:]
				close(h.ch)
			}
			return
		}
		if m.writer {
			return
		}
		m.readers++
		m.q = m.q[1:]
		close(h.ch)
	}
}

type Mutex struct{ rw RWMutex }

func (m *Mutex) Lock()         { m.rw.Lock() }
func (m *Mutex) Unlock()       { m.rw.Unlock() }
func (m *Mutex) TryLock() bool { return m.rw.TryLock() }

// Once is reimplemented on the channel mutex: the real one holds a sync.Mutex while f
// runs, so a second caller would block non-durably if f parks at a yield point.
type Once struct {
	mu   Mutex
	done bool
}

func (o *Once) Do(f func()) {
	o.mu.Lock()
	defer o.mu.Unlock()
	if o.done {
		return
	}
	defer func() { o.done = true }()
	f()
}

func OnceFunc(f func()) func() {
	var o Once
	return func() { o.Do(f) }
}

func OnceValue[T any](f func() T) func() T {
	var (
		o Once
		v T
	)
	return func() T { o.Do(func() { v = f() }); return v }
}

func OnceValues[T1, T2 any](f func() (T1, T2)) func() (T1, T2) {
	var (
		o  Once
		v1 T1
		v2 T2
	)
	return func() (T1, T2) { o.Do(func() { v1, v2 = f() }); return v1, v2 }
}

// lbl adds the caller's position to a lock label when the run keeps a trace (debugging
// aid only: labels never influence decisions).
func lbl(op string) string {
	if s := sim.Current(); s == nil || s.KeepLog == 0 {
		return op
	}
	for skip := 2; skip < 6; skip++ {
		_, file, line, ok := runtime.Caller(skip)
		if !ok {
			break
		}
		if strings.Contains(file, "/simsync/") {
			continue
		}
		if i := strings.LastIndexByte(file, '/'); i >= 0 {
			file = file[i+1:]
		}
		return op + "@" + file + ":" + strconv.Itoa(line)
	}
	return op
}
