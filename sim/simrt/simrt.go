// Package simrt holds the runtime helpers referenced by overlay-rewritten source:
// deterministic (optionally permuted) map key order and channel-operation yields.
package simrt

import (
	"fmt"
	"time"
	"reflect"
	"sort"

	"verifsim/sim"
)

// Unordered counts MapKeys calls on maps whose keys cannot be ordered (pointer,
// interface, chan keys); those stay in runtime order and are reported in evidence.
var Unordered int

// Yield is the yield point inserted before channel operations.
func Yield(label string) { sim.Yield(sim.ClassChan, label) }

// MapKeys returns the keys of m sorted by value and, when the current run explores map
// order, permuted from the run's choice source.
func MapKeys[M ~map[K]V, K comparable, V any](m M) []K {
	keys := make([]K, 0, len(m))
	for k := range m {
		keys = append(keys, k)
	}
	if len(keys) < 2 {
		return keys
	}
	var zero K
	t := reflect.TypeOf(&zero).Elem()
	switch t.Kind() {
	case reflect.Int, reflect.Int8, reflect.Int16, reflect.Int32, reflect.Int64:
		sort.Slice(keys, func(i, j int) bool { return reflect.ValueOf(keys[i]).Int() < reflect.ValueOf(keys[j]).Int() })
	case reflect.Uint, reflect.Uint8, reflect.Uint16, reflect.Uint32, reflect.Uint64, reflect.Uintptr:
		sort.Slice(keys, func(i, j int) bool { return reflect.ValueOf(keys[i]).Uint() < reflect.ValueOf(keys[j]).Uint() })
	case reflect.String:
		sort.Slice(keys, func(i, j int) bool { return reflect.ValueOf(keys[i]).String() < reflect.ValueOf(keys[j]).String() })
	case reflect.Float32, reflect.Float64:
		sort.Slice(keys, func(i, j int) bool { return reflect.ValueOf(keys[i]).Float() < reflect.ValueOf(keys[j]).Float() })
	case reflect.Struct, reflect.Array, reflect.Bool:
		if hasPointers(t) {
			Unordered++
			sortByIdentity(keys)
			break
		}
		sort.Slice(keys, func(i, j int) bool { return fmt.Sprintf("%#v", keys[i]) < fmt.Sprintf("%#v", keys[j]) })
	default:
		// Pointer, interface, chan keys: the runtime's iteration order starts at a
		// random slot (two entries swap with probability about 1/8), which no replay
		// can reproduce. Order them by identity (address) instead: with the collector
		// held off inside a case, addresses follow allocation order and are the same
		// in every run of the same case.
		Unordered++
		sortByIdentity(keys)
	}
	if s := sim.Current(); s != nil && s.Cfg.ShuffleMaps {
		for i := len(keys) - 1; i > 0; i-- {
			j := s.Ch.Intn(i + 1)
			keys[i], keys[j] = keys[j], keys[i]
		}
	} else if ShuffleHook != nil {
		ShuffleHook(len(keys), func(i, j int) { keys[i], keys[j] = keys[j], keys[i] })
	}
	return keys
}

func sortByIdentity[K comparable](keys []K) {
	ids := make([]string, len(keys))
	for i := range keys {
		ids[i] = identity(reflect.ValueOf(&keys[i]).Elem())
	}
	idx := make([]int, len(keys))
	for i := range idx {
		idx[i] = i
	}
	sort.SliceStable(idx, func(a, b int) bool { return ids[idx[a]] < ids[idx[b]] })
	out := make([]K, len(keys))
	for i, j := range idx {
		out[i] = keys[j]
	}
	copy(keys, out)
}

func identity(v reflect.Value) string {
	switch v.Kind() {
	case reflect.Pointer, reflect.Chan, reflect.Func, reflect.UnsafePointer, reflect.Map:
		return fmt.Sprintf("p%016x", v.Pointer())
	case reflect.Interface:
		if v.IsNil() {
			return "nil"
		}
		return v.Elem().Type().String() + ":" + identity(v.Elem())
	case reflect.Struct:
		s := "{"
		for i := 0; i < v.NumField(); i++ {
			s += identity(v.Field(i)) + ","
		}
		return s + "}"
	case reflect.Array:
		s := "["
		for i := 0; i < v.Len(); i++ {
			s += identity(v.Index(i)) + ","
		}
		return s + "]"
	case reflect.Int, reflect.Int8, reflect.Int16, reflect.Int32, reflect.Int64:
		return fmt.Sprintf("i%020d", uint64(v.Int())+1<<63)
	case reflect.Uint, reflect.Uint8, reflect.Uint16, reflect.Uint32, reflect.Uint64, reflect.Uintptr:
		return fmt.Sprintf("u%020d", v.Uint())
	case reflect.String:
		return "s" + v.String()
	case reflect.Bool:
		if v.Bool() {
			return "b1"
		}
		return "b0"
	case reflect.Float32, reflect.Float64:
		return fmt.Sprintf("f%v", v.Float())
	case reflect.Complex64, reflect.Complex128:
		return fmt.Sprintf("c%v", v.Complex())
	case reflect.Slice:
		return fmt.Sprintf("p%016x/%d", v.Pointer(), v.Len())
	}
	return "?"
}

// ShuffleHook lets op-tier harnesses (no scheduler installed) explore map order.
var ShuffleHook func(n int, swap func(i, j int))

func hasPointers(t reflect.Type) bool {
	switch t.Kind() {
	case reflect.Pointer, reflect.Interface, reflect.Chan, reflect.UnsafePointer, reflect.Func, reflect.Map, reflect.Slice:
		return true
	case reflect.Struct:
		for i := 0; i < t.NumField(); i++ {
			if hasPointers(t.Field(i).Type) {
				return true
			}
		}
	case reflect.Array:
		return hasPointers(t.Elem())
	}
	return false
}

// KV is one entry of a map snapshot.
type KV[K comparable, V any] struct {
	K K
	V V
}

// MapItems returns a snapshot of m in MapKeys order (used where the ranged expression is
// not a plain variable and must be evaluated exactly once).
func MapItems[M ~map[K]V, K comparable, V any](m M) []KV[K, V] {
	keys := MapKeys(m)
	out := make([]KV[K, V], 0, len(keys))
	for _, k := range keys {
		out = append(out, KV[K, V]{k, m[k]})
	}
	return out
}

// TryRecvIf is used by the detselect overlay pass: when cond holds it performs a
// non-blocking receive from c. got reports whether a value (or the closed-channel zero
// value, ok=false) was received.
func TryRecvIf[T any](cond bool, c <-chan T) (v T, ok bool, got bool) {
	if !cond {
		return
	}
	select {
	case v, ok = <-c:
		return v, ok, true
	default:
		return
	}
}

// TrySendIf performs a non-blocking send when cond holds and reports whether it happened.
func TrySendIf[T any](cond bool, c chan<- T, v T) bool {
	if !cond {
		return false
	}
	select {
	case c <- v:
		return true
	default:
		return false
	}
}

// UniqueDur returns d, lengthened by the few nanoseconds needed for now+d to be an expiry
// no other timer of the current run has (see the dettimer overlay pass). Without an
// installed scheduler it returns d unchanged.
func UniqueDur(d time.Duration) time.Duration {
	s := sim.Current()
	if s == nil || d <= 0 {
		return d
	}
	now := time.Now().UnixNano()
	return time.Duration(s.UniqueWhen(now+int64(d)) - now)
}

// UniqueTime is UniqueDur for an absolute deadline.
func UniqueTime(t time.Time) time.Time {
	s := sim.Current()
	if s == nil || t.IsZero() {
		return t
	}
	w := t.UnixNano()
	return t.Add(time.Duration(s.UniqueWhen(w) - w))
}
