// Package simrt holds the runtime helpers referenced by overlay-rewritten source:
// deterministic (optionally permuted) map key order and channel-operation yields.
package simrt

import (
	"fmt"
	"reflect"
	"sort"

	"verifsim/sim"
)

// Unordered counts MapKeys calls on maps whose keys cannot be ordered (pointer,
// interface, chan keys); those stay in runtime order and are reported in evidence.
var Unordered int

// Yield is the yield point inserted before channel operations.
func Yield(label string) { sim.Yield(sim.ClassChan, label) }

// MapKeys returns the keys of m sorted by value and, when the current run explores map
// order, permuted from the run's choice source.
func MapKeys[M ~map[K]V, K comparable, V any](m M) []K {
	keys := make([]K, 0, len(m))
	for k := range m {
		keys = append(keys, k)
	}
	if len(keys) < 2 {
		return keys
	}
	var zero K
	t := reflect.TypeOf(&zero).Elem()
	switch t.Kind() {
	case reflect.Int, reflect.Int8, reflect.Int16, reflect.Int32, reflect.Int64:
		sort.Slice(keys, func(i, j int) bool { return reflect.ValueOf(keys[i]).Int() < reflect.ValueOf(keys[j]).Int() })
	case reflect.Uint, reflect.Uint8, reflect.Uint16, reflect.Uint32, reflect.Uint64, reflect.Uintptr:
		sort.Slice(keys, func(i, j int) bool { return reflect.ValueOf(keys[i]).Uint() < reflect.ValueOf(keys[j]).Uint() })
	case reflect.String:
		sort.Slice(keys, func(i, j int) bool { return reflect.ValueOf(keys[i]).String() < reflect.ValueOf(keys[j]).String() })
	case reflect.Float32, reflect.Float64:
		sort.Slice(keys, func(i, j int) bool { return reflect.ValueOf(keys[i]).Float() < reflect.ValueOf(keys[j]).Float() })
	case reflect.Struct, reflect.Array, reflect.Bool:
		if hasPointers(t) {
			Unordered++
			return keys
		}
		sort.Slice(keys, func(i, j int) bool { return fmt.Sprintf("%#v", keys[i]) < fmt.Sprintf("%#v", keys[j]) })
	default:
		Unordered++
		return keys
	}
	if s := sim.Current(); s != nil && s.Cfg.ShuffleMaps {
		for i := len(keys) - 1; i > 0; i-- {
			j := s.Ch.Intn(i + 1)
			keys[i], keys[j] = keys[j], keys[i]
		}
	} else if ShuffleHook != nil {
		ShuffleHook(len(keys), func(i, j int) { keys[i], keys[j] = keys[j], keys[i] })
	}
	return keys
}

// ShuffleHook lets op-tier harnesses (no scheduler installed) explore map order.
var ShuffleHook func(n int, swap func(i, j int))

func hasPointers(t reflect.Type) bool {
	switch t.Kind() {
	case reflect.Pointer, reflect.Interface, reflect.Chan, reflect.UnsafePointer, reflect.Func, reflect.Map, reflect.Slice:
		return true
	case reflect.Struct:
		for i := 0; i < t.NumField(); i++ {
			if hasPointers(t.Field(i).Type) {
				return true
			}
		}
	case reflect.Array:
		return hasPointers(t.Elem())
	}
	return false
}

// KV is one entry of a map snapshot.
type KV[K comparable, V any] struct {
	K K
	V V
}

// MapItems returns a snapshot of m in MapKeys order (used where the ranged expression is
// not a plain variable and must be evaluated exactly once).
func MapItems[M ~map[K]V, K comparable, V any](m M) []KV[K, V] {
	keys := MapKeys(m)
	out := make([]KV[K, V], 0, len(keys))
	for _, k := range keys {
		out = append(out, KV[K, V]{k, m[k]})
	}
	return out
}
