// Package gates is the reference model for control authority (C05): per region, open
// gates ordered by (authority descending, open order ascending); the first is in
// control. Written from the property statement; it mirrors no implementation detail.
package gates

import (
	"fmt"
	"sort"
	"strings"
)

type State struct {
	Subject string
	Auth    int
}

// Transfer is the reported change of controller; nil From = acquisition, nil To = release.
type Transfer struct {
	From, To *State
}

func (t Transfer) Occurred() bool {
	if t.From != nil && t.To != nil {
		return *t.From != *t.To
	}
	return t.From != nil || t.To != nil
}

func (t Transfer) String() string {
	f, o := "nil", "nil"
	if t.From != nil {
		f = fmt.Sprintf("%s(%d)", t.From.Subject, t.From.Auth)
	}
	if t.To != nil {
		o = fmt.Sprintf("%s(%d)", t.To.Subject, t.To.Auth)
	}
	return f + "->" + o
}

// Equal compares two transfers as reports: both not-occurred are equal regardless of
// their fields.
func (t Transfer) Equal(u Transfer) bool {
	if !t.Occurred() && !u.Occurred() {
		return true
	}
	eq := func(a, b *State) bool {
		if a == nil || b == nil {
			return a == b
		}
		return *a == *b
	}
	return eq(t.From, u.From) && eq(t.To, u.To)
}

type Gate struct {
	ID      int
	Subject string
	Auth    int
	Pos     int
	Start   int64
	End     int64
}

type Region struct {
	Start, End int64
	Gates      []*Gate
	counter    int
}

type Model struct {
	Shared  bool
	Regions []*Region
}

func (r *Region) holder() *Gate {
	var best *Gate
	for _, g := range r.Gates {
		if best == nil || g.Auth > best.Auth || (g.Auth == best.Auth && g.Pos < best.Pos) {
			best = g
		}
	}
	return best
}

func st(g *Gate) *State {
	if g == nil {
		return nil
	}
	return &State{Subject: g.Subject, Auth: g.Auth}
}

func (m *Model) regionOf(id int) (*Region, *Gate) {
	for _, r := range m.Regions {
		for _, g := range r.Gates {
			if g.ID == id {
				return r, g
			}
		}
	}
	return nil, nil
}

// Overlapping returns the regions whose range overlaps [a,b).
func (m *Model) Overlapping(a, b int64) []*Region {
	var out []*Region
	for _, r := range m.Regions {
		if a < r.End && r.Start < b {
			out = append(out, r)
		}
	}
	return out
}

// Open result kinds: "ok", "unauthorized" (ErrIfControlled / ErrOnUnauthorizedOpen),
// "duplicate-subject", "multi-region".
func (m *Model) Open(id int, subject string, auth int, a, b int64, errIfControlled, errOnUnauthorized bool) (string, Transfer) {
	regs := m.Overlapping(a, b)
	if len(regs) > 1 {
		return "multi-region", Transfer{}
	}
	var r *Region
	if len(regs) == 1 {
		r = regs[0]
	}
	if r != nil {
		if errIfControlled && r.holder() != nil {
			return "unauthorized", Transfer{}
		}
		for _, g := range r.Gates {
			if g.Subject == subject {
				return "duplicate-subject", Transfer{}
			}
		}
	}
	var prev *Gate
	if r != nil {
		prev = r.holder()
	}
	takes := prev == nil || auth > prev.Auth
	if !takes && errOnUnauthorized && (!m.Shared || auth != prev.Auth) {
		return "unauthorized", Transfer{}
	}
	if r == nil {
		r = &Region{Start: a, End: b}
		m.Regions = append(m.Regions, r)
		sort.SliceStable(m.Regions, func(i, j int) bool { return m.Regions[i].Start < m.Regions[j].Start })
	}
	g := &Gate{ID: id, Subject: subject, Auth: auth, Pos: r.counter, Start: a, End: b}
	r.counter++
	if a < r.Start {
		r.Start = a
	}
	if b > r.End {
		r.End = b
	}
	r.Gates = append(r.Gates, g)
	var t Transfer
	if takes {
		t = Transfer{From: st(prev), To: st(g)}
	}
	return "ok", t
}

func (m *Model) SetAuthority(id, auth int) Transfer {
	r, g := m.regionOf(id)
	if r == nil {
		return Transfer{}
	}
	before := r.holder()
	bs := st(before)
	g.Auth = auth
	after := r.holder()
	return Transfer{From: bs, To: st(after)}
}

func (m *Model) Release(id int) Transfer {
	r, g := m.regionOf(id)
	if r == nil {
		return Transfer{}
	}
	before := r.holder()
	bs := st(before)
	for i, x := range r.Gates {
		if x == g {
			r.Gates = append(r.Gates[:i], r.Gates[i+1:]...)
			break
		}
	}
	after := r.holder()
	if len(r.Gates) == 0 {
		for i, x := range m.Regions {
			if x == r {
				m.Regions = append(m.Regions[:i], m.Regions[i+1:]...)
				break
			}
		}
	}
	if before != g {
		return Transfer{}
	}
	return Transfer{From: bs, To: st(after)}
}

// Authorized reports whether gate id may write now.
func (m *Model) Authorized(id int) bool {
	r, g := m.regionOf(id)
	if r == nil {
		return false
	}
	h := r.holder()
	if m.Shared {
		return g.Auth >= h.Auth
	}
	return h == g
}

// Has reports whether the gate is open.
func (m *Model) Has(id int) bool { _, g := m.regionOf(id); return g != nil }

// Leading is the controller of the earliest region.
func (m *Model) Leading() *State {
	if len(m.Regions) == 0 {
		return nil
	}
	return st(m.Regions[0].holder())
}

// Encode is a canonical string of the state (porcupine state equality / caching).
func (m *Model) Encode() string {
	var sb strings.Builder
	if m.Shared {
		sb.WriteString("S|")
	}
	for _, r := range m.Regions {
		fmt.Fprintf(&sb, "R[%d,%d)c%d:", r.Start, r.End, r.counter)
		gs := append([]*Gate(nil), r.Gates...)
		sort.Slice(gs, func(i, j int) bool { return gs[i].ID < gs[j].ID })
		for _, g := range gs {
			fmt.Fprintf(&sb, "%d/%s/%d/%d;", g.ID, g.Subject, g.Auth, g.Pos)
		}
		sb.WriteByte('|')
	}
	return sb.String()
}

// Clone deep-copies the model.
func (m *Model) Clone() *Model {
	c := &Model{Shared: m.Shared}
	for _, r := range m.Regions {
		nr := &Region{Start: r.Start, End: r.End, counter: r.counter}
		for _, g := range r.Gates {
			ng := *g
			nr.Gates = append(nr.Gates, &ng)
		}
		c.Regions = append(c.Regions, nr)
	}
	return c
}
