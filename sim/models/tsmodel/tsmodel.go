// Package tsmodel is the reference model for a time-series store: per channel, a map
// from index timestamp to the exact bytes committed for that timestamp. Written from the
// property statements (C01, C04); it mirrors nothing of cesium's layout.
package tsmodel

import (
	"bytes"
	"fmt"
	"sort"
)

type Sample struct {
	TS  int64  `json:"ts"`
	Val []byte `json:"v"`
}

type Channel struct {
	Key     uint32
	Index   uint32 // key of the index channel (== Key for an index channel)
	IsIndex bool
	s       []Sample // sorted by TS, unique
}

type Model struct {
	Chans map[uint32]*Channel
}

func New() *Model { return &Model{Chans: map[uint32]*Channel{}} }

func (m *Model) Add(key, index uint32, isIndex bool) {
	m.Chans[key] = &Channel{Key: key, Index: index, IsIndex: isIndex}
}

func (m *Model) Remove(key uint32) { delete(m.Chans, key) }

// Clone returns a deep copy (sample byte slices are shared; they are never mutated).
func (m *Model) Clone() *Model {
	c := New()
	for k, ch := range m.Chans {
		n := *ch
		n.s = append([]Sample(nil), ch.s...)
		c.Chans[k] = &n
	}
	return c
}

// Commit makes samples visible. It returns an error if a timestamp is already present
// (the caller generated an illegal script).
func (m *Model) Commit(key uint32, samples []Sample) error {
	ch := m.Chans[key]
	if ch == nil {
		return fmt.Errorf("model: no channel %d", key)
	}
	for _, s := range samples {
		i := sort.Search(len(ch.s), func(i int) bool { return ch.s[i].TS >= s.TS })
		if i < len(ch.s) && ch.s[i].TS == s.TS {
			return fmt.Errorf("model: channel %d already has a sample at %d", key, s.TS)
		}
		ch.s = append(ch.s, Sample{})
		copy(ch.s[i+1:], ch.s[i:])
		ch.s[i] = s
	}
	return nil
}

// Read returns the committed samples with a <= TS < b, ascending.
func (m *Model) Read(key uint32, a, b int64) []Sample {
	ch := m.Chans[key]
	if ch == nil {
		return nil
	}
	i := sort.Search(len(ch.s), func(i int) bool { return ch.s[i].TS >= a })
	j := sort.Search(len(ch.s), func(i int) bool { return ch.s[i].TS >= b })
	if j < i {
		return nil
	}
	return ch.s[i:j]
}

// All returns every committed sample of the channel.
func (m *Model) All(key uint32) []Sample {
	if ch := m.Chans[key]; ch != nil {
		return ch.s
	}
	return nil
}

// Delete removes the samples with a <= TS < b and reports how many were removed.
func (m *Model) Delete(key uint32, a, b int64) int {
	ch := m.Chans[key]
	if ch == nil {
		return 0
	}
	i := sort.Search(len(ch.s), func(i int) bool { return ch.s[i].TS >= a })
	j := sort.Search(len(ch.s), func(i int) bool { return ch.s[i].TS >= b })
	if j <= i {
		return 0
	}
	ch.s = append(ch.s[:i:i], ch.s[j:]...)
	return j - i
}

// Count returns the number of samples in [a,b).
func (m *Model) Count(key uint32, a, b int64) int { return len(m.Read(key, a, b)) }

// Equal compares two sample lists.
func Equal(x, y []Sample) bool {
	if len(x) != len(y) {
		return false
	}
	for i := range x {
		if x[i].TS != y[i].TS || !bytes.Equal(x[i].Val, y[i].Val) {
			return false
		}
	}
	return true
}

// Diff describes the first difference between want and got (for messages).
func Diff(want, got []Sample) string {
	n := len(want)
	if len(got) < n {
		n = len(got)
	}
	for i := 0; i < n; i++ {
		if want[i].TS != got[i].TS || !bytes.Equal(want[i].Val, got[i].Val) {
			return fmt.Sprintf("sample %d: want (ts=%d,%x) got (ts=%d,%x) [want %d samples, got %d]", i, want[i].TS, want[i].Val, got[i].TS, got[i].Val, len(want), len(got))
		}
	}
	if len(want) != len(got) {
		if len(want) > len(got) {
			return fmt.Sprintf("missing sample %d: want (ts=%d,%x) [want %d samples, got %d]", n, want[n].TS, want[n].Val, len(want), len(got))
		}
		return fmt.Sprintf("extra sample %d: got (ts=%d,%x) [want %d samples, got %d]", n, got[n].TS, got[n].Val, len(want), len(got))
	}
	return ""
}
