// Package drv is the worker-side driver shared by all harnesses: it turns an engine
// (generator + executor + oracle) into a seeded, time-bounded search with shrinking
// (rapid is the only source of generated choices), writes replay files for failures,
// re-executes replay files, and reports statistics for the evidence file.
package drv

import (
	"encoding/json"
	"flag"
	"fmt"
	"hash/fnv"
	"os"
	"path/filepath"
	"regexp"
	"runtime"
	"runtime/debug"
	"sort"
	"strconv"
	"strings"
	"testing"
	"time"

	"pgregory.net/rapid"
)

// Failure is an oracle verdict against the real code.
type Failure struct {
	// Class is the oracle that failed (stable identifier, e.g. "read-mismatch").
	Class string `json:"class"`
	// Sig is a structural signature of the failing history used to match known
	// findings (never the full message).
	Sig string `json:"sig"`
	Msg string `json:"msg"`
	// TraceHash is the hash of the run's event trace; replay must reproduce it.
	TraceHash string `json:"trace_hash,omitempty"`
}

func Failf(class, sig, format string, args ...any) *Failure {
	return &Failure{Class: class, Sig: sig, Msg: fmt.Sprintf(format, args...)}
}

// Stats accumulates what the worker actually did.
type Stats struct {
	Evaluations  int64             `json:"evaluations"`
	NonTrivial   int64             `json:"nontrivial"`
	Probes       map[string]int64  `json:"probes"`
	Faults       map[string]int64  `json:"faults"`
	VirtualNS    int64             `json:"virtual_ns"`
	Steps        int64             `json:"steps"`
	Inconclusive map[string]int64  `json:"inconclusive"`
	Known        map[string]int64  `json:"known"`
	Samples      []json.RawMessage `json:"samples"`
	distinct     map[uint64]struct{}
	Distinct     int64 `json:"distinct_nontrivial"`
	DistinctCap  bool  `json:"distinct_capped"`
	WallMS       int64 `json:"wall_ms"`
	Shrinks      int64 `json:"shrink_runs"`
	knownList    []KnownFinding
}

// IsKnown reports whether f matches a recorded known finding (and counts the hit), so
// that an engine enumerating many fault points per case can keep going past it.
func (s *Stats) IsKnown(f *Failure) bool {
	if k := matchKnown(s.knownList, f); k != nil {
		s.Known[k.Class+" "+k.SigRe]++
		return true
	}
	return false
}

func newStats() *Stats {
	return &Stats{Probes: map[string]int64{}, Faults: map[string]int64{}, Inconclusive: map[string]int64{},
		Known: map[string]int64{}, distinct: map[uint64]struct{}{}}
}

func (s *Stats) Probe(name string)          { s.Probes[name]++ }
func (s *Stats) ProbeN(name string, n int)  { s.Probes[name] += int64(n) }
func (s *Stats) Fault(name string)          { s.Faults[name]++ }
func (s *Stats) FaultN(name string, n int)  { s.Faults[name] += int64(n) }
func (s *Stats) Inconcl(name string)        { s.Inconclusive[name]++ }
func (s *Stats) AddVirtual(d time.Duration) { s.VirtualNS += int64(d) }
func (s *Stats) AddSteps(n int)             { s.Steps += int64(n) }

// Case marks the end of one executed case. shape identifies the case up to what makes
// it distinct (script shape + schedule/fault trace); nontrivial follows the engine's
// stated rule.
func (s *Stats) Case(shape uint64, nontrivial bool) {
	if hashLog != nil {
		fmt.Fprintf(hashLog, "%x\n", shape)
	}
	if !nontrivial {
		return
	}
	s.NonTrivial++
	if len(s.distinct) < 4_000_000 {
		s.distinct[shape] = struct{}{}
	} else {
		s.DistinctCap = true
	}
}

// Hash64 hashes strings into a shape.
func Hash64(parts ...string) uint64 {
	h := fnv.New64a()
	for _, p := range parts {
		h.Write([]byte(p))
		h.Write([]byte{0})
	}
	return h.Sum64()
}

// Known finding matcher (read-only; the file is committed under /verif).
type KnownFinding struct {
	Property string `json:"property"`
	Class    string `json:"class"`
	SigRe    string `json:"sig_regex"`
	What     string `json:"what"`
	Status   string `json:"status"` // "known" suppresses; "fixed" suppresses nothing
	// AlsoFor lists other properties whose engines reach the same defect through shared
	// machinery (e.g. C02 and C10 build their layouts with C04's deletes).
	AlsoFor []string `json:"also_for,omitempty"`
	re       *regexp.Regexp
}

type knownFile struct {
	Findings []KnownFinding `json:"findings"`
}

func loadKnown(prop string) []KnownFinding {
	p := os.Getenv("VERIF_KNOWN")
	if p == "" {
		return nil
	}
	b, err := os.ReadFile(p)
	if err != nil {
		return nil
	}
	var kf knownFile
	if err := json.Unmarshal(b, &kf); err != nil {
		fmt.Fprintln(os.Stderr, "drv: bad known findings file:", err)
		os.Exit(2)
	}
	var out []KnownFinding
	for _, k := range kf.Findings {
		applies := k.Property == prop
		for _, a := range k.AlsoFor {
			if a == prop {
				applies = true
			}
		}
		if !applies || k.Status != "known" {
			continue
		}
		k.re = regexp.MustCompile(k.SigRe)
		out = append(out, k)
	}
	return out
}

func matchKnown(ks []KnownFinding, f *Failure) *KnownFinding {
	for i := range ks {
		if (ks[i].Class == "" || ks[i].Class == f.Class) && ks[i].re.MatchString(f.Sig) {
			return &ks[i]
		}
	}
	return nil
}

// Engine describes one simulated check.
type Engine[C any] struct {
	// Property id (C01 ...).
	Property string
	// Name of the engine variant (a property may run several).
	Name string
	// Gen draws a complete case (script, configuration, fault plan, scheduler seed)
	// from rapid. Nothing is drawn after Gen returns.
	Gen func(t *rapid.T) C
	// Run executes the case against the real code and evaluates the oracles.
	Run func(t *testing.T, c C, st *Stats) *Failure
	// Weight is the relative share of the worker's budget (default 1).
	Weight int
	// BatchChecks is the number of cases per rapid.Check call (default 200).
	BatchChecks int
	// GCEvery: collect garbage between cases every this many cases (default 32; 1 for
	// engines whose cases allocate a lot).
	GCEvery int
}

// Runner is an engine adapted for Main.
type Runner = runner

type runner interface {
	prop() string
	name() string
	weight() int
	batch(t *testing.T, seed uint64, st *Stats, known []KnownFinding) *found
	replay(t *testing.T, raw json.RawMessage, st *Stats) *Failure
}

type found struct {
	caseJSON json.RawMessage
	fail     *Failure
}

func (e Engine[C]) prop() string { return e.Property }
func (e Engine[C]) name() string { return e.Name }
func (e Engine[C]) weight() int {
	if e.Weight <= 0 {
		return 1
	}
	return e.Weight
}

// hashLog, when VERIF_HASHLOG names a file, receives one line per executed case with the
// case's shape/trace hash (determinism self-test: two runs of the same seed must produce
// identical files).
var hashLog = func() *os.File {
	p := os.Getenv("VERIF_HASHLOG")
	if p == "" {
		return nil
	}
	f, err := os.OpenFile(p, os.O_CREATE|os.O_WRONLY|os.O_TRUNC, 0o644)
	if err != nil {
		return nil
	}
	return f
}()

// collectDir, when set through VERIF_COLLECT, turns failures into a signature histogram.
var collectDir = os.Getenv("VERIF_COLLECT")

// fakeTB absorbs rapid's reporting so failures become values.
type fakeTB struct {
	failed bool
	logs   []string
}

func (f *fakeTB) Helper()      {}
func (f *fakeTB) Name() string { return "verif" }
func (f *fakeTB) Logf(format string, args ...any) {
	f.logs = append(f.logs, fmt.Sprintf(format, args...))
}
func (f *fakeTB) Log(args ...any)                   { f.logs = append(f.logs, fmt.Sprint(args...)) }
func (f *fakeTB) Skipf(format string, args ...any)  { panic("skip") }
func (f *fakeTB) Skip(args ...any)                  { panic("skip") }
func (f *fakeTB) SkipNow()                          { panic("skip") }
func (f *fakeTB) Errorf(format string, args ...any) { f.failed = true; f.Logf(format, args...) }
func (f *fakeTB) Error(args ...any)                 { f.failed = true; f.Log(args...) }
func (f *fakeTB) Fatalf(format string, args ...any) { f.failed = true; f.Logf(format, args...) }
func (f *fakeTB) Fatal(args ...any)                 { f.failed = true; f.Log(args...) }
func (f *fakeTB) FailNow()                          { f.failed = true }
func (f *fakeTB) Fail()                             { f.failed = true }
func (f *fakeTB) Failed() bool                      { return f.failed }

// The garbage collector is a scheduling input the simulation does not own: a cycle
// that starts inside a case preempts whichever goroutine is running and reorders the
// goroutines that are runnable between two scheduler decisions, and when it starts
// depends on heap size (including the size of the binary's globals). Workers therefore
// turn the pacer off and collect only between cases, every GCEvery cases; a soft memory
// limit is the safety net (reaching it collects inside a case, which is only a loss of
// replay fidelity for that case, never a verdict).
var gcManual bool
var sinceGC int

func gcSetup() {
	if os.Getenv("VERIF_GC") == "auto" {
		return
	}
	gcManual = true
	debug.SetGCPercent(-1)
	debug.SetMemoryLimit(5 << 30)
}

func gcTick(every int) {
	if !gcManual {
		return
	}
	if every <= 0 {
		every = 32
	}
	sinceGC++
	if sinceGC >= every {
		sinceGC = 0
		runtime.GC()
	}
}

func safeRun[C any](e Engine[C], t *testing.T, c C, st *Stats) (fail *Failure) {
	gcTick(e.GCEvery)
	defer func() {
		if r := recover(); r != nil {
			fail = &Failure{Class: "panic", Sig: firstLine(fmt.Sprint(r)), Msg: fmt.Sprintf("panic: %v\n%s", r, trim(string(debug.Stack()), 60))}
		}
	}()
	return e.Run(t, c, st)
}

func firstLine(s string) string {
	if i := strings.IndexByte(s, '\n'); i >= 0 {
		return s[:i]
	}
	return s
}

func trim(s string, lines int) string {
	l := strings.Split(s, "\n")
	if len(l) > lines {
		l = l[:lines]
	}
	return strings.Join(l, "\n")
}

func (e Engine[C]) batch(t *testing.T, seed uint64, st *Stats, known []KnownFinding) *found {
	n := e.BatchChecks
	if n <= 0 {
		n = 200
	}
	_ = flag.Set("rapid.checks", strconv.Itoa(n))
	_ = flag.Set("rapid.seed", strconv.FormatUint(seed|1, 10))
	_ = flag.Set("rapid.nofailfile", "true")
	var last *found
	searching := true
	tb := &fakeTB{}
	rapid.Check(tb, func(rt *rapid.T) {
		c := e.Gen(rt)
		if !searching {
			st.Shrinks++
		}
		var local *Stats = st
		if !searching {
			// shrink runs must not pollute coverage counters
			local = newStats()
			local.knownList = known
		}
		f := safeRun(e, t, c, local)
		if searching {
			st.Evaluations++
			if len(st.Samples) < 3 {
				if b, err := json.Marshal(c); err == nil {
					st.Samples = append(st.Samples, b)
				}
			}
		}
		if f == nil {
			return
		}
		if k := matchKnown(known, f); k != nil && collectDir == "" {
			if searching {
				st.Known[k.Class+" "+k.SigRe]++
			}
			return
		}
		if collectDir != "" {
			// triage mode: histogram of failure signatures, one sample case each
			key := "COLLECT " + f.Class + " " + f.Sig
			st.Known[key]++
			if st.Known[key] == 1 {
				b, _ := json.Marshal(c)
				rf := ReplayFile{Property: e.Property, Engine: e.Name, Failure: f, Case: b}
				rb, _ := json.MarshalIndent(rf, "", " ")
				_ = os.WriteFile(filepath.Join(collectDir, fmt.Sprintf("collect-%s-%x.json", e.Name, Hash64(key))), rb, 0o644)
			}
			return
		}
		searching = false
		b, err := json.Marshal(c)
		if err != nil {
			panic(err)
		}
		last = &found{caseJSON: b, fail: f}
		rt.Fatalf("%s: %s", f.Class, f.Msg)
	})
	if tb.failed && last == nil {
		// rapid itself complained (e.g. could not generate valid cases)
		return &found{fail: &Failure{Class: "harness", Sig: "rapid", Msg: strings.Join(tb.logs, "\n")}}
	}
	return last
}

func (e Engine[C]) replay(t *testing.T, raw json.RawMessage, st *Stats) *Failure {
	var c C
	if err := json.Unmarshal(raw, &c); err != nil {
		return &Failure{Class: "harness", Sig: "bad-replay", Msg: err.Error()}
	}
	return safeRun(e, t, c, st)
}

// ReplayFile is the on-disk format of a reported violation.
type ReplayFile struct {
	Property string          `json:"property"`
	Engine   string          `json:"engine"`
	Seed     uint64          `json:"seed"`
	Worker   int             `json:"worker"`
	Failure  *Failure        `json:"failure"`
	Case     json.RawMessage `json:"case"`
	Note     string          `json:"note,omitempty"`
}

// WorkerResult is what a worker process reports to the check driver.
type WorkerResult struct {
	Property string            `json:"property"`
	Worker   int               `json:"worker"`
	Seed     uint64            `json:"seed"`
	Engines  map[string]*Stats `json:"engines"`
	Replay   string            `json:"replay,omitempty"`
	Failure  *Failure          `json:"failure,omitempty"`
	Engine   string            `json:"engine,omitempty"`
	Harness  string            `json:"harness_error,omitempty"`
	GoMaxP   int               `json:"gomaxprocs"`
	Hashes   []uint64          `json:"-"`
}

func envInt(name string, def int64) int64 {
	v := os.Getenv(name)
	if v == "" {
		return def
	}
	n, err := strconv.ParseInt(v, 10, 64)
	if err != nil {
		fmt.Fprintf(os.Stderr, "drv: bad %s=%q\n", name, v)
		os.Exit(2)
	}
	return n
}

// Wrap adapts a typed engine for Main.
func Wrap[C any](e Engine[C]) runner { return e }

// Main is called from the harness's single Test function.
func Main(t *testing.T, engines ...runner) {
	prop := os.Getenv("VERIF_PROP")
	if prop == "" {
		t.Skip("VERIF_PROP not set: harness is only run by /verif/bin/check")
	}
	gcSetup()
	var sel []runner
	only := map[string]bool{}
	for _, n := range strings.Split(os.Getenv("VERIF_ENGINES"), ",") {
		if n != "" {
			only[n] = true
		}
	}
	for _, e := range engines {
		if e.prop() == prop && (len(only) == 0 || only[e.name()]) {
			sel = append(sel, e)
		}
	}
	if len(sel) == 0 {
		fmt.Fprintf(os.Stderr, "drv: no engine for property %s in this harness\n", prop)
		os.Exit(2)
	}
	out := os.Getenv("VERIF_OUT")
	if out == "" {
		out = os.TempDir()
	}
	worker := int(envInt("VERIF_WORKER", 0))
	seed := uint64(envInt("VERIF_SEED", 1))
	res := &WorkerResult{Property: prop, Worker: worker, Seed: seed, Engines: map[string]*Stats{}, GoMaxP: runtime.GOMAXPROCS(0)}
	writeRes := func() {
		for _, st := range res.Engines {
			st.Distinct = int64(len(st.distinct))
		}
		b, _ := json.MarshalIndent(res, "", " ")
		_ = os.WriteFile(filepath.Join(out, fmt.Sprintf("result-%d.json", worker)), b, 0o644)
		// distinct hashes for cross-worker union
		var hs []string
		for name, st := range res.Engines {
			for h := range st.distinct {
				hs = append(hs, name+":"+strconv.FormatUint(h, 16))
			}
		}
		sort.Strings(hs)
		_ = os.WriteFile(filepath.Join(out, fmt.Sprintf("hashes-%d.txt", worker)), []byte(strings.Join(hs, "\n")), 0o644)
	}

	if rp := os.Getenv("VERIF_REPLAY"); rp != "" {
		b, err := os.ReadFile(rp)
		if err != nil {
			fmt.Fprintln(os.Stderr, "drv: cannot read replay file:", err)
			os.Exit(2)
		}
		var rf ReplayFile
		if err := json.Unmarshal(b, &rf); err != nil {
			fmt.Fprintln(os.Stderr, "drv: bad replay file:", err)
			os.Exit(2)
		}
		for _, e := range sel {
			if e.name() != rf.Engine {
				continue
			}
			st := newStats()
			st.knownList = loadKnown(prop)
			res.Engines[e.name()] = st
			f := e.replay(t, rf.Case, st)
			if f != nil && matchKnown(st.knownList, f) != nil {
				fmt.Printf("REPLAY-KNOWN class=%s sig=%s\n%s\n", f.Class, f.Sig, f.Msg)
			}
			st.Evaluations = 1
			res.Engine = e.name()
			res.Failure = f
			writeRes()
			if f != nil {
				fmt.Printf("REPLAY-FAIL class=%s sig=%s hash=%s\n%s\n", f.Class, f.Sig, f.TraceHash, f.Msg)
			} else {
				fmt.Println("REPLAY-PASS")
			}
			return
		}
		fmt.Fprintf(os.Stderr, "drv: replay engine %q not in this harness\n", rf.Engine)
		os.Exit(2)
	}

	budget := time.Duration(envInt("VERIF_BUDGET_MS", 5000)) * time.Millisecond
	maxCases := envInt("VERIF_MAXCASES", 0)
	known := loadKnown(prop)
	start := time.Now()
	totalW := 0
	for _, e := range sel {
		totalW += e.weight()
		res.Engines[e.name()] = newStats()
		res.Engines[e.name()].knownList = known
	}
	spent := map[string]time.Duration{}
	rounds := map[string]uint64{}
	for {
		elapsed := time.Since(start)
		if elapsed >= budget {
			break
		}
		var total int64
		for _, st := range res.Engines {
			total += st.Evaluations
		}
		if maxCases > 0 && total >= maxCases {
			break
		}
		// choose the engine furthest behind its share
		var pick runner
		best := 0.0
		for _, e := range sel {
			share := float64(spent[e.name()]+time.Millisecond) / float64(e.weight())
			if maxCases > 0 {
				// bounded runs (determinism self-test) must not depend on wall time
				share = float64(res.Engines[e.name()].Evaluations+1) / float64(e.weight())
			}
			if pick == nil || share < best {
				pick, best = e, share
			}
		}
		st := res.Engines[pick.name()]
		t0 := time.Now()
		// the batch seed depends on the engine's own batch count only, so the cases an
		// engine runs do not depend on how the engines were interleaved
		bseed := seed*1_000_003 + uint64(worker)*7919 + rounds[pick.name()]*104729 + 17 + Hash64(pick.name())%1009
		rounds[pick.name()]++
		fd := pick.batch(t, bseed, st, known)
		spent[pick.name()] += time.Since(t0)
		st.WallMS = spent[pick.name()].Milliseconds()
		if fd != nil {
			res.Engine = pick.name()
			res.Failure = fd.fail
			if fd.fail.Class == "harness" {
				res.Harness = fd.fail.Msg
				writeRes()
				fmt.Fprintln(os.Stderr, "drv: harness error:", fd.fail.Msg)
				os.Exit(2)
			}
			rf := ReplayFile{Property: prop, Engine: pick.name(), Seed: seed, Worker: worker, Failure: fd.fail, Case: fd.caseJSON}
			dir := os.Getenv("VERIF_REPLAY_DIR")
			if dir == "" {
				dir = out
			}
			_ = os.MkdirAll(dir, 0o755)
			path := filepath.Join(dir, fmt.Sprintf("%s-%s-s%d-w%d.json", prop, pick.name(), seed, worker))
			b, _ := json.MarshalIndent(rf, "", " ")
			if err := os.WriteFile(path, b, 0o644); err != nil {
				fmt.Fprintln(os.Stderr, "drv: cannot write replay file:", err)
				os.Exit(2)
			}
			res.Replay = path
			writeRes()
			fmt.Printf("FOUND property=%s engine=%s class=%s replay=%s\n%s\n", prop, pick.name(), fd.fail.Class, path, fd.fail.Msg)
			return
		}
	}
	writeRes()
}
