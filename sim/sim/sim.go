// Package sim is the deterministic goroutine scheduler used inside a testing/synctest
// bubble. Goroutines of the system under test reach yield points (instrumented lock,
// atomic and channel operations, simulated FS / KV / network calls) where they park on
// a private channel. The bubble's root goroutine is the scheduler: it waits for
// quiescence (synctest.Wait), sorts the parked goroutines in creation order and
// releases exactly one, chosen from the choice source. One seed => one schedule.
package sim

import (
	"os"
	"fmt"
	"hash/fnv"
	"runtime"
	"sort"
	"strconv"
	"strings"
	"sync"
	"sync/atomic"
	"testing/synctest"
	"time"
)

// Class is a kind of yield point; a run enables a subset (swarm style).
type Class uint32

const (
	ClassLock Class = 1 << iota
	ClassAtomic
	ClassChan
	ClassFS
	ClassKV
	ClassNet
	ClassTask
	ClassAll Class = 0xffffffff
)

func (c Class) String() string {
	switch c {
	case ClassLock:
		return "lock"
	case ClassAtomic:
		return "atomic"
	case ClassChan:
		return "chan"
	case ClassFS:
		return "fs"
	case ClassKV:
		return "kv"
	case ClassNet:
		return "net"
	case ClassTask:
		return "task"
	}
	return "?"
}

// Strategy selects how the next goroutine is chosen.
type Strategy int

const (
	// StratRandom picks uniformly among parked goroutines.
	StratRandom Strategy = iota
	// StratSticky keeps running the last goroutine while it is parked again, switching
	// with probability 1/SwitchInv (bounded-preemption style).
	StratSticky
	// StratPCT assigns random priorities and demotes the running goroutine at D
	// pre-chosen steps (probabilistic concurrency testing).
	StratPCT
)

// Config is the per-run scheduler configuration; it is part of the replay file.
type Config struct {
	Strategy  Strategy `json:"strategy"`
	Classes   Class    `json:"classes"`
	SwitchInv int      `json:"switch_inv,omitempty"`
	PCTDepth  int      `json:"pct_depth,omitempty"`
	PCTSteps  int      `json:"pct_steps,omitempty"`
	// StallInv > 0: with probability 1/StallInv per decision the scheduler lets virtual
	// time advance by Quantum instead of releasing a parked goroutine (a "slow" system:
	// timers may fire while operations are in flight).
	StallInv int `json:"stall_inv,omitempty"`
	// QuantumNS is the amount of virtual time slept when nothing is runnable.
	QuantumNS int64 `json:"quantum_ns,omitempty"`
	// TickNS: virtual time the root lets pass before every decision (0 = none). Use
	// together with a QuantumNS that is not a multiple of the application's timer grid.
	TickNS int64 `json:"tick_ns,omitempty"`
	// HorizonNS bounds the virtual time a run may sit idle before it is a deadlock.
	HorizonNS int64 `json:"horizon_ns,omitempty"`
	// MaxSteps bounds the number of scheduling decisions.
	MaxSteps int `json:"max_steps,omitempty"`
	// ShuffleMaps permutes map iteration order from the choice source.
	ShuffleMaps bool `json:"shuffle_maps,omitempty"`
}

// Choices is the single source of nondeterministic decisions in a run. Decisions are
// recorded so that a replay does not depend on the generator that produced them.
type Choices struct {
	mu       sync.Mutex
	Seed     uint64
	state    uint64
	Forced   []uint32 // when non-nil, decision j with n options is Forced[j] % n
	Recorded []uint32
	pos      int
}

func NewChoices(seed uint64) *Choices {
	return &Choices{Seed: seed, state: seed*0x9E3779B97F4A7C15 + 0x1234567}
}

// Replay returns a Choices that re-issues a recorded decision list; past its end it
// returns 0 (the first option in stable order).
func Replay(rec []uint32) *Choices {
	if rec == nil {
		rec = []uint32{}
	}
	return &Choices{Forced: rec}
}

func (c *Choices) next() uint64 {
	// splitmix64
	c.state += 0x9E3779B97F4A7C15
	z := c.state
	z = (z ^ (z >> 30)) * 0xBF58476D1CE4E5B9
	z = (z ^ (z >> 27)) * 0x94D049BB133111EB
	return z ^ (z >> 31)
}

// Intn returns a decision in [0,n). n<=1 consumes nothing.
func (c *Choices) Intn(n int) int {
	if n <= 1 {
		return 0
	}
	c.mu.Lock()
	defer c.mu.Unlock()
	var v uint32
	if c.Forced != nil {
		if c.pos < len(c.Forced) {
			v = c.Forced[c.pos] % uint32(n)
		}
		c.pos++
	} else {
		v = uint32(c.next() % uint64(n))
	}
	c.Recorded = append(c.Recorded, v)
	return int(v)
}

// OneIn returns true with probability 1/n (n<=0: never).
func (c *Choices) OneIn(n int) bool {
	if n <= 0 {
		return false
	}
	return c.Intn(n) == 0
}

type parked struct {
	gid   uint64
	rank  int
	class Class
	label string
	ch    chan struct{}
}

// Sched is one run's scheduler.
type Sched struct {
	Cfg     Config
	Ch      *Choices
	mu      sync.Mutex
	parked  []*parked
	ranks   map[uint64]int
	prio    map[int]int
	pctAt   map[int]bool
	last    int
	Steps   int
	Stalls  int
	hash    uint64
	Trace   []string // bounded
	KeepLog int
	ByClass map[Class]int
	MaxPar  int
	quiet   atomic.Bool
	whenMu  sync.Mutex
	whens   map[int64]struct{}
	aborted atomic.Bool
	// Virtual time consumed by idle waits.
	Idle time.Duration
}

var cur atomic.Pointer[Sched]

// New creates a scheduler. It is not installed until Install is called.
func New(cfg Config, ch *Choices) *Sched {
	if cfg.Classes == 0 {
		cfg.Classes = ClassAll
	}
	if cfg.QuantumNS == 0 {
		cfg.QuantumNS = int64(time.Millisecond)
	}
	if cfg.HorizonNS == 0 {
		cfg.HorizonNS = int64(120 * time.Second)
	}
	if cfg.MaxSteps == 0 {
		cfg.MaxSteps = 200000
	}
	s := &Sched{Cfg: cfg, Ch: ch, ranks: map[uint64]int{}, prio: map[int]int{}, pctAt: map[int]bool{},
		last: -1, hash: 14695981039346656037, ByClass: map[Class]int{}, KeepLog: 400}
	if cfg.Strategy == StratPCT {
		n := cfg.PCTSteps
		if n <= 0 {
			n = 300
		}
		for i := 0; i < cfg.PCTDepth; i++ {
			s.pctAt[ch.Intn(n)] = true
		}
	}
	return s
}

func Install(s *Sched) { cur.Store(s) }
func Uninstall()       { cur.Store(nil) }
func Current() *Sched  { return cur.Load() }

// Active reports whether a scheduler is installed (cheap; used by shims).
func Active() bool { return cur.Load() != nil }

func goid() uint64 {
	var buf [40]byte
	n := runtime.Stack(buf[:], false)
	// "goroutine 123 [running]:..."
	s := buf[10:n]
	var id uint64
	for _, c := range s {
		if c < '0' || c > '9' {
			break
		}
		id = id*10 + uint64(c-'0')
	}
	return id
}

// Yield parks the calling goroutine until the scheduler releases it. It is a no-op when
// no scheduler is installed or the class is disabled for the run.
func Yield(class Class, label string) {
	s := cur.Load()
	if s == nil || s.Cfg.Classes&class == 0 || s.aborted.Load() || s.quiet.Load() {
		return
	}
	p := &parked{gid: goid(), class: class, label: label, ch: make(chan struct{})}
	s.mu.Lock()
	if s.aborted.Load() {
		s.mu.Unlock()
		return
	}
	s.parked = append(s.parked, p)
	s.mu.Unlock()
	<-p.ch
}

// UniqueWhen returns the first expiry >= when that no timer of this run has been given
// yet, and reserves it.
func (s *Sched) UniqueWhen(when int64) int64 {
	s.whenMu.Lock()
	defer s.whenMu.Unlock()
	if s.whens == nil {
		s.whens = map[int64]struct{}{}
	}
	for {
		if _, used := s.whens[when]; !used {
			break
		}
		when++
	}
	s.whens[when] = struct{}{}
	return when
}

func (s *Sched) sleep(d time.Duration) {
	now := time.Now().UnixNano()
	time.Sleep(time.Duration(s.UniqueWhen(now+int64(d)) - now))
}

// Quiet runs f with every yield point turned into a no-op. It exists for temporary
// diagnostic code (reading state that sits behind instrumented locks) that must not
// change the schedule it is observing; only the currently released goroutine may call it.
func Quiet(f func()) {
	s := cur.Load()
	if s == nil {
		f()
		return
	}
	s.quiet.Store(true)
	defer s.quiet.Store(false)
	f()
}

// ErrDeadlock is returned by Run when the system is quiescent, unfinished and no timer
// makes progress within the horizon.
type ErrDeadlock struct{ Stacks string }

func (e *ErrDeadlock) Error() string {
	return "deadlock/stall: quiescent, unfinished, no progress within horizon"
}

// ErrSteps is returned when MaxSteps is exceeded (livelock suspicion; reported as
// inconclusive by callers, never as a violation on its own).
type ErrSteps struct{ Steps int }

func (e *ErrSteps) Error() string { return "scheduler step budget exceeded: " + strconv.Itoa(e.Steps) }

func (s *Sched) record(p *parked) {
	s.Steps++
	s.ByClass[p.class]++
	h := fnv.New64a()
	var b [8]byte
	for i := 0; i < 8; i++ {
		b[i] = byte(s.hash >> (8 * i))
	}
	h.Write(b[:])
	h.Write([]byte{byte(p.rank), byte(p.rank >> 8)})
	h.Write([]byte(p.label))
	s.hash = h.Sum64()
	if len(s.Trace) < s.KeepLog {
		s.Trace = append(s.Trace, "g"+strconv.Itoa(p.rank)+" "+p.label)
	}
}

// Hash is the running hash of the (goroutine rank, label) sequence released so far.
func (s *Sched) Hash() uint64 { return s.hash }

// Note mixes an externally observed event into the trace hash (e.g. op results).
func (s *Sched) Note(ev string) {
	h := fnv.New64a()
	var b [8]byte
	for i := 0; i < 8; i++ {
		b[i] = byte(s.hash >> (8 * i))
	}
	h.Write(b[:])
	h.Write([]byte(ev))
	s.hash = h.Sum64()
	if len(s.Trace) < s.KeepLog {
		s.Trace = append(s.Trace, "# "+ev)
	}
}

func (s *Sched) pick(n int) int {
	switch s.Cfg.Strategy {
	case StratSticky:
		inv := s.Cfg.SwitchInv
		if inv <= 0 {
			inv = 8
		}
		for i, p := range s.parked[:n] {
			if p.rank == s.last {
				if !s.Ch.OneIn(inv) {
					return i
				}
				break
			}
		}
		return s.Ch.Intn(n)
	case StratPCT:
		best, bi := -1<<31, 0
		for i, p := range s.parked[:n] {
			pr, ok := s.prio[p.rank]
			if !ok {
				pr = 1000 + s.Ch.Intn(1000)
				s.prio[p.rank] = pr
			}
			if pr > best {
				best, bi = pr, i
			}
		}
		if s.pctAt[s.Steps] {
			s.prio[s.parked[bi].rank] = -s.Steps
			delete(s.pctAt, s.Steps)
			return s.pick(n)
		}
		return bi
	default:
		return s.Ch.Intn(n)
	}
}

// Run drives the schedule until done() reports true at a quiescent point.
func (s *Sched) Run(done func() bool) error {
	idle := time.Duration(0)
	for {
		synctest.Wait()
		s.mu.Lock()
		n := len(s.parked)
		if n == 0 {
			s.mu.Unlock()
			if done() {
				return nil
			}
			q := time.Duration(s.Cfg.QuantumNS)
			s.sleep(q)
			idle += q
			s.Idle += q
			if idle > time.Duration(s.Cfg.HorizonNS) {
				return &ErrDeadlock{Stacks: AllStacks()}
			}
			continue
		}
		idle = 0
		if s.Cfg.TickNS > 0 {
			// every decision happens at its own virtual instant, so timers armed in
			// different steps never share an expiry (equal expiries fire in the
			// runtime's heap order, which is not reproducible across processes)
			s.mu.Unlock()
			s.sleep(time.Duration(s.Cfg.TickNS))
			// goroutines started by timers that fired meanwhile run to their first
			// yield point before the decision is taken
			synctest.Wait()
			s.mu.Lock()
			n = len(s.parked)
		}
		if n > s.MaxPar {
			s.MaxPar = n
		}
		if s.Steps >= s.Cfg.MaxSteps {
			s.mu.Unlock()
			return &ErrSteps{Steps: s.Steps}
		}
		if s.Cfg.StallInv > 0 && s.Ch.OneIn(s.Cfg.StallInv) {
			s.mu.Unlock()
			s.Stalls++
			s.sleep(time.Duration(s.Cfg.QuantumNS))
			continue
		}
		sort.SliceStable(s.parked, func(i, j int) bool { return s.parked[i].gid < s.parked[j].gid })
		// Canonical goroutine names are handed out here, at a quiescent point and in
		// creation order, so they do not depend on which goroutine happened to reach
		// its first yield point first.
		for _, q := range s.parked {
			r, ok := s.ranks[q.gid]
			if !ok {
				r = len(s.ranks)
				s.ranks[q.gid] = r
			}
			q.rank = r
		}
		if len(s.Trace) < s.KeepLog && os.Getenv("VERIF_SCHEDLOG_FULL") != "" {
			l := "  t=" + strconv.FormatInt(time.Now().UnixNano()%1_000_000_000_000, 10) + " parked:"
			for _, q := range s.parked {
				l += " g" + strconv.Itoa(q.rank) + "/" + strconv.FormatUint(q.gid, 10) + "@" + q.label
			}
			s.Trace = append(s.Trace, l)
		}
		i := s.pick(n)
		p := s.parked[i]
		s.parked = append(s.parked[:i], s.parked[i+1:]...)
		s.last = p.rank
		s.record(p)
		s.mu.Unlock()
		close(p.ch)
	}
}

// Abort releases every parked goroutine and turns all later yields into no-ops, so a
// failed run can be torn down (Close calls etc.) without the scheduler.
func (s *Sched) Abort() {
	s.aborted.Store(true)
	s.mu.Lock()
	ps := s.parked
	s.parked = nil
	s.mu.Unlock()
	for _, p := range ps {
		close(p.ch)
	}
}

// Parked returns the number of currently parked goroutines.
func (s *Sched) Parked() int {
	s.mu.Lock()
	defer s.mu.Unlock()
	return len(s.parked)
}

// AllStacks returns the stacks of the goroutines of the caller's synctest bubble (all
// goroutines when not in a bubble). Goroutines leaked by earlier, failed runs belong to
// other bubbles and are left out.
func AllStacks() string {
	buf := make([]byte, 4<<20)
	n := runtime.Stack(buf, true)
	all := strings.Split(string(buf[:n]), "\n\n")
	if len(all) == 0 {
		return ""
	}
	bubble := ""
	if i := strings.Index(all[0], "synctest bubble "); i >= 0 {
		rest := all[0][i:]
		if j := strings.IndexAny(rest, "]\n"); j >= 0 {
			bubble = rest[:j]
		}
	}
	if bubble == "" {
		return string(buf[:n])
	}
	var out []string
	for _, g := range all {
		first := g
		if i := strings.IndexByte(g, '\n'); i >= 0 {
			first = g[:i]
		}
		if strings.Contains(first, bubble+"]") {
			out = append(out, g)
		}
	}
	return strings.Join(out, "\n\n")
}

// Tasks runs named tasks under the scheduler and waits for all to finish.
type Tasks struct {
	s      *Sched
	mu     sync.Mutex
	left   int
	Errors []string
}

func (s *Sched) NewTasks() *Tasks { return &Tasks{s: s} }

// Go starts f as a task; the task parks immediately so the scheduler decides when it
// first runs. A panic in f is captured as an error.
func (t *Tasks) Go(name string, f func() error) {
	t.mu.Lock()
	t.left++
	t.mu.Unlock()
	go func() {
		defer func() {
			if r := recover(); r != nil {
				buf := make([]byte, 1<<14)
				n := runtime.Stack(buf, false)
				t.mu.Lock()
				t.Errors = append(t.Errors, fmt.Sprintf("task %s: panic: %v\n%s", name, r, trimStack(string(buf[:n]))))
				t.mu.Unlock()
			}
			t.mu.Lock()
			t.left--
			t.mu.Unlock()
		}()
		Yield(ClassTask, "start "+name)
		if err := f(); err != nil {
			t.mu.Lock()
			t.Errors = append(t.Errors, fmt.Sprintf("task %s: %v", name, err))
			t.mu.Unlock()
		}
	}()
}

func (t *Tasks) Done() bool {
	t.mu.Lock()
	defer t.mu.Unlock()
	return t.left == 0
}

func trimStack(s string) string {
	lines := strings.Split(s, "\n")
	if len(lines) > 40 {
		lines = lines[:40]
	}
	return strings.Join(lines, "\n")
}
