// Package hist records operation histories stamped with a global event sequence number
// and checks them with porcupine against small sequential models.
package hist

import (
	"fmt"
	"sort"
	"strconv"
	"strings"
	"sync"
	"time"

	"github.com/anishathalye/porcupine"
)

// Recorder hands out globally ordered event numbers.
type Recorder struct {
	mu  sync.Mutex
	seq int64
	Ops []porcupine.Operation
}

func (r *Recorder) Stamp() int64 {
	r.mu.Lock()
	defer r.mu.Unlock()
	r.seq++
	return r.seq
}

func (r *Recorder) Add(client int, in any, call int64, out any, ret int64) {
	r.mu.Lock()
	defer r.mu.Unlock()
	r.Ops = append(r.Ops, porcupine.Operation{ClientId: client, Input: in, Call: call, Output: out, Return: ret})
}

// Snapshot returns a copy of the operations recorded so far.
func (r *Recorder) Snapshot() []porcupine.Operation {
	r.mu.Lock()
	defer r.mu.Unlock()
	return append([]porcupine.Operation(nil), r.Ops...)
}

func (r *Recorder) Len() int {
	r.mu.Lock()
	defer r.mu.Unlock()
	return len(r.Ops)
}

// ---- time-series set model: per channel, the set of timestamps present -------------------

type TSOp struct {
	Ch   uint32
	Kind string  // "add", "del", "read"
	TS   []int64 // add: timestamps made visible
	A, B int64   // del/read range
}

// TSOut is the list of timestamps a read returned, in order.
type TSOut struct{ TS []int64 }

func enc(ts []int64) string {
	var sb strings.Builder
	for _, t := range ts {
		sb.WriteString(strconv.FormatInt(t, 36))
		sb.WriteByte(',')
	}
	return sb.String()
}

// TSModel is a porcupine model over sorted timestamp lists, partitioned by channel.
var TSModel = porcupine.Model{
	Partition: func(history []porcupine.Operation) [][]porcupine.Operation {
		by := map[uint32][]porcupine.Operation{}
		var keys []int
		for _, op := range history {
			ch := op.Input.(TSOp).Ch
			if _, ok := by[ch]; !ok {
				keys = append(keys, int(ch))
			}
			by[ch] = append(by[ch], op)
		}
		sort.Ints(keys)
		out := make([][]porcupine.Operation, 0, len(keys))
		for _, k := range keys {
			out = append(out, by[uint32(k)])
		}
		return out
	},
	Init: func() any { return "" },
	Step: func(state, input, output any) (bool, any) {
		st := dec(state.(string))
		in := input.(TSOp)
		switch in.Kind {
		case "add":
			m := append(append([]int64(nil), st...), in.TS...)
			sort.Slice(m, func(i, j int) bool { return m[i] < m[j] })
			for i := 1; i < len(m); i++ {
				if m[i] == m[i-1] {
					return false, state
				}
			}
			return true, enc(m)
		case "del":
			var m []int64
			for _, t := range st {
				if t < in.A || t >= in.B {
					m = append(m, t)
				}
			}
			return true, enc(m)
		case "read":
			var want []int64
			for _, t := range st {
				if t >= in.A && t < in.B {
					want = append(want, t)
				}
			}
			got := output.(TSOut).TS
			if len(got) != len(want) {
				return false, state
			}
			for i := range got {
				if got[i] != want[i] {
					return false, state
				}
			}
			return true, state
		}
		return false, state
	},
	Equal: func(a, b any) bool { return a.(string) == b.(string) },
	DescribeOperation: func(input, output any) string {
		in := input.(TSOp)
		switch in.Kind {
		case "add":
			return fmt.Sprintf("ch%d add %v", in.Ch, in.TS)
		case "del":
			return fmt.Sprintf("ch%d del [%d,%d)", in.Ch, in.A, in.B)
		}
		return fmt.Sprintf("ch%d read [%d,%d) -> %v", in.Ch, in.A, in.B, output.(TSOut).TS)
	},
}

func dec(s string) []int64 {
	if s == "" {
		return nil
	}
	parts := strings.Split(strings.TrimSuffix(s, ","), ",")
	out := make([]int64, 0, len(parts))
	for _, p := range parts {
		v, _ := strconv.ParseInt(p, 36, 64)
		out = append(out, v)
	}
	return out
}

// Check runs porcupine with a wall-clock timeout. It must be called outside any
// synctest bubble. Result: "ok", "illegal" or "unknown" (timeout: inconclusive).
func Check(model porcupine.Model, ops []porcupine.Operation, timeout time.Duration) (string, string) {
	res, info := porcupine.CheckOperationsVerbose(model, ops, timeout)
	switch res {
	case porcupine.Ok:
		return "ok", ""
	case porcupine.Unknown:
		return "unknown", ""
	}
	// describe the partition that failed: list its operations in call order
	var sb strings.Builder
	parts := [][]porcupine.Operation{ops}
	if model.Partition != nil {
		parts = model.Partition(ops)
	}
	lin := info.PartialLinearizationsOperations()
	for pi, p := range parts {
		best := 0
		if pi < len(lin) {
			for _, l := range lin[pi] {
				if len(l) > best {
					best = len(l)
				}
			}
		}
		if best == len(p) {
			continue
		}
		sort.Slice(p, func(i, j int) bool { return p[i].Call < p[j].Call })
		fmt.Fprintf(&sb, "partition %d: longest linearizable prefix %d of %d operations:\n", pi, best, len(p))
		for _, op := range p {
			fmt.Fprintf(&sb, "  client %d [%d,%d] %s\n", op.ClientId, op.Call, op.Return, model.DescribeOperation(op.Input, op.Output))
		}
	}
	return "illegal", sb.String()
}
