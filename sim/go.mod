module verifsim

go 1.26.3

require (
	github.com/anishathalye/porcupine v1.3.0
	pgregory.net/rapid v1.3.0
)
